#!/bin/bash
# Run once after a fresh restore (offline). Everything else is rebuilt by the checks from /repo's working tree.
set -e
cd "$(dirname "$0")"
python3-vt -c "import z3, sympy; print('z3', z3.get_version_string(), 'sympy', sympy.__version__)"
mkdir -p .work evidence replays
