#!/bin/bash
# Run once after a fresh restore (offline). Everything else is rebuilt by the checks from /repo's working tree.
set -e
cd "$(dirname "$0")"
export CARGO_NET_OFFLINE=true
python3-vt -c "import z3, sympy; print('z3', z3.get_version_string(), 'sympy', sympy.__version__)"
mkdir -p .work evidence replays
# warm-ups (not required for correctness: every check rebuilds what it needs from /repo's current tree, keyed by a hash of the sources):
# the two MIR dumps of the current tree, the native replay binaries, the Groth16 test binary of C15
python3-vt - <<'PY' || true
import sys, time
sys.path.insert(0, '.')
t0 = time.time()
try:
    from dv import mirload
    for b in ('ark', 'min'): mirload.dump(b); print('MIR', b, round(time.time() - t0, 1), 's', flush=True)
except Exception as e: print('MIR warm-up skipped:', e)
try:
    from dv import replay
    for b in ('ark', 'min'): replay.Native.get(b, 'dev'); print('replay', b, round(time.time() - t0, 1), 's', flush=True)
except Exception as e: print('replay warm-up skipped:', str(e)[-300:])
try:
    from dv import shape
    o = shape.check_groth16_native()[0]; print('groth16', o.status, round(time.time() - t0, 1), 's', flush=True)
except Exception as e: print('groth16 warm-up skipped:', str(e)[-300:])
PY
