#!/usr/bin/env python3
"""Regenerates MANIFEST.json from the table below (kept in one place so the manifest stays valid while checks are added)."""
import json
NA_ALL = {
 'C01': 'not built yet', 'C03': 'not built yet', 'C04': 'not built yet', 'C05': 'not built yet', 'C06': 'not built yet', 'C07': 'not built yet',
 'C08': 'not built yet', 'C09': 'not built yet', 'C10': 'not built yet', 'C11': 'not built yet', 'C12': 'not built yet', 'C13': 'not built yet',
 'C14': 'not built yet', 'C16': 'not built yet', 'C17': 'not built yet',
 'C15': 'Circuit shape / pinned Groth16 keys: needs Groth16 proving and pairing evaluation on concrete keys (whole-program runs through ark-groth16, no symbolic content) and a dataflow statement about arkworks\' synthesiser; no solver verdict over the real code is within reach (DESIGN §4).',
}
CHECKS = {
 'C16': dict(level='proof', technique='constant bodies of bls12_377.rs evaluated on the MIR; defining equations (Frobenius coefficients as powers of the non-residue in Fp2, curve/twist equations, order chains, cofactor formulas) as ground SMT decided by z3; Fp trait layer as in C10/C11',
      text='Partial claim: every literal of the BLS12-377 configuration is evaluated from its real MIR body and shown to satisfy its defining equation and to occur in the reference crate\'s source; the Fp implementation the generic engine is instantiated with is checked at the operator/conversion level. Pairing outputs for all inputs, bilinearity and non-degeneracy are not decided (the engine is ark-ec\'s generic code).',
      note='Trusted: ark-ec generic Bls12 engine; configuration equality implies engine equality. Replay compares the two engines natively (generators, multiples, Frobenius maps, cofactor methods, pairings, decoders).', ref='§3 C16'),
 'C01': dict(level='proof', technique='derived: union of the C02 / C03 / C09 obligations (MIR symbolic execution, z3 identities and certificates) plus coordinate-level negate check; native round-trip replay before any VIOLATION',
      text='C01 is decided as C02 (decode = specification decoder, all byte strings, all entry points) and C03 (encode = specification encoder, representation independent) and contract S (C09) for both builds, plus the Decaf bijection theorem which is trusted and stated; the check runs the union of those obligations.',
      note='Trusted: the Decaf bijection theorem for (a,d,q); everything else as in C02/C03/C09.', ref='§3 C01'),
 'C10': dict(level='proof', technique='symbolic execution of the MIR (POLY domain) for every operator/method form; certificates for division/inversion; branch-merged free-cyclic-group interpretation for power',
      text='For Fq, Fr, Fp on both builds every operator impl (25 per field), the Sum/Product impls over 0..=3 elements, the Field/Zero/One methods and Fq::power (all exponent limb values, 0..=3 limbs) are executed on the MIR and compared by z3 with the field operation on values; exactly the zero divisor panics, inverse of zero is None.',
      note='Trusted: kernels/wrappers denote field operations on values (contracts K, W), ark-ff behind the u64 wrappers, MIR semantics as modelled.', ref='§3 C10'),
 'C11': dict(level='proof', technique='symbolic execution of the MIR: byte-string reduction as chunk structure + polynomial identity (lengths 0..=200), integer/limb/byte/flag conversions as path conditions decided by z3 QF_BV',
      text='from_le/be_bytes_mod_order of all three fields and both builds are executed for every length 0..=200 with symbolic bytes (chunk windows, padding, Horner weights); from_bigint accepts exactly the integers below p with the right value; flagged (de)serialisation round-trips value and flags for the three standard flag types and rejects non-canonical values and malformed flags; sizes.',
      note='Trusted: W contracts for the raw parser and limb packing, arkworks flag types, MIR semantics. Bound: lengths 0..=200.', ref='§3 C11'),
 'C12': dict(level='proof', technique='derived: both builds are compared with the same specification by the checks of C02, C03, C04, C05, C07, C08, C09, C10, C11, C17 (MIR symbolic execution, z3)',
      text='Backend equivalence is decided transitively: every shared operation of the arkworks build and of the minimal build is shown equal to the same specification on all inputs (within the bounds of the respective checks), and duplicated literals are shown equal through their defining equations.',
      note='Trusted: as in the constituent checks. The replay compares both native builds with the common python reference.', ref='§3 C12'),
 'C09': dict(level='proof', technique='symbolic execution of the MIR in 2-adic exponent coordinates (47-bit bit-vectors + exact odd-part exponent vectors), staged invariants discharged by z3 QF_BV; path enumeration for zero operands',
      text='Both square-root-of-ratio routines are executed on the MIR for all nonzero (num, den): the field is represented as <g> x H with the 2-adic exponent a symbolic 47-bit vector; the lookup tables are the real ones (their initialiser is interpreted). Every HashMap lookup is shown to hit (no panic), every bounds/overflow assertion is proved, and flag and y^2*den = num resp. zeta*num follow from stage invariants that are each proved by z3. Zero operands: the early returns are enumerated. legendre follows Euler\'s criterion on every path.',
      note='Trusted: cyclicity of F_q^*, MIR semantics as modelled, ark-ff pow/sqrt. No bound on values.', ref='§3 C09'),
 'C06': dict(level='proof', technique='path enumeration of every constructor on the MIR with validity provenance tracking (raw arkworks point constructors are the only invalid sources); decode on-curve certificate; ground SMT for the constants and group order',
      text='Every public constructor of the arkworks build (zero, generator, default, from_random_bytes for all slice lengths 0..=80, the two samplers, into_affine, normalize_batch, batch_convert_to_mul_base, cofactor methods, all deserialisers) is executed on the MIR; on every path each returned curve point is shown to stem from a validated source (decode, checked constant, operations on valid points), never from a raw arkworks point constructor; generator = decode(8), identity, [r]B = identity and the on-curve property of decoded points are discharged by z3.',
      note='Trusted: group operations/conversions preserve validity, Elligator image, Decaf theorem; arkworks as delegated. Bounds: lengths 0..=80, <= 2 sampler rejections, batches <= 3.', ref='§3 C06'),
 'C05': dict(level='proof', technique='symbolic execution of the MIR with branch merging over the free cyclic group (ladders: z3 LIA/BV over all limb values), free-abelian-group interpretation of the Mul forms and MSM stub, ground SMT chain for the group order',
      text='Both ladders of the minimal backend are executed on the MIR for slices of 1..=5 symbolic limbs (all 2^320 values; vartime branches merged) and the accumulated multiple is shown equal to sum limb_i 2^(64 i) by z3; every Mul/MulAssign impl, mul_bigint and the multiscalar stub (0..=3 pairs, unequal lengths) are shown to be k*P / the sum of products in the free abelian group; [r]GENERATOR = identity and GENERATOR != identity as a checked ground addition chain.',
      note='Trusted: ark-ec scalar multiplication for inner points, group axioms, r prime, C04 for each ladder step. Bounds: <= 5 limbs, <= 3 (5) MSM pairs.', ref='§3 C05'),
 'C08': dict(level='proof', technique='path enumeration of the MIR (POLY domain) for ==, the identity predicates and Hash against their specified meaning; z3 identities / certificates for the hashed encodings',
      text='For both builds every path of PartialEq::eq is shown to answer exactly X1*Y2 == Y1*X2 (and true between a point, its rescaling and its coset shift); is_identity, Zero::is_zero, AffineRepr::is_zero, == IDENTITY and == default() answer exactly X == 0; Hash feeds the hasher only the encoding bytes, shown identical for the rescaled, plain and coset-shifted representative.',
      note='Trusted: arkworks inner-point behaviour, contract S + scaling lemma, MIR semantics; Decaf injectivity for the "iff same encoding" direction.', ref='§3 C08'),
 'C17': dict(level='proof', technique='constant bodies evaluated on the MIR by the interpreter; each defining equation is a closed SMT formula (modular powers as squaring chains) decided by z3',
      text='Each published constant (inherent, wrapper-level for both wrappers, trait-associated, curve configuration, Lazy statics) is obtained by evaluating its real MIR body, and its defining equation (recomputed from the modulus / curve parameters alone) is discharged by z3 as a ground formula; both builds.',
      note='Trusted: the primes and documented small generators from the specification; MIR semantics as modelled; r prime.', ref='§3 C17'),
 'C03': dict(level='proof', technique='symbolic execution of the MIR (POLY domain): encode == specification encoder by z3 polynomial identities; representation independence by z3-checked cofactor certificates',
      text='vartime_compress_to_field of both builds is executed on the MIR with symbolic (X,Y,Z,T) and shown identical to the specification encoder on every sign/squareness path; invariance under projective rescaling, under the coset shift (-X,-Y,Z,T) and on both identity representatives is shown by running the code twice and proving the two results equal (identities, or ideal-membership certificates checked by z3 on paths with zero hypotheses).',
      note='Trusted: MIR semantics as modelled, contract S (C09) plus the derived scaling lemma, arkworks where delegated; injectivity is the Decaf theorem (not decided).', ref='§3 C03'),
 'C04': dict(level='proof', technique='symbolic execution of the MIR over the free abelian group (z3 LIA+EUF) for every operator form; cofactor certificates (z3-checked) for the hand-written extended-coordinate formulas',
      text='All operator impls found in the MIR of the ops files (56 arkworks-build forms, 21 minimal-build forms), the four Sum impls, negate, double_in_place, zero/default and the affine/projective conversions are executed with symbolic operands interpreted in the free abelian group and compared by z3 with lhs+rhs / lhs-rhs / -x / k*P; the minimal backend Add, double and Neg are compared with the affine Edwards law as polynomial certificates modulo T*Z = X*Y and the curve equation.',
      note='Trusted: ark-ec point arithmetic for the inner points, abelian group axioms (association/order), MIR semantics as modelled.', ref='§3 C04'),
 'C07': dict(level='proof', technique='symbolic execution of the MIR (POLY domain) against the specification Elligator map; z3 polynomial identities',
      text='elligator_map of both builds is executed on the MIR for symbolic r0 and all four output coordinates are shown identical to the specification map on every path (square / non-square branch, sign fix); the same run with -r0 gives identical coordinates.',
      note='Trusted: contract S (C09), MIR semantics as modelled; equivalence optimised/unoptimised map and validity of the image are specification-level theorems.', ref='§3 C07'),
 'C02': dict(level='proof', technique='symbolic execution of the MIR (POLY domain) against the specification decoder; polynomial identities by z3, on-curve assertion by z3-checked cofactor certificates',
      text='Every path of vartime_decompress (both builds) is executed symbolically on the compiler MIR with all 32 bytes symbolic; verdict and the four coordinates are shown identical to the specification decoder by z3 (identities over Z with coefficients reduced mod q), the on-curve assertion of the constructor is discharged by a cofactor certificate checked by z3.',
      note='Trusted: MIR semantics as modelled, arkworks where /repo delegates, contracts S (sqrt, C09) and W (wrappers, C10/C11) which are separate obligations; Decaf theory is not needed for this property.', ref='§3 C02'),
}
def main():
    checks = []
    for pid, c in sorted(CHECKS.items()):
        checks.append({
            'property_id': pid, 'quick_cmd': f'./check {pid} --tier quick', 'thorough_cmd': f'./check {pid} --tier thorough',
            'evidence_file': f'/verif/evidence/{pid}.json', 'replay_cmd_template': f'./check {pid} --replay {{path}}', 'engine': 'dv',
            'level_claimed': {'category': c['level'], 'text': c['text'], 'design_ref': c['ref']}, 'level_note': c['note'], 'technique': c['technique']})
    na = [{'property_id': k, 'reason': v} for k, v in sorted(NA_ALL.items()) if k not in CHECKS]
    m = {'version': 1, 'setup_cmd': './setup.sh',
         'hooks': {'guard': 'decaf377_verif', 'enable': 'RUSTFLAGS="--cfg decaf377_verif" (used only by the replay crates; the symbolic engines read the unhooked MIR)',
                   'baseline_off_cmd': 'cd /repo && cargo test --workspace --no-fail-fast --offline', 'source_commits': [], 'add_only': True},
         'engines': [{'name': 'dv', 'path': '/verif/dv', 'serves_properties': sorted(CHECKS), 'kind_free_text': 'MIR symbolic interpreter + fiat-to-SMT translator + ground constant obligations + Kani harness crates; z3/cvc5/CBMC decide'}],
         'checks': checks, 'not_applicable': na,
         'notes': 'See DESIGN.md. Exit codes: 0 held, 1 VIOLATION (replayed natively), 2 inconclusive (never reported as held).'}
    json.dump(m, open('MANIFEST.json', 'w'), indent=1)
if __name__ == '__main__': main()
