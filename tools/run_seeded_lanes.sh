#!/bin/bash
# run_seeded_lanes.sh <nlanes> [seed names...] - like run_seeded.sh, but in parallel lanes that never touch /repo: each lane has its own
# scratch worktree of /repo's HEAD (DV_REPO), its own work dir (DV_WORK) and its own copy of the replay crate pointing at that worktree.
# Evidence files written by lane runs are scratch (DV_EVIDENCE_DIR); the committed evidence is refreshed separately on the clean tree.
N=$1; shift
cd /verif
seeds=("$@"); [ ${#seeds[@]} = 0 ] && seeds=($(ls seeded | grep -E '^C[0-9]+-'))
HEAD=$(git -C /repo rev-parse HEAD)
lane() {
  k=$1; shift
  WT=/tmp/lane-$k; rm -rf /tmp/lane-$k-replay; git -C /repo worktree remove --force $WT 2>/dev/null; git -C /repo worktree add -q --detach $WT $HEAD
  cp -r /verif/replay /tmp/lane-$k-replay; rm -rf /tmp/lane-$k-replay/target; sed -i "s#path = \"/repo\"#path = \"$WT\"#" /tmp/lane-$k-replay/Cargo.toml
  for s in "$@"; do
    prop=${s%%-*}
    git -C $WT checkout -q -- . ; git -C $WT apply /verif/seeded/$s/patch.diff || { echo "$s apply-failed"; continue; }
    t0=$(date +%s)
    out=$(DV_REPO=$WT DV_WORK=/tmp/lane-$k-work DV_REPLAY_SRC=/tmp/lane-$k-replay DV_EVIDENCE_DIR=/tmp/lane-$k-evidence DV_NPROC=${LANE_NPROC:-6} ./check $prop --tier ${TIER:-quick} 2>&1); rc=$?
    t1=$(date +%s)
    git -C $WT checkout -q -- .
    v=$(echo "$out" | grep -c '^VIOLATION')
    echo "$s prop=$prop rc=$rc violations=$v wall=$((t1-t0))s :: $(echo "$out" | grep -E '^VIOLATION|^\[C' | head -2 | tr '\n' ' ')"
    echo "$out" > /tmp/seedrun-$s.log
  done
  git -C /repo worktree remove --force $WT; rm -rf /tmp/lane-$k-replay /tmp/lane-$k-work /tmp/lane-$k-evidence
}
for k in $(seq 0 $((N-1))); do
  mine=(); i=0
  for s in "${seeds[@]}"; do [ $((i % N)) = $k ] && mine+=("$s"); i=$((i+1)); done
  lane $k "${mine[@]}" &
done
wait
