#!/usr/bin/env python3
"""results_md.py <sweep log(s) of tools/run_seeded.sh / run_seeded_lanes.sh>  ->  seeded/RESULTS.md  (later logs override earlier ones)"""
import sys, re, json, os
rows_d = {}
for line in (l for f in sys.argv[1:] for l in open(f)):
    m = re.match(r'^(C\d+-\d+) prop=(C\d+) rc=(\d+) violations=(\d+) wall=(\d+)s :: (.*)$', line.strip())
    if not m: continue
    seed, prop, rc, nv, wall, rest = m.groups()
    meta = {}
    try: meta = json.load(open(f'/verif/seeded/{seed}/meta.json'))
    except Exception: pass
    log = f'/tmp/seedrun-{seed}.log'; first = ''
    if os.path.exists(log):
        ls = [l.strip() for l in open(log)]
        first = next((l for l in ls if l.startswith('violated:')), None) or next((l for l in ls if l.startswith('inconclusive:')), '')
        first = first[:230]
    verdict = {'1': 'VIOLATION (natively reproduced)', '2': 'inconclusive (exit 2, not reported as held)', '0': 'MISSED'}[rc]
    rows_d[seed] = ((seed, prop, verdict, wall, (meta.get('summary') or '')[:160].replace('|', '/').replace('\n', ' '), first.replace('|', '/')))
import re as _re
rows = [rows_d[k] for k in sorted(rows_d, key=lambda x: (x.split('-')[0], int(x.split('-')[1])))]
with open('/verif/seeded/RESULTS.md', 'w') as f:
    f.write('# Seeded changes: outcome of the registered quick check of the seed\'s property\n\n')
    f.write('Produced by `tools/run_seeded.sh` (apply patch to /repo, `./check <prop> --tier quick`, undo) and `tools/results_md.py`.\n')
    f.write(f'{sum(1 for r in rows if r[2].startswith("VIOL"))} of {len(rows)} reported as VIOLATION with a native replay; '
            f'{sum(1 for r in rows if r[2].startswith("inconcl"))} inconclusive; {sum(1 for r in rows if r[2] == "MISSED")} missed.\n\n')
    f.write('| seed | check | verdict | wall s | change (author\'s summary, truncated) | first failing obligation |\n|---|---|---|---|---|---|\n')
    for r in rows: f.write('| ' + ' | '.join(r) + ' |\n')
print(len(rows), 'rows')
