#!/bin/bash
# confirm_seed.sh <seed dir with patch.diff demo.rs meta.json> <scratch worktree>
# Confirms: patch applies; builds in 3 configurations; pinned suite passes with patch; demo fails with patch, passes without.
S=$1; WT=$2
export CARGO_NET_OFFLINE=true
cd "$WT" || exit 9
git checkout -q -- . ; git clean -fdq -e target
DEMO_CMD=$(python3 -c "import json,sys; print(json.load(open('$S/meta.json'))['demo_cmd'])")
FEAT=""
case "$DEMO_CMD" in *--no-default-features*) FEAT="--no-default-features";; esac
case "$DEMO_CMD" in *"--features r1cs"*) FEAT="--features r1cs";; esac
REL=""
RF=""
case "$DEMO_CMD" in *decaf377_verif*) RF="--cfg decaf377_verif";; esac
TAG=$(echo "$S" | tr "/" "_")
echo "== seed $S  features: '$FEAT'"
git apply "$S/patch.diff" || { echo "RESULT patch-does-not-apply"; exit 1; }
ok=1
cargo build --offline -q 2>/dev/null || { echo "build default FAILED"; ok=0; }
cargo build --offline -q --no-default-features 2>/dev/null || { echo "build min FAILED"; ok=0; }
cargo build --offline -q --features r1cs 2>/dev/null || { echo "build r1cs FAILED"; ok=0; }
T=$(cargo test --workspace --no-fail-fast --offline 2>&1 | grep -E "^test result" | awk '{p+=$4; f+=$6} END{print p" "f}')
echo "suite with patch: passed/failed = $T"
[ "$T" = "101 0" ] || ok=0
cp "$S/demo.rs" tests/demo.rs
RUSTFLAGS="$RF" cargo test --offline $FEAT --test demo > /tmp/demo_with$TAG.log 2>&1; rc_with=$?
git apply -R "$S/patch.diff"
RUSTFLAGS="$RF" cargo test --offline $FEAT --test demo > /tmp/demo_without$TAG.log 2>&1; rc_without=$?
rm -f tests/demo.rs
git checkout -q -- . ; git clean -fdq -e target
echo "demo with patch rc=$rc_with ; without rc=$rc_without"
if [ $ok = 1 ] && [ $rc_with != 0 ] && [ $rc_without = 0 ]; then echo "RESULT confirmed"; else echo "RESULT NOT-confirmed"; fi
