#!/bin/bash
# run_seeded.sh [seed names...]  — apply each seeded change to /repo, run the check of its property, undo, record the outcome.
cd /verif
seeds=("$@"); [ ${#seeds[@]} = 0 ] && seeds=($(ls seeded | grep -E '^C[0-9]+-'))
for s in "${seeds[@]}"; do
  prop=${s%%-*}; [ -n "$PROP_OVERRIDE" ] && prop=$PROP_OVERRIDE
  git -C /repo checkout -q -- . ; 
  if ! git -C /repo apply /verif/seeded/$s/patch.diff; then echo "$s apply-failed"; continue; fi
  t0=$(date +%s)
  out=$(./check $prop --tier ${TIER:-quick} 2>&1); rc=$?
  t1=$(date +%s)
  git -C /repo checkout -q -- .
  v=$(echo "$out" | grep -c '^VIOLATION')
  echo "$s prop=$prop rc=$rc violations=$v wall=$((t1-t0))s :: $(echo "$out" | grep -E '^VIOLATION|^\[C' | head -2 | tr '\n' ' ')"
  echo "$out" > /tmp/seedrun-$s.log
done
