#!/bin/bash
# run every registered check on the (clean) tree so that the committed evidence files describe the unchanged tree
cd /verif
git -C /repo diff --quiet || { echo "/repo has uncommitted changes"; exit 1; }
for p in $(python3 -c "import json; print(' '.join(c['property_id'] for c in json.load(open('MANIFEST.json'))['checks']))"); do
  ./check $p --tier ${TIER:-quick} | tail -1
done
