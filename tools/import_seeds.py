#!/usr/bin/env python3
"""import confirmed seeded changes from /tmp/seed-out + /tmp/seed-confirm into /verif/seeded/<prop>-<k>/"""
import json, os, shutil, sys
for pid in sys.argv[1:]:
    for k in (1, 2, 3):
        src = f'/tmp/seed-out/{pid}/{k}'; log = f'/tmp/seed-confirm/{pid}-{k}.log'
        if not os.path.exists(src + '/patch.diff') or not os.path.exists(log): continue
        lg = open(log).read()
        if 'RESULT confirmed' not in lg: print('NOT confirmed', pid, k); continue
        dst = f'/verif/seeded/{pid}-{k}'; os.makedirs(dst, exist_ok=True)
        shutil.copy(src + '/patch.diff', dst); shutil.copy(src + '/demo.rs', dst)
        meta = json.load(open(src + '/meta.json'))
        out = {'property': pid, 'summary': meta.get('summary'), 'needs_to_manifest': meta.get('needs_to_manifest'), 'files': meta.get('files'),
               'demo_cmd': meta.get('demo_cmd'), 'author': 'independent sub-agent given only the property text and a scratch worktree',
               'confirmed_by_me': [l for l in lg.splitlines() if l.startswith(('suite', 'demo with', 'RESULT'))],
               'confirmation_procedure': 'tools/confirm_seed.sh in a scratch worktree: patch applies; builds with default, --no-default-features, --features r1cs; pinned suite 101/101 with patch; demo fails with patch and passes without'}
        json.dump(out, open(dst + '/meta.json', 'w'), indent=1)
        print('imported', dst)
