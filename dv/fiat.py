"""E2: integer-exact translation of the generated fiat-crypto source (K layer, 32-bit backend).

The straight-line bodies of `{fq,fr,fp}_{add,sub,opp,mul,square,from_montgomery,to_montgomery}` are parsed from
/repo/src/fields/*/u32/fiat.rs on every run and turned into linear integer arithmetic: every primitive call is one linear
equation over fresh bounded integers (carry/borrow words), products of two symbolic words are fresh atoms m_ij (an
over-approximation), products with literal words stay linear.  Decided per function, for ALL operands:
   no overflow of the unchecked u32 additions;  out < p;  the algebraic contract
      add: out = a + b - e p     sub: out = a - b + e p     opp: out = e p - a          (e in {0,1})
      mul/square/from/to_montgomery:  out * R = a * b + K p - e p R     (K: quotient digits read off the code, untrusted hint)
The words the code computes and drops are shown to be zero by 32-bit bit-vector queries on their backward slice.
The four primitives themselves are checked on the MIR (bit-vectors) against their integer meaning."""
import re, time, random, os, sys
import z3
from . import common
from .common import Ob

M = 2 ** 32
PR = {'fq': 0x12ab655e9a2ca55660b44d1e5c37b00159aa76fed00000010a11800000000001,
      'fr': 0x04aad957a68b2955982d1347970dec005293a3afc43c8afeb95aee9ac33fd9ff,
      'fp': 0x01ae3a4617c510eac63b05c06ca1493b1a22d9f300f5138f1ef3622fba094800170b5d44300000008508c00000000001}
NL = {'fq': 8, 'fr': 8, 'fp': 12}

def parse_fn(src, name):
    m = re.search(r'pub fn %s\((.*?)\)\s*\{(.*?)\n\}' % re.escape(name), src, re.S)
    if not m: raise ValueError('function not found: ' + name)
    return m.group(1), m.group(2)

def strip(e):
    e = e.strip()
    def bal(s):
        d = 0
        for ch in s:
            if ch == '(': d += 1
            elif ch == ')':
                d -= 1
                if d < 0: return False
        return d == 0
    while e.startswith('(') and e.endswith(')') and bal(e[1:-1]): e = e[1:-1].strip()
    m = re.fullmatch(r'(.*) as (u32|u64|\w+U1)', e)
    if m and bal(m.group(1)): return strip(m.group(1))
    return e

def atom(e):
    e = strip(e)
    if re.fullmatch(r'0x[0-9a-fA-F]+', e): return ('c', int(e, 16))
    if re.fullmatch(r'\d+', e): return ('c', int(e))
    if re.fullmatch(r'x\d+', e): return ('v', e)
    m = re.fullmatch(r'\(?(arg\d)(?:\.0)?\)?\[(\d+)\]', e)
    if m: return ('v', f'{m.group(1)}_{m.group(2)}')
    m = re.fullmatch(r'(x\d+) & (.*)', e)
    if m:
        c = atom(m.group(2))
        if c[0] == 'c': return ('and', m.group(1), c[1])
    raise ValueError('atom ' + e)

def sum_terms(e):
    """flatten a (parenthesised, cast-decorated) sum of words into its atoms; None if it is not such a sum"""
    e = strip(e)
    d = 0; parts = []; cur = ''
    for ch in e:
        if ch == '(': d += 1
        elif ch == ')': d -= 1
        if ch == '+' and d == 0: parts.append(cur); cur = ''
        else: cur += ch
    parts.append(cur)
    if len(parts) == 1:
        try: return [atom(e)]
        except ValueError: return None
    out = []
    for p_ in parts:
        t = sum_terms(p_)
        if t is None: return None
        out += t
    return out

def split_args(t):
    out = []; d = 0; cur = ''
    for ch in t:
        if ch == '(': d += 1
        elif ch == ')': d -= 1
        if ch == ',' and d == 0: out.append(cur); cur = ''
        else: cur += ch
    out.append(cur); return out

def parse_ops(body):
    ops = []
    for s in [s.strip() for s in body.replace('\n', ' ').split(';') if s.strip()]:
        if re.fullmatch(r'let mut (x\d+): \w+ = 0', s): continue
        m = re.fullmatch(r'(?:let (?:mut )?)?(x\d+)(?:: \w+)? = (.*)', s)
        if m:
            rhs = strip(m.group(2))
            terms = sum_terms(rhs)
            if terms is not None and len(terms) > 1: ops.append(('addn', m.group(1), terms)); continue
            ops.append(('mov', m.group(1), atom(rhs))); continue
        m = re.fullmatch(r'\w+_(mulx|addcarryx|subborrowx|cmovznz)_u32\((.*)\)', s)
        if m:
            args = [a.strip() for a in split_args(m.group(2)) if a.strip()]
            outs = [a.replace('&mut ', '') for a in args if a.startswith('&mut')]
            ins = []
            for a in args:
                if a.startswith('&mut'): continue
                t = sum_terms(a)
                if t is not None and len(t) > 1:
                    tmp = f'xs{len(ops)}_{len(ins)}'; ops.append(('addn', tmp, t)); ins.append(('v', tmp))
                else: ins.append(atom(a))
            ops.append((m.group(1), outs, ins)); continue
        m = re.fullmatch(r'out1(?:\.0)?\[(\d+)\] = (x\d+)', s)
        if m: ops.append(('out', int(m.group(1)), atom(m.group(2)))); continue
        raise ValueError('statement ' + s)
    return ops

def evalpy(ops, env):
    env = dict(env); out = {}
    g = lambda a: a[1] if a[0] == 'c' else ((env[a[1]] & a[2]) if a[0] == 'and' else env[a[1]])
    for op in ops:
        k = op[0]
        if k == 'mov': env[op[1]] = g(op[2])
        elif k == 'addn':
            t = sum(g(a) for a in op[2])
            if t >= M: raise OverflowError('u32 addition overflows')
            env[op[1]] = t
        elif k == 'mulx':
            t = g(op[2][0]) * g(op[2][1]); env[op[1][0]] = t % M; env[op[1][1]] = t // M
        elif k == 'addcarryx':
            t = g(op[2][0]) + g(op[2][1]) + g(op[2][2]); env[op[1][0]] = t % M; env[op[1][1]] = t // M
        elif k == 'subborrowx':
            t = g(op[2][1]) - g(op[2][2]) - g(op[2][0]); env[op[1][0]] = t % M; env[op[1][1]] = 1 if t < 0 else 0
        elif k == 'cmovznz': env[op[1][0]] = g(op[2][1]) if g(op[2][0]) == 0 else g(op[2][2])
        elif k == 'out': out[op[1]] = g(op[2])
    return out, env

class Z:
    def __init__(s, ordered=False): s.mono = {}; s.cons = []; s.obl = []; s.env = {}; s.n = 0; s.ordered = ordered
    def fresh(s, nm, lo, hi):
        s.n += 1; v = z3.Int(f'k_{nm}{s.n}'); s.cons += [v >= lo, v <= hi]; return v
    def g(s, a):
        if a[0] == 'c': return z3.IntVal(a[1])
        if a[0] == 'and':
            # mask of an all-zeros / all-ones word (output of cmovznz(_, 0, 0xffffffff)): the all-or-nothing shape is an obligation
            v = s.env[a[1]]
            s.obl.append(z3.Or(v == 0, v == M - 1))
            return z3.If(v == 0, z3.IntVal(0), z3.IntVal(a[2]))
        return s.env[a[1]]
    def run(s, ops):
        out = {}
        for op in ops:
            k = op[0]
            if k == 'mov': s.env[op[1]] = s.g(op[2])
            elif k == 'addn':
                t = sum(s.g(a) for a in op[2]); s.obl.append(t < M); s.env[op[1]] = t
            elif k == 'mulx':
                lo = s.fresh('lo', 0, M - 1); hi = s.fresh('hi', 0, M - 1)
                x, y = s.g(op[2][0]), s.g(op[2][1])
                if z3.is_int_value(x) or z3.is_int_value(y): prod = x * y
                else:
                    key = (str(x), str(y)) if s.ordered else tuple(sorted([str(x), str(y)]))
                    if key not in s.mono: s.mono[key] = s.fresh('m_' + key[0] + '_' + key[1] + '_', 0, (M - 1) * (M - 1))
                    prod = s.mono[key]
                s.cons.append(lo + M * hi == prod); s.env[op[1][0]] = lo; s.env[op[1][1]] = hi
            elif k == 'addcarryx':
                o = s.fresh('s', 0, M - 1); c = s.fresh('c', 0, 1)
                s.cons.append(o + M * c == s.g(op[2][0]) + s.g(op[2][1]) + s.g(op[2][2])); s.env[op[1][0]] = o; s.env[op[1][1]] = c
            elif k == 'subborrowx':
                o = s.fresh('d', 0, M - 1); b = s.fresh('b', 0, 1)
                s.cons.append(o - M * b == s.g(op[2][1]) - s.g(op[2][2]) - s.g(op[2][0])); s.env[op[1][0]] = o; s.env[op[1][1]] = b
            elif k == 'cmovznz': s.env[op[1][0]] = z3.If(s.g(op[2][0]) == 0, s.g(op[2][1]), s.g(op[2][2]))
            elif k == 'out': out[op[1]] = s.g(op[2])
        return out

def bv_run(ops, n, two):
    """the whole straight-line body over 32-bit bit-vector inputs (64-bit intermediate words): env of z3 terms per variable"""
    A = [z3.BitVec(f'bA_{i}', 32) for i in range(n)]; B = [z3.BitVec(f'bB_{i}', 32) for i in range(n)]
    env = {}
    for i in range(n): env[f'arg1_{i}'] = z3.ZeroExt(32, A[i]); env[f'arg2_{i}'] = z3.ZeroExt(32, B[i])
    def g(a):
        if a[0] == 'c': return z3.BitVecVal(a[1], 64)
        if a[0] == 'and': return env[a[1]] & z3.BitVecVal(a[2], 64)
        return env[a[1]]
    lo32 = lambda t: t & z3.BitVecVal(0xffffffff, 64)
    for op in ops:
        k = op[0]
        if k == 'mov': env[op[1]] = g(op[2])
        elif k == 'addn': env[op[1]] = lo32(sum((g(a) for a in op[2][1:]), g(op[2][0])))
        elif k == 'mulx':
            t = g(op[2][0]) * g(op[2][1]); env[op[1][0]] = lo32(t); env[op[1][1]] = z3.LShR(t, 32)
        elif k == 'addcarryx':
            t = g(op[2][0]) + g(op[2][1]) + g(op[2][2]); env[op[1][0]] = lo32(t); env[op[1][1]] = z3.LShR(t, 32)
        elif k == 'subborrowx':
            t = g(op[2][1]) - g(op[2][2]) - g(op[2][0]); env[op[1][0]] = lo32(t); env[op[1][1]] = z3.LShR(t, 63)
        elif k == 'cmovznz': env[op[1][0]] = z3.If(g(op[2][0]) == 0, g(op[2][1]), g(op[2][2]))
    return A, B, env

def rare_flag_witnesses(ops, n, P, two, tests, budget_s=90, per_query_ms=5000, to_mont=False):
    """inputs that drive each carry / borrow flag the concrete operands never exercised to the value not seen yet.  A flag that is
    almost always 0 (or 1) is where a dropped or mis-wired carry hides from sampling; each query is a bit-vector satisfiability
    problem over the prefix of the code that defines the flag.  Returns a list of operand pairs (to be evaluated on the source)."""
    seen = {}
    flags = [op[1][1] for op in ops if op[0] in ('addcarryx', 'subborrowx')]
    M32 = (1 << 32) - 1
    for a, b in tests[:400]:
        env = {f'arg1_{i}': (a >> (32 * i)) & M32 for i in range(n)}; env.update({f'arg2_{i}': (b >> (32 * i)) & M32 for i in range(n)})
        try: _, full = evalpy(ops, env)
        except (OverflowError, KeyError): continue
        for fl in flags:
            if fl in full: seen.setdefault(fl, set()).add(full[fl])
    todo = [(fl, 1 - next(iter(v))) for fl, v in seen.items() if len(v) == 1]
    if not todo: return []
    A, B, env = bv_run(ops, n, two)
    cat = lambda L: z3.Concat(*reversed(L))
    base = [] if to_mont else [z3.ULT(cat(A), z3.BitVecVal(P, 32 * n))] + ([z3.ULT(cat(B), z3.BitVecVal(P, 32 * n))] if two else [])
    out = []; t0 = time.time()
    for fl, want in todo:
        if time.time() - t0 > budget_s: break
        if fl not in env: continue
        sv = z3.Solver(); sv.set('timeout', per_query_ms); sv.add(base); sv.add(env[fl] == want)
        if sv.check() == z3.sat:
            m_ = sv.model(); gv = lambda L: sum(m_.eval(L[i], model_completion=True).as_long() << (32 * i) for i in range(n))
            out.append((gv(A), gv(B) if two else 0, fl, want))
    return out

def dropped_words(ops):
    used = set()
    for op in ops:
        if op[0] == 'mov':
            if op[2][0] in ('v', 'and'): used.add(op[2][1])
        elif op[0] == 'addn':
            for a in op[2]:
                if a[0] in ('v', 'and'): used.add(a[1])
        elif op[0] == 'out': used.add(op[2][1])
        else:
            for a in op[2]:
                if a[0] in ('v', 'and'): used.add(a[1])
    out = []
    for op in ops:
        if op[0] in ('mulx', 'addcarryx', 'subborrowx', 'cmovznz'):
            for i, o_ in enumerate(op[1]):
                if o_ not in used: out.append((op[0], o_, i))
    return out

def slice_bv(ops, var):
    """bit-vector (64-bit) value of the addcarryx output `var` over free 32-bit symbols.  The cut is by definition kind, so
    that every variable is expanded or kept symbolic consistently: the top addcarryx is expanded, mulx chains are expanded,
    every other definition reached below the top (addcarryx/subborrowx/cmovznz outputs, inputs) is one free symbol per name."""
    defs = {}
    for op in ops:
        if op[0] in ('mulx', 'addcarryx', 'subborrowx'):
            for i, o_ in enumerate(op[1]): defs[o_] = (op, i)
        elif op[0] == 'mov': defs[op[1]] = (op, 0)
    syms = {}
    def sym(v): return z3.ZeroExt(32, syms.setdefault(v, z3.BitVec('w_' + v, 32)))
    def val(a, top=False):
        if a[0] == 'c': return z3.BitVecVal(a[1], 64)
        v = a[1]
        if a[0] != 'v' or v not in defs: return sym(v)
        op, i = defs[v]
        if op[0] == 'mov': return val(op[2])
        if op[0] == 'mulx':
            t = val(op[2][0]) * val(op[2][1])
            return (t & 0xffffffff) if i == 0 else z3.LShR(t, 32)
        if op[0] == 'addcarryx' and top:
            t = val(op[2][0]) + val(op[2][1]) + val(op[2][2])
            return (t & 0xffffffff) if i == 0 else z3.LShR(t, 32)
        return sym(v)
    return val(('v', var), True)

def check_kernels(field, fns=None, timeout=None):
    f = field; n = NL[f]; P = PR[f]; R = 2 ** (32 * n); Rinv = pow(R, -1, P)
    src = open(os.path.join(common.REPO, f'src/fields/{f}/u32/fiat.rs')).read()
    obs = []
    tmo = (timeout or (180 if common.tier() == 'quick' else 1200)) * 1000
    todo = fns or ['add', 'sub', 'opp', 'mul', 'square', 'from_montgomery', 'to_montgomery']
    rnd = random.Random(common.seed() + 7)
    for fn in todo:
        name = f'{f}_{fn}'
        t00 = time.time()
        try: ops = parse_ops(parse_fn(src, name)[1])
        except ValueError as e:
            obs.append(Ob(f'K:{name} parse', 'inconclusive', str(e), 0, 'fiat2smt')); continue
        two = fn in ('add', 'sub', 'mul')
        # ---- translator validation on concrete inputs (python integers), boundary and random operands
        def spec_val(a, b):
            return {'add': (a + b) % P, 'sub': (a - b) % P, 'opp': (-a) % P, 'mul': a * b * Rinv % P, 'square': a * a * Rinv % P, 'from_montgomery': a * Rinv % P, 'to_montgomery': a * R % P}[fn]
        tests = [(rnd.randrange(P), rnd.randrange(P)) for _ in range(60)] + [(P - 1, P - 1), (0, 0), (1, P - 1), (P - 1, 1), (0, P - 1), ((P - 1) // 2, (P + 1) // 2), (2 ** 32 - 1, 2 ** 64 - 1)]
        if fn == 'to_montgomery': tests += [(R - 1, 0), (P, 0), (P + 1, 0), (2 ** (32 * n - 1), 0)]
        # structured operands: limbs drawn from boundary patterns, values next to p, Montgomery forms of small integers
        pat = [0, 1, 2, M - 1, M - 2, 2 ** 31, 2 ** 31 - 1]
        def structured():
            v = 0
            for i in range(n): v |= (rnd.choice(pat) if rnd.random() < 0.7 else rnd.randrange(M)) << (32 * i)
            return v if fn == 'to_montgomery' else v % P
        near = [P - 1 - k for k in range(4)] + [k * R % P for k in range(1, 5)] + [(P - k) * R % P for k in range(1, 4)] + [(P - 1) // 2, (P + 1) // 2]
        tests += [(x_, y_) for x_ in near for y_ in near[:6]]
        tests += [(structured(), structured()) for _ in range(300 if common.tier() == 'quick' else 3000)]
        bad = None
        for a, b in ([] if os.environ.get('DV_FIAT_NOCONCRETE') else tests):     # (the switch exists to exercise the solver path on seeded changes)
            env = {f'arg1_{i}': (a >> (32 * i)) & (M - 1) for i in range(n)}; env.update({f'arg2_{i}': (b >> (32 * i)) & (M - 1) for i in range(n)})
            try:
                out, _ = evalpy(ops, env); o = sum(out[i] << (32 * i) for i in range(n))
            except (OverflowError, KeyError) as e: bad = (a, b, str(e)); break
            if o != spec_val(a, b): bad = (a, b, f'got {o}'); break
        if bad:
            obs.append(Ob(f'K:{name} on concrete operands (translator validation doubles as a witness)', 'violated', f'operands {bad[0]}, {bad[1]}: {bad[2]}', 0, 'fiat2smt concrete evaluation', None, {'kind': 'kernel', 'field': f, 'fn': fn, 'a': bad[0], 'b': bad[1], 'build': 'min'}))
            continue
        obs.append(Ob(f'K:{name}: the parsed source, evaluated on {len(tests)} structured operand pairs, equals the specification (translator validation)', 'proved', '', 0, 'ground evaluation'))
        # ---- symbolic
        # square: one atom per ordered pair of operand positions (a_i*a_j and a_j*a_i kept apart): the over-approximation that
        # makes the query the same shape as mul's, which z3 decides much faster
        E = Z(ordered=(fn == 'square'))
        A = [z3.Int(f'inA_{i}') for i in range(n)]; B = [z3.Int(f'inB_{i}') for i in range(n)]
        for i in range(n):
            E.env[f'arg1_{i}'] = A[i]; E.env[f'arg2_{i}'] = B[i]
            E.cons += [A[i] >= 0, A[i] < M, B[i] >= 0, B[i] < M]
        outs = E.run(ops)
        ev = lambda L: sum(L[i] * 2 ** (32 * i) for i in range(n))
        a = ev(A); b = ev(B)
        o = ev([outs[i] for i in range(n)])
        pre = [a < P] + ([b < P] if two else [])
        if fn == 'to_montgomery': pre = []            # from_raw_bytes feeds unreduced strings: decided for every a < 2^(32 n)
        # vacuity guard: the constraint set (with lemmas added later) is satisfiable - witnessed by pinning one concrete operand pair
        def vacuity(extra):
            ca, cb = tests[0]
            env = {f'arg1_{i}': (ca >> (32 * i)) & (M - 1) for i in range(n)}; env.update({f'arg2_{i}': (cb >> (32 * i)) & (M - 1) for i in range(n)})
            _, full = evalpy(ops, env)
            val = {}
            for i in range(n): val[str(A[i])] = env[f'arg1_{i}']; val[str(B[i])] = env[f'arg2_{i}']
            sub = [(A[i], z3.IntVal(env[f'arg1_{i}'])) for i in range(n)] + [(B[i], z3.IntVal(env[f'arg2_{i}'])) for i in range(n)]
            for nm_, zv in E.env.items():
                if z3.is_const(zv) and zv.decl().kind() == z3.Z3_OP_UNINTERPRETED and nm_ in full and str(zv) not in val:
                    val[str(zv)] = full[nm_]; sub.append((zv, z3.IntVal(full[nm_])))
            for key, zv in E.mono.items():
                if key[0] not in val or key[1] not in val: return z3.unknown
                sub.append((zv, z3.IntVal(val[key[0]] * val[key[1]])))
            if not z3.is_true(z3.simplify(z3.substitute(z3.And(list(E.cons) + list(extra)), *sub))): return z3.unknown
            return z3.sat
        solvers = {}
        def solve(extra, goal_neg):
            # first attempt: the incremental solver (base constraints asserted once, the query under push/pop: 10-20x faster than fresh
            # solvers and steady for most queries).  z3's LIA run time on these sets is chaotic (the same query: 5 s or 10 minutes), so an
            # `unknown` after the first cap goes to a portfolio: three fresh solvers with different seeds in parallel threads (own z3
            # contexts), first definite answer wins, the others are interrupted.
            t0 = time.time()
            quick = common.tier() == 'quick'
            if 0 not in solvers:
                s_ = z3.Solver(); s_.set('random_seed', 0); s_.add(E.cons); s_.add(pre); solvers[0] = s_
            s_ = solvers[0]; s_.set('timeout', 25000 if quick else 120000)
            s_.push(); s_.add(extra); s_.add(goal_neg)
            t1 = time.time(); r = s_.check()
            if os.environ.get('DV_FIAT_DEBUG') or (os.environ.get('DV_TIMING') and time.time() - t1 > 40): print(f'  [q] {name} first attempt: {r} {time.time() - t1:.1f}s  goal={str(goal_neg)[:60]!r}', file=sys.stderr, flush=True)
            if r == z3.sat:
                m_ = s_.model()
                gv = lambda L: sum((m_.eval(L[i], model_completion=True).as_long()) << (32 * i) for i in range(n))
                last_model[:] = [gv(A), gv(B)]
            s_.pop()
            if r != z3.unknown: return r, time.time() - t0
            import threading
            asserts = list(E.cons) + list(pre) + list(extra) + [goal_neg]
            res = {}; ctxs = {}; lock = threading.Lock()
            cap = 300000 if quick else 1200000
            def worker(k, sd):
                try:
                    ctx = z3.Context(); ctxs[k] = ctx
                    sv = z3.Solver(ctx=ctx); sv.set('timeout', cap); sv.set('random_seed', sd)
                    for a_ in asserts: sv.add(a_.translate(ctx))
                    rr = sv.check()
                    val = None
                    if rr == z3.sat:
                        mm = sv.model()
                        gv2 = lambda L: sum((mm.eval(L[i].translate(ctx), model_completion=True).as_long()) << (32 * i) for i in range(n))
                        val = [gv2(A), gv2(B)]
                    with lock: res[k] = (str(rr), val)
                except Exception as e_:
                    with lock: res[k] = ('unknown', None)
            ths = [threading.Thread(target=worker, args=(k, sd), daemon=True) for k, sd in enumerate((7, 13, 21))]
            for t_ in ths: t_.start()
            final = 'unknown'; val = None
            while any(t_.is_alive() for t_ in ths) or len(res) < len(ths):
                with lock: done = dict(res)
                hit = next(((k, v) for k, v in done.items() if v[0] in ('unsat', 'sat')), None)
                if hit: final, val = hit[1]; break
                if len(done) == len(ths): break
                time.sleep(0.5)
            else:
                hit = next(((k, v) for k, v in res.items() if v[0] in ('unsat', 'sat')), None)
                if hit: final, val = hit[1]
            for c_ in list(ctxs.values()):
                try: c_.interrupt()
                except Exception: pass
            for t_ in ths: t_.join(timeout=20)
            if os.environ.get('DV_FIAT_DEBUG') or os.environ.get('DV_TIMING'): print(f'  [q] {name} portfolio: {final} after {time.time() - t0:.1f}s  goal={str(goal_neg)[:60]!r}', file=sys.stderr, flush=True)
            if final == 'sat' and val: last_model[:] = val
            return {'unsat': z3.unsat, 'sat': z3.sat}.get(final, z3.unknown), time.time() - t0
        last_model = []
        def witness():
            """operands of the last sat model, kept only if the concrete evaluation of the source disagrees with the specification"""
            if not last_model: return {}
            a_, b_ = last_model
            env = {f'arg1_{i}': (a_ >> (32 * i)) & (M - 1) for i in range(n)}; env.update({f'arg2_{i}': (b_ >> (32 * i)) & (M - 1) for i in range(n)})
            try:
                out, _ = evalpy(ops, env); o_ = sum(out[i] << (32 * i) for i in range(n))
                if o_ == spec_val(a_, b_) and o_ < P: return {}
            except (OverflowError, KeyError): pass
            return {'a': a_, 'b': b_}
        def ob(label, r, dt, extra=None):
            nm = f'K:{name}: {label}'
            if r == z3.unsat: obs.append(Ob(nm, 'proved', '', dt, 'z3 LIA (integer-exact translation)', extra))
            elif r == z3.sat:
                w_ = witness()
                obs.append(Ob(nm, 'violated', ('counterexample operands (Montgomery domain) ' + str(w_) if w_ else 'the linear-integer encoding admits a counterexample (candidate; over-approximated products)'), dt, 'z3 LIA', extra, dict({'kind': 'kernel', 'field': f, 'fn': fn, 'build': 'min'}, **w_)))
            else: obs.append(Ob(nm, 'inconclusive', 'z3 timeout/unknown', dt, 'z3 LIA', extra))
        lem = []
        if fn in ('mul', 'square', 'from_montgomery', 'to_montgomery'):
            # ordered-ring lemmas about the product atoms, and dropped-word lemmas (bit-vector slices)
            mm = {}
            BB = B if fn == 'mul' else A
            def prod_atom(i, j):
                k = (str(A[i]), str(BB[j])) if fn == 'square' else tuple(sorted([str(A[i]), str(BB[j])])); return E.mono.get(k)
            if fn in ('mul', 'square'):
                atoms = [[prod_atom(i, j) for j in range(n)] for i in range(n)]
                if any(x is None for row in atoms for x in row):
                    obs.append(Ob(f'K:{name}: product atoms', 'inconclusive', 'not all limb products a_i*b_j occur in the code', 0, 'fiat2smt')); continue
                T = sum(atoms[i][j] * 2 ** (32 * (i + j)) for i in range(n) for j in range(n))
                lem += [T <= (P - 1) * (P - 1)] + [sum(atoms[i][j] * 2 ** (32 * i) for i in range(n)) <= (P - 1) * (M - 1) for j in range(n)]
            elif fn == 'from_montgomery': T = a
            else:
                # to_montgomery multiplies by the literal R^2 mod p limbs: collect them from the code (constants multiplied with arg words)
                T = None
            dw = dropped_words(ops)
            zero = []
            for kind, d, idx in dw:
                if kind == 'addcarryx' and idx == 0:
                    sv = z3.Solver(); sv.set('timeout', 60000)
                    sv.add((slice_bv(ops, d) & 0xffffffff) != 0)
                    t0 = time.time(); r = sv.check(); dt = time.time() - t0
                    if r == z3.unsat: zero.append(E.env[d] == 0)
                    nm = f'K:{name}: dropped low word {d} is zero (Montgomery step, 32-bit slice)'
                    if r != z3.unsat: obs.append(Ob(nm, 'inconclusive', 'the dropped word is not identically zero on its backward slice (over-approximation)', dt, 'z3 QF_BV (backward slice)', None, {'kind': 'kernel', 'field': f, 'fn': fn, 'build': 'min'}))
            obs.append(Ob(f'K:{name}: {len(zero)} dropped low words are zero (Montgomery steps, 32-bit backward slices)', 'proved' if len(zero) >= n else 'inconclusive', f'{len(zero)} of {len([1 for k_, d_, i_ in dw if k_ == "addcarryx" and i_ == 0])}', 0, 'z3 QF_BV'))
            lem += zero
        rv = vacuity(lem)
        obs.append(Ob(f'K:{name}: vacuity guard (constraints and lemmas satisfiable on a concrete operand pair)', 'proved' if rv == z3.sat else 'inconclusive', str(rv), 0, 'z3 LIA (sat witness)'))
        # no overflow of unchecked additions
        if E.obl:
            # one query per addition (a disjunction of all of them sometimes sends z3 down a very long path)
            dt = 0; r = z3.unsat
            for x in E.obl:
                r, dt1 = solve(lem, z3.Not(x)); dt += dt1
                if r != z3.unsat: break
            ob(f'{len(E.obl)} unchecked u32 additions never overflow', r, dt)
        range_done = False
        def do_range(extra_lem=(), cvv=None):
            if cvv is None:
                r, dt = solve(lem + list(extra_lem), z3.Not(z3.And(o < P, o >= 0))); ob('result < p', r, dt); return
            # case split on the final conditional move
            tot = 0; worst = z3.unsat
            for case in (0, 1):
                r, dt = solve(lem + list(extra_lem) + [cvv == case], z3.Not(z3.And(o < P, o >= 0))); tot += dt
                if r != z3.unsat: worst = r
                if os.environ.get('DV_FIAT_DEBUG'): print('range case', case, r, round(dt, 1))
            ob('result < p', worst, tot)
        if fn in ('add', 'sub', 'opp'): do_range()
        # algebra
        if fn == 'add': r, dt = solve(lem, z3.And(o != a + b, o != a + b - P)); ob('result = a + b - e p, e in {0,1}', r, dt)
        elif fn == 'sub': r, dt = solve(lem, z3.And(o != a - b, o != a - b + P)); ob('result = a - b + e p, e in {0,1}', r, dt)
        elif fn == 'opp': r, dt = solve(lem, z3.And(o != -a, o != P - a)); ob('result = e p - a, e in {0,1}', r, dt)
        else:
            plimbs = {(P >> (32 * i)) & (M - 1) for i in range(n)} - {0, 1}
            qs = []; seen = set()
            for op in ops:
                if op[0] == 'mulx':
                    ins = op[2]
                    for u, v in (ins, ins[::-1]):
                        if v[0] == 'c' and v[1] in plimbs and u[0] == 'v' and u[1] not in seen: seen.add(u[1]); qs.append(u[1])
            K = sum(E.env[q] * 2 ** (32 * i) for i, q in enumerate(qs))
            if fn == 'to_montgomery':
                # constant multiplier limbs: literals multiplied with argument words that are not modulus limbs / m'
                consts = {}
                alias = {op[1]: op[2][1] for op in ops if op[0] == 'mov' and op[2][0] == 'v'}
                for op in ops:
                    if op[0] == 'mulx':
                        ins = op[2]
                        for u, v in (ins, ins[::-1]):
                            if v[0] == 'c' and u[0] == 'v' and alias.get(u[1], u[1]) == 'arg1_0': consts.setdefault(len(consts), v[1])
                # order of appearance for arg1_0 is descending limb index in fiat output; recover by value test
                import itertools
                cl = list(consts.values())
                R2 = None
                for perm in (cl, cl[::-1]):
                    v = sum(c << (32 * i) for i, c in enumerate(perm))
                    if v == R * R % P: R2 = v
                if R2 is None:
                    obs.append(Ob(f'K:{name}: multiplier constant is R^2 mod p', 'violated', f'constants {[hex(c) for c in cl]}', 0, 'ground', None, {'kind': 'kernel', 'field': f, 'fn': fn, 'build': 'min'})); continue
                obs.append(Ob(f'K:{name}: multiplier constant is R^2 mod p', 'proved', hex(R2)[:40], 0, 'ground arithmetic'))
                T = a * R2
            if len(qs) != n:
                obs.append(Ob(f'K:{name}: quotient digits', 'inconclusive', f'{len(qs)} quotient digits found, expected {n}', 0, 'fiat2smt')); continue
            conds = [op[2][0] for op in ops if op[0] == 'cmovznz']
            cv = E.g(conds[0])
            tot = 0; worst = z3.unsat
            for case in (0, 1):
                for sense in ('lt', 'gt'):
                    rhs = T + K * P - (1 - case) * P * R
                    r, dt = solve(lem + [cv == case], (o * R < rhs) if sense == 'lt' else (o * R > rhs)); tot += dt
                    if r != z3.unsat: worst = r; break
                if worst != z3.unsat: break
            ob('result * R = a * b + K p - e p R  (K = quotient digits from the code; four strict inequalities)' if fn in ('mul', 'square') else ('result * R = a + K p - e p R' if fn == 'from_montgomery' else 'result * R = a * R^2 + K p - e p R (every a < 2^(32 n), not only a < p)'), worst, tot, {'quotient_digits': qs[:3] + ['...']})
            # range after the algebra: the proved equation is added as a lemma (it carries the Montgomery bound result < 2p)
            do_range([z3.Implies(cv == case, o * R == T + K * P - (1 - case) * P * R) for case in (0, 1)] if worst == z3.unsat else [], cv)
        if any(o_.status != 'proved' and o_.name.startswith(f'K:{name}:') for o_ in obs) and not any(o_.status == 'violated' and 'a' in (o_.model or {}) and o_.name.startswith(f'K:{name}') for o_ in obs):
            # not decided: look for a witness where sampling is blind - carries and borrows the concrete operands never flipped
            t1 = time.time(); cands = rare_flag_witnesses(ops, n, P, two, tests, to_mont=(fn == 'to_montgomery'))
            hit = None
            for a_, b_, fl, want in cands:
                env = {f'arg1_{i}': (a_ >> (32 * i)) & (M - 1) for i in range(n)}; env.update({f'arg2_{i}': (b_ >> (32 * i)) & (M - 1) for i in range(n)})
                try:
                    out_, _ = evalpy(ops, env); o_ = sum(out_[i] << (32 * i) for i in range(n))
                    if o_ != spec_val(a_, b_): hit = (a_, b_, fl, want, f'got {o_}'); break
                except (OverflowError, KeyError) as e: hit = (a_, b_, fl, want, str(e)); break
            if hit:
                obs.append(Ob(f'K:{name}: operands that drive the rarely set flag {hit[2]} to {hit[3]} (bit-vector query on the code prefix)', 'violated', f'operands {hit[0]}, {hit[1]}: {hit[4]}', time.time() - t1,
                              'z3 QF_BV (flag reachability) + concrete evaluation of the source', None, {'kind': 'kernel', 'field': f, 'fn': fn, 'a': hit[0], 'b': hit[1], 'build': 'min'}))
            elif os.environ.get('DV_FIAT_DEBUG'): print(f'  rare-flag search: {len(cands)} witnesses, none disagrees', file=sys.stderr)
    return obs

def check_primitives(field):
    """the four fiat primitives, on the MIR with bit-vector operands, against their integer meaning"""
    from .curve import items_for
    from . import mirsym, models
    from .mirsym import Ref, run_paths, find_item, Frame, Item
    items = items_for('min'); obs = []; f = field
    M_ = models.base_models()
    c = z3.BitVec('c', 8); x = z3.BitVec('x', 32); y = z3.BitVec('y', 32)
    pre = z3.ULE(c, 1)
    def run(nm, args_spec, check):
        it = find_item(items, rf'^fields::{f}::u32::fiat::{f}_{nm}_u32$')
        def body(I, h):
            args = []
            for k, (kind, val) in enumerate(args_spec):
                if kind == 'out': h.locals[f'o{k}'] = 0; args.append(Ref(h, f'o{k}', []))
                else: args.append(val)
            I.call_item(it, args)
            return [h.locals[f'o{k}'] for k, (kind, _) in enumerate(args_spec) if kind == 'out']
        name = f'K:{f}_{nm}_u32 equals its integer meaning (all operands)'
        try: recs = run_paths(items, M_, body)
        except Exception as e:
            obs.append(Ob(name, 'inconclusive', f'{type(e).__name__}: {e}', 0, 'mirsym/BV')); return
        for r in recs:
            if 'result' not in r:
                # a panic path (overflow check of the i64/u64 intermediate): must be infeasible
                sv = z3.Solver(); sv.set('timeout', 60000)
                for c_ in r['path']: sv.add(c_)
                sv.add(pre)
                t0 = time.time(); rr = sv.check(); dt = time.time() - t0
                obs.append(Ob(f'K:{f}_{nm}_u32 intermediate arithmetic cannot overflow', 'proved' if rr == z3.unsat else ('violated' if rr == z3.sat else 'inconclusive'), '' if rr == z3.unsat else str(r.get('panic') or r.get('pruned')), dt, 'mirsym + z3 QF_BV', None, None if rr == z3.unsat else {'kind': 'kernel', 'field': f, 'fn': nm, 'build': 'min'}))
                continue
            claim = check(r['result'])
            sv = z3.Solver(); sv.set('timeout', 60000)
            for pc_ in r['path']: sv.add(pc_)
            sv.add(z3.Not(claim))
            t0 = time.time(); rr = sv.check(); dt = time.time() - t0
            mdl = None; det = ''
            if rr == z3.sat:
                m_ = sv.model(); gv = lambda v: m_.eval(v, model_completion=True).as_long()
                mdl = {'kind': 'kernel', 'field': f, 'fn': nm, 'build': 'min', 'prim': nm, 'c': gv(c), 'x': gv(x), 'y': gv(y)}
                det = f'counterexample carry/flag={mdl["c"]} x={mdl["x"]:#x} y={mdl["y"]:#x}'
            elif rr != z3.unsat: mdl = {'kind': 'kernel', 'field': f, 'fn': nm, 'build': 'min'}
            obs.append(Ob(name, 'proved' if rr == z3.unsat else ('violated' if rr == z3.sat else 'inconclusive'), det, dt, 'mirsym + z3 QF_BV', None, mdl))
    z64 = lambda v: z3.ZeroExt(64 - v.size(), v) if z3.is_bv(v) else z3.BitVecVal(v, 64)
    run('addcarryx', [('out', None), ('out', None), ('in', c), ('in', x), ('in', y)], lambda o: z3.Implies(pre, z3.And(z64(o[0]) + (z64(o[1]) << 32) == z64(c) + z64(x) + z64(y), z3.ULE(z64(o[1]), 1))))
    run('subborrowx', [('out', None), ('out', None), ('in', c), ('in', x), ('in', y)], lambda o: z3.Implies(pre, z3.And(z64(o[0]) - (z64(o[1]) << 32) == z64(x) - z64(y) - z64(c), z3.ULE(z64(o[1]), 1))))
    run('mulx', [('out', None), ('out', None), ('in', x), ('in', y)], lambda o: z64(o[0]) + (z64(o[1]) << 32) == z64(x) * z64(y))
    run('cmovznz', [('out', None), ('in', c), ('in', x), ('in', y)], lambda o: z3.Implies(pre, z64(o[0]) == z3.If(c == 0, z64(x), z64(y))))
    return obs

def check_byte_kernels(field):
    """nonzero / selectznz / to_bytes / from_bytes / set_one / msat of the 32-bit backend: interpreted on the MIR with
    bit-vector limbs and bytes, against their integer meaning (all limb and byte values)"""
    from .curve import items_for
    from . import models
    from .mirsym import Ref, run_paths, find_item, Unsupported
    items = items_for('min'); obs = []; f = field; n = NL[f]; nb = 4 * n; P = PR[f]
    M_ = models.base_models()
    def bvv(v, w): return z3.BitVecVal(v, w) if isinstance(v, int) else v
    def cat(xs, w): return z3.Concat(*[bvv(x, w) for x in reversed(xs)]) if len(xs) > 1 else bvv(xs[0], w)
    def unwrap(v):
        while hasattr(v, 'fields') and len(v.fields) == 1: v = v.fields[0]
        return v
    def run(nm, mk, check, label, pre=None):
        name = f'K:{f}_{nm} {label}'
        try:
            it = find_item(items, rf'^fields::{f}::u32::fiat::{f}_{nm}$')
            recs = run_paths(items, M_, lambda I, h: mk(I, h, it))
        except Exception as e:
            obs.append(Ob(name, 'inconclusive', f'{type(e).__name__}: {e}', 0, 'mirsym/BV')); return
        for r in recs:
            sv = z3.Solver(); sv.set('timeout', 60000)
            for c_ in r['path']: sv.add(c_)
            if pre is not None: sv.add(pre)
            if 'result' not in r:
                t0 = time.time(); rr = sv.check(); dt = time.time() - t0
                obs.append(Ob(f'K:{f}_{nm} has no feasible panic path', 'proved' if rr == z3.unsat else ('violated' if rr == z3.sat else 'inconclusive'), '' if rr == z3.unsat else str(r.get('panic') or r.get('pruned')), dt, 'mirsym + z3 QF_BV', None, None if rr == z3.unsat else {'kind': 'kernel', 'field': f, 'fn': nm, 'build': 'min'}))
                continue
            try: claim = check(r['result'])
            except Exception as e:
                obs.append(Ob(name, 'inconclusive', f'{type(e).__name__}: {e}', 0, 'mirsym/BV')); continue
            if claim is False or claim is True: claim = z3.BoolVal(claim)
            sv.add(z3.Not(claim)); t0 = time.time(); rr = sv.check(); dt = time.time() - t0
            detail = ''; mdl = None if rr == z3.unsat else {'kind': 'kernel', 'field': f, 'fn': nm, 'build': 'min'}
            if rr == z3.sat:
                # prefer a counterexample that is a valid (reduced) limb pattern, so that it can be replayed through the public API
                sv.push(); sv.add(z3.ULT(cat(L, 32), z3.BitVecVal(P, 32 * n)))
                if sv.check() != z3.sat: sv.pop(); sv.check()
                m_ = sv.model(); gv = lambda v: m_.eval(v, model_completion=True).as_long()
                mdl['limbs'] = sum(gv(L[i]) << (32 * i) for i in range(n)); mdl['limbs2'] = sum(gv(L2[i]) << (32 * i) for i in range(n))
                mdl['bytes'] = sum(gv(By[i]) << (8 * i) for i in range(nb)); mdl['flag'] = gv(c)
                detail = f'counterexample limbs={mdl["limbs"]:#x}' + (f' bytes={mdl["bytes"]:#x}' if nm == 'from_bytes' else '')
            obs.append(Ob(name, 'proved' if rr == z3.unsat else ('violated' if rr == z3.sat else 'inconclusive'), detail, dt, 'mirsym + z3 QF_BV', None, mdl))
    L = [z3.BitVec(f'l{i}', 32) for i in range(n)]; L2 = [z3.BitVec(f'k{i}', 32) for i in range(n)]
    By = [z3.BitVec(f'y{i}', 8) for i in range(nb)]; c = z3.BitVec('c', 8)
    def mk_nonzero(I, h, it):
        h.locals['o'] = 0; h.locals['a'] = list(L); I.call_item(it, [Ref(h, 'o', []), Ref(h, 'a', [])]); return h.locals['o']
    run('nonzero', mk_nonzero, lambda o: (bvv(o, 32) == 0) == z3.And([x == 0 for x in L]), 'is zero exactly when every limb is zero')
    def mk_select(I, h, it):
        h.locals['o'] = [0] * n; h.locals['a'] = list(L); h.locals['b'] = list(L2)
        I.call_item(it, [Ref(h, 'o', []), c, Ref(h, 'a', []), Ref(h, 'b', [])]); return h.locals['o']
    run('selectznz', mk_select, lambda o: z3.Implies(z3.ULE(c, 1), z3.And([bvv(o[i], 32) == z3.If(c == 0, L[i], L2[i]) for i in range(n)])) if len(o) == n else False, 'returns exactly the limbs of one operand (second when the flag is set)', z3.ULE(c, 1))
    def mk_to_bytes(I, h, it):
        h.locals['o'] = [0] * nb; h.locals['a'] = list(L); I.call_item(it, [Ref(h, 'o', []), Ref(h, 'a', [])]); return h.locals['o']
    # precondition of to_bytes: the value is below p (the top bits are then clear; fiat truncates the top limb to its used bytes)
    run('to_bytes', mk_to_bytes, lambda o: z3.Implies(z3.ULT(cat(L, 32), z3.BitVecVal(P, 32 * n)), cat(list(o), 8) == cat(L, 32)) if len(o) == nb else False, 'emits the little-endian bytes of the integer (every value below p)')
    def mk_from_bytes(I, h, it):
        h.locals['o'] = [0] * n; h.locals['a'] = list(By); I.call_item(it, [Ref(h, 'o', []), Ref(h, 'a', [])]); return h.locals['o']
    run('from_bytes', mk_from_bytes, lambda o: cat(list(o), 32) == cat(By, 8) if len(o) == n else False, 'packs the little-endian bytes into 32-bit digits (every byte string, reduced or not)')
    R = 2 ** (32 * n)
    def mk_set_one(I, h, it):
        from .mirsym import Agg
        h.locals['o'] = Agg(f'fields::{f}::u32::fiat::{f.capitalize()}MontgomeryDomainFieldElement', [[0] * n]); I.call_item(it, [Ref(h, 'o', [])]); return h.locals['o']
    def lim_val(o):
        o = unwrap(o)
        if not all(isinstance(x, int) for x in o): raise ValueError('non-constant limbs')
        return sum(x << (32 * i) for i, x in enumerate(o))
    run('set_one', mk_set_one, lambda o: lim_val(o) == R % P, 'writes R mod p (Montgomery form of 1)')
    def mk_msat(I, h, it):
        h.locals['o'] = [0] * (n + 1); I.call_item(it, [Ref(h, 'o', [])]); return h.locals['o']
    run('msat', mk_msat, lambda o: lim_val(o) == P, 'writes the modulus (saturated limbs)')
    return obs
