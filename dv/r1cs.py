"""R layer: the R1CS gadgets of ark_curve/r1cs (C13 honest synthesis, C14 adversarial hints), executed on the MIR.

An FqVar is a POLY value; Booleans are concrete per path (conditions fork); every `enforce_*` appends a fact to the constraint
store of the run.  Witness allocation:
  honest       the variable's value is the value its closure computes (native code run symbolically, contract S for the square root);
  adversarial  the variable is a free symbol (a free Boolean forks), only the enforced facts restrict it.
arkworks gadget methods (ark-r1cs-std) are modelled by their documented contracts (trusted)."""
import re, time
import z3
from . import mirsym, models, poly, common, spec
from .mirsym import Agg, Enum, Ref, SliceRef, Panic, Unsupported, PathEnd, run_paths, find_item, BoxPtr
from .poly import FE, FIELDS
from .common import Ob
from .models import D, ok, err, some, none, UNIT, fe_eq, fe_is_zero, fe_is_negative

FQV = r'ark_r1cs_std::fields::fp::FpVar<fields::fq::u64::wrapper::Fq>'
BOOL = r'ark_r1cs_std::prelude::Boolean<fields::fq::u64::wrapper::Fq>'
AFFV = r'ark_r1cs_std::groups::curves::twisted_edwards::AffineVar<ark_curve::edwards::Decaf377EdwardsConfig, ' + FQV + '>'

class FqVar:
    __slots__ = ('fe', 'const')
    def __init__(s, fe, const=False): s.fe, s.const = fe, const
    def __deepcopy__(s, memo): return s
    def __repr__(s): return f'FqVar({s.fe})'
class BoolVar:
    __slots__ = ('b', 'const')
    def __init__(s, b, const=False): s.b = bool(b); s.const = const
    def __deepcopy__(s, memo): return s
    def __repr__(s): return f'BoolVar({s.b}{", const" if s.const else ""})'
    def mir_not(s): return BoolVar(not s.b, s.const)
class CSRef:
    def __deepcopy__(s, memo): return s

class Store:
    """constraint store + witness log of one run"""
    def __init__(s, mode): s.mode = mode; s.facts = []; s.nw = 0; s.log = []; s.trace = []
    def eq(s, a, b, why): s.facts.append(('eq', a, b, why))
    def false(s, why): s.facts.append(('false', None, None, why))

def FV(I, x):
    x = D(I, x)
    if isinstance(x, (Ref, SliceRef)): x = I.deref(x)
    if isinstance(x, FqVar): return x
    if isinstance(x, FE): return FqVar(x, True)
    raise Unsupported(f'expected FqVar, got {x!r}')
def BVv(I, x):
    x = D(I, x)
    if isinstance(x, (Ref, SliceRef)): x = I.deref(x)
    if isinstance(x, BoolVar): return x
    if isinstance(x, bool): return BoolVar(x, True)
    raise Unsupported(f'expected Boolean, got {x!r}')

def harness_closure(val):
    """model of calling the harness value closure (and only it: a crate closure wrapping it is executed from its MIR body)"""
    def m(I, fr, fn, a):
        f = a[0]
        while isinstance(f, Ref): f = I.deref(f)
        if not (isinstance(f, Agg) and f.name == '{closure@harness}'): return NotImplemented
        return ok(val)
    return m

def _tmpref(v):
    f = mirsym.Frame(mirsym.Item('fn', '<tmp>', '')); f.locals['t'] = v; return Ref(f, 't', [])

def r1cs_models(store):
    def st(I): return store
    def shp(I): return store.mode in ('shape', 'setup')       # C15 runs: values are opaque, only kinds and call order matter
    def fresh(I, tag='v'):
        store.nw += 1; return FE.sym('Fq', f'{tag}{store.nw}')
    F = FQV
    def arith(op):
        def f(I, fr, fn, a):
            x, y = FV(I, a[0]), FV(I, a[1])
            if shp(I) and not (x.const and y.const): r = FqVar(fresh(I), False)
            else: r = FqVar(getattr(x.fe, op)(y.fe), x.const and y.const)
            if fn.endswith('_assign'): I.store(a[0], r); return UNIT
            return r
        return f
    def m_square(I, fr, fn, a): x = FV(I, a[0]); return ok(FqVar(fresh(I), False) if shp(I) and not x.const else FqVar(x.fe.square(), x.const))
    def m_negate(I, fr, fn, a): x = FV(I, a[0]); return ok(FqVar(fresh(I), False) if shp(I) and not x.const else FqVar(x.fe.neg(), x.const))
    def m_double(I, fr, fn, a): x = FV(I, a[0]); return ok(FqVar(fresh(I), False) if shp(I) and not x.const else FqVar(x.fe.add(x.fe), x.const))
    def m_const(I, fr, fn, a):
        v = a[-1]
        return ok(FqVar(v, True)) if 'new_constant' in fn else FqVar(v, True)
    def m_zero(I, fr, fn, a): return FqVar(FE.const('Fq', 0), True)
    def m_one(I, fr, fn, a): return FqVar(FE.const('Fq', 1), True)
    def closure_value(I, fr, f):
        f0 = I.deref(f) if isinstance(f, Ref) else f
        if isinstance(f0, Agg) and f0.name == '{closure@harness}': r = I.call(fr, '<impl FnOnce() -> R as core::ops::FnOnce<()>>::call_once', [f0, Agg('tuple', [])])
        else: r = I.call_closure(fr, f, [])
        if isinstance(r, Enum) and r.variant == 'Ok': r = r.fields[0]
        elif isinstance(r, Enum) and r.variant == 'Err': raise PathEnd('witness closure failed: ' + repr(r))
        if isinstance(r, Ref): r = I.deref(r)
        return r
    def m_new_witness_fq(I, fr, fn, a):
        s = st(I)
        if s.mode == 'setup' and not ('::new_variable::' in fn and isinstance(a[-1], Enum) and a[-1].variant.endswith('Constant')):
            # Setup synthesis: arkworks does not evaluate the value closure; the variable exists, its value does not
            s.nw += 1; return ok(FqVar(FE.sym('Fq', f'su{s.nw}')))
        is_nv = '::new_variable::' in fn
        clo = a[-2] if is_nv else a[-1]
        if is_nv and isinstance(a[-1], Enum) and a[-1].variant.endswith('Constant'):
            return ok(FqVar(closure_value(I, fr, clo), True))
        v = closure_value(I, fr, clo) if 'new_witness' in fn or 'new_variable' in fn or 'new_input' in fn else a[-1]
        s.nw += 1
        if s.mode == 'shape':
            s.log.append(('fq', None, v)); return ok(FqVar(fresh(I, 'w'), False))
        if s.mode == 'adversarial' and 'new_input' not in fn:
            w = FqVar(FE.sym('Fq', f'w{s.nw}')); s.log.append(('fq', w, v)); return ok(w)
        s.log.append(('fq', None, v))
        return ok(FqVar(v))
    def m_new_witness_bool(I, fr, fn, a):
        s = st(I)
        if s.mode == 'setup': s.nw += 1; return ok(BoolVar(False))
        v = closure_value(I, fr, a[-1])
        s.nw += 1
        if s.mode == 'shape': return ok(BoolVar(False))
        if s.mode == 'adversarial':
            b = I.ctx.decide(z3.Bool(f'wb{s.nw}'), key=f'wb{s.nw}')
            s.log.append(('bool', b, v)); return ok(BoolVar(b))
        return ok(BoolVar(v))
    def m_inverse(I, fr, fn, a):
        x = FV(I, a[0])
        if shp(I) and not x.const: return ok(FqVar(fresh(I), False))
        if fe_is_zero(I, x.fe):
            st(I).false('inverse of zero: x * inv = 1 is unsatisfiable'); return ok(FqVar(FE.const('Fq', 0)))
        r = models.m_fe_inverse(I, fr, fn, [x.fe])
        return ok(FqVar(r.fields[0], x.const))
    def m_is_eq(I, fr, fn, a):
        x, y = FV(I, a[0]), FV(I, a[1])
        if shp(I) and not (x.const and y.const): return ok(BoolVar(False))
        return ok(BoolVar(fe_eq(I, x.fe, y.fe), x.const and y.const))
    def m_bool_is_eq(I, fr, fn, a):
        x, y = BVv(I, a[0]), BVv(I, a[1]); return ok(BoolVar(x.b == y.b, x.const and y.const))
    def unconst(v):
        # the result of a selection on a variable condition is a variable, whatever the branches are
        if isinstance(v, FqVar): return FqVar(v.fe, False)
        if isinstance(v, BoolVar): return BoolVar(v.b, False)
        if isinstance(v, Agg): return Agg(v.name, [unconst(f) for f in v.fields])
        return v
    def m_cond_select(I, fr, fn, a):
        c = BVv(I, a[0]); r = D(I, a[1]) if c.b else D(I, a[2])
        if isinstance(r, (Ref, SliceRef)): r = I.deref(r)
        return ok(r if c.const else unconst(r))
    def m_enforce_eq_fq(I, fr, fn, a):
        x, y = FV(I, a[0]), FV(I, a[1]); c = BVv(I, a[2]) if len(a) > 2 else BoolVar(True)
        if shp(I): return ok(UNIT)
        if c.b: st(I).eq(x.fe, y.fe, fn.split('::')[-1] + ' in ' + fr.item.name.split('::')[-1])
        return ok(UNIT)
    def m_enforce_eq_bool(I, fr, fn, a):
        x, y = BVv(I, a[0]), BVv(I, a[1]); c = BVv(I, a[2]) if len(a) > 2 else BoolVar(True)
        if c.b and x.b != y.b: st(I).false('Boolean enforce_equal(' + str(x.b) + ', ' + str(y.b) + ') in ' + fr.item.name.split('::')[-1])
        return ok(UNIT)
    def m_bool_not(I, fr, fn, a): x = BVv(I, a[0]); return BoolVar(not x.b, x.const)
    def m_bool_and(I, fr, fn, a):
        x, y = BVv(I, a[0]), BVv(I, a[1])
        # arkworks: a constant operand is absorbed (false) or dropped (true) without a constraint
        const = (x.const and y.const) or (x.const and not x.b) or (y.const and not y.b)
        return ok(BoolVar(x.b and y.b, const))
    def m_bool_or(I, fr, fn, a):
        x, y = BVv(I, a[0]), BVv(I, a[1])
        const = (x.const and y.const) or (x.const and x.b) or (y.const and y.b)
        return ok(BoolVar(x.b or y.b, const))
    def m_bool_const(I, fr, fn, a): return BoolVar(a[0], True)
    def m_to_bits(I, fr, fn, a):
        x = FV(I, a[0])
        if shp(I) and not x.const: return ok(Agg('alloc::vec::Vec', [[BoolVar(False)] + [models.Opaque('bit')] * 252]))
        unique = 'non_unique' not in fn
        if not unique and st(I).mode == 'adversarial':
            # only  sum bits * 2^i = value (mod p)  is enforced: the parity bit is the prover's choice whenever value + p < 2^253
            b0 = I.ctx.decide(z3.Bool(f'bit0_{len(st(I).log)}')); st(I).log.append(('nonunique-bits', x, b0))
        else: b0 = fe_is_negative(I, x.fe)
        return ok(Agg('alloc::vec::Vec', [[BoolVar(b0, x.const)] + [models.Opaque('bit')] * 252]))
    def m_value_fq(I, fr, fn, a):
        x = FV(I, a[0])
        if st(I).mode == 'setup' and not x.const: return err(Enum('ark_relations::r1cs::SynthesisError', 'AssignmentMissing', []))
        return ok(x.fe)
    def m_cs(I, fr, fn, a): return CSRef()
    def m_affine_new(I, fr, fn, a): return Agg('AffineVar', [FV(I, a[0]), FV(I, a[1]), Agg('PhantomData', [])])
    def m_affine_alloc(I, fr, fn, a):
        """AffineVar::new_variable_omit_prime_order_check(cs, f, mode): coordinates as witnesses (constants in Constant mode) and,
        for non-constants, the on-curve constraint  a x^2 + y^2 = 1 + d x^2 y^2"""
        s = st(I); mode = a[-1]
        const = isinstance(mode, Enum) and mode.variant.endswith('Constant')
        from . import curve
        if s.mode == 'setup' and not const:
            s.nw += 1
            return ok(Agg('AffineVar', [FqVar(FE.sym('Fq', f'sx{s.nw}')), FqVar(FE.sym('Fq', f'sy{s.nw}')), Agg('PhantomData', [])]))
        v = closure_value(I, fr, a[-2])
        if s.mode == 'shape' and not const:
            s.nw += 1
            return ok(Agg('AffineVar', [FqVar(FE.sym('Fq', f'sx{s.nw}')), FqVar(FE.sym('Fq', f'sy{s.nw}')), Agg('PhantomData', [])]))
        if isinstance(v, Agg) and v.name == 'Projective': v = curve.m_te_projective_to_affine(I, fr, fn, [v])
        x, y = v.fields[0], v.fields[1]
        if s.mode == 'adversarial' and not const:
            s.nw += 1; xs, ys = FE.sym('Fq', f'px{s.nw}'), FE.sym('Fq', f'py{s.nw}'); s.log.append(('point', (xs, ys), (x, y))); x, y = xs, ys
        if not const and 'omit_on_curve_check' not in fn:
            d = FE.const('Fq', spec.Dd)
            s.eq(y.square().sub(x.square()), FE.const('Fq', 1).add(d.mul(x.square()).mul(y.square())), 'on-curve check of AffineVar allocation')
        return ok(Agg('AffineVar', [FqVar(x, const), FqVar(y, const), Agg('PhantomData', [])]))
    def m_affine_binop(op):
        def f(I, fr, fn, a):
            p, q = D(I, a[0]), D(I, a[1])
            if isinstance(p, Ref): p = I.deref(p)
            if isinstance(q, Ref): q = I.deref(q)
            if isinstance(q, Agg) and q.name in ('Projective', 'Affine'):       # a native (constant) operand
                from . import curve
                if q.name == 'Projective': q = curve.m_te_projective_to_affine(I, fr, fn, [q])
                q = Agg('AffineVar', [FqVar(q.fields[0], True), FqVar(q.fields[1], True), Agg('PhantomData', [])])
            if shp(I):
                r = Agg('AffineVar', [FqVar(fresh(I), False), FqVar(fresh(I), False), Agg('PhantomData', [])])
                if fn.endswith('_assign'): I.store(a[0], r); return UNIT
                return r
            x1, y1, x2, y2 = p.fields[0].fe, p.fields[1].fe, q.fields[0].fe, q.fields[1].fe
            if op == 'sub': x2 = x2.neg()
            d = FE.const('Fq', spec.Dd); one = FE.const('Fq', 1)
            dd = d.mul(x1).mul(x2).mul(y1).mul(y2)
            s = st(I); s.nw += 1
            # complete addition law; the quotients are determined by  x3 (1 + dd) = x1 y2 + y1 x2,  y3 (1 - dd) = y1 y2 + x1 x2
            i1 = models.m_fe_inverse(I, fr, fn, [one.add(dd)]); i2 = models.m_fe_inverse(I, fr, fn, [one.sub(dd)])
            if i1.variant == 'None' or i2.variant == 'None': s.false('degenerate addition'); return Agg('AffineVar', [FqVar(x1), FqVar(y1), Agg('PhantomData', [])])
            x3 = x1.mul(y2).add(y1.mul(x2)).mul(i1.fields[0]); y3 = y1.mul(y2).add(x1.mul(x2)).mul(i2.fields[0])
            r = Agg('AffineVar', [FqVar(x3), FqVar(y3), Agg('PhantomData', [])])
            if fn.endswith('_assign'): I.store(a[0], r); return UNIT
            return r
        return f
    def m_aff_double(I, fr, fn, a):
        p = I.deref(a[0]); x, y = p.fields[0].fe, p.fields[1].fe
        c = p.fields[0].const and p.fields[1].const
        if shp(I) and not c:
            I.store(a[0], Agg('AffineVar', [FqVar(fresh(I), False), FqVar(fresh(I), False), Agg('PhantomData', [])])); return ok(UNIT)
        d = FE.const('Fq', spec.Dd); one = FE.const('Fq', 1); dd = d.mul(x).mul(x).mul(y).mul(y)
        i1 = models.m_fe_inverse(I, fr, fn, [one.add(dd)]); i2 = models.m_fe_inverse(I, fr, fn, [one.sub(dd)])
        if i1.variant == 'None' or i2.variant == 'None': st(I).false('degenerate doubling'); return ok(UNIT)
        I.store(a[0], Agg('AffineVar', [FqVar(x.mul(y).add(y.mul(x)).mul(i1.fields[0]), c), FqVar(y.mul(y).add(x.mul(x)).mul(i2.fields[0]), c), Agg('PhantomData', [])])); return ok(UNIT)
    def m_aff_negate(I, fr, fn, a):
        p = I.deref(a[0]); return ok(Agg('AffineVar', [FqVar(p.fields[0].fe.neg(), p.fields[0].const), p.fields[1], Agg('PhantomData', [])]))
    def m_aff_constant(I, fr, fn, a):
        from . import curve
        q = D(I, a[0])
        if isinstance(q, Agg) and q.name == 'Projective': q = curve.m_te_projective_to_affine(I, fr, fn, [q])
        return Agg('AffineVar', [FqVar(q.fields[0], True), FqVar(q.fields[1], True), Agg('PhantomData', [])])
    def m_aff_to_bits(I, fr, fn, a):
        p = I.deref(a[0]); c = p.fields[0].const and p.fields[1].const
        n = 506 if 'to_bits' in fn else 64
        return ok(Agg('alloc::vec::Vec', [[BoolVar(False, c) if c else models.Opaque('bit')] * n]))
    def m_aff_enforce(I, fr, fn, a):
        # AffineVar (coordinate-wise) equality enforcement of arkworks: equal means x1 = x2 and y1 = y2
        p, q = I.deref(a[0]) if isinstance(a[0], Ref) else a[0], I.deref(a[1]) if isinstance(a[1], Ref) else a[1]
        c = BVv(I, a[2]) if len(a) > 2 else BoolVar(True, True)
        if shp(I): return ok(UNIT)
        if not c.b: return ok(UNIT)
        if 'not_equal' in fn:
            if fe_eq(I, p.fields[0].fe, q.fields[0].fe) and fe_eq(I, p.fields[1].fe, q.fields[1].fe): st(I).false('AffineVar::conditional_enforce_not_equal on coordinate-wise equal points')
        else:
            st(I).eq(p.fields[0].fe, q.fields[0].fe, 'AffineVar::conditional_enforce_equal (x)'); st(I).eq(p.fields[1].fe, q.fields[1].fe, 'AffineVar::conditional_enforce_equal (y)')
        return ok(UNIT)
    def m_noop_ok(I, fr, fn, a): return ok(UNIT)
    def m_refcell_new(I, fr, fn, a): return Agg('RefCell', [a[0]])
    def m_refcell_borrow(I, fr, fn, a):
        r = a[0]; return Ref(r.frame, r.local, list(r.path) + [0])
    def m_ref_deref(I, fr, fn, a):
        r = a[0]
        return I.deref(r) if isinstance(I.deref(r), Ref) else r
    def m_unwrap_or(I, fr, fn, a):
        e, dflt = a; return e.fields[0] if e.variant in ('Ok', 'Some') else dflt
    def m_result_map(I, fr, fn, a):
        e, f = a
        if e.variant == 'Err': return e
        return ok(I.call_closure(fr, f, [e.fields[0]]))
    def m_fnonce(I, fr, fn, a):
        return I.call_closure(fr, a[0], list(a[1].fields) if len(a) > 1 and isinstance(a[1], Agg) else [])
    def m_te_affine_new(I, fr, fn, a): return Agg('Affine', [a[0], a[1]])
    fns = [
        (rf'^<&?{F} as core::ops::Mul(<.*>)?>::mul$', arith('mul')), (rf'^<&?{F} as core::ops::Add(<.*>)?>::add$', arith('add')), (rf'^<&?{F} as core::ops::Sub(<.*>)?>::sub$', arith('sub')),
        (rf'^<{F} as core::ops::MulAssign(<.*>)?>::mul_assign$', arith('mul')), (rf'^<{F} as core::ops::AddAssign(<.*>)?>::add_assign$', arith('add')), (rf'^<{F} as core::ops::SubAssign(<.*>)?>::sub_assign$', arith('sub')),
        (rf'^<{F} as ark_r1cs_std::fields::FieldVar<.*>>::square$', m_square), (rf'^<{F} as ark_r1cs_std::fields::FieldVar<.*>>::negate$', m_negate), (rf'^<{F} as ark_r1cs_std::fields::FieldVar<.*>>::double$', m_double),
        (rf'^<{F} as ark_r1cs_std::fields::FieldVar<.*>>::zero$', m_zero), (rf'^<{F} as ark_r1cs_std::fields::FieldVar<.*>>::one$', m_one),
        (rf'^<{F} as ark_r1cs_std::fields::FieldVar<.*>>::constant$', m_const), (rf'^<{F} as ark_r1cs_std::alloc::AllocVar<.*>>::new_constant::', m_const),
        (rf'^<{F} as ark_r1cs_std::alloc::AllocVar<.*>>::(new_witness|new_input|new_variable)::', m_new_witness_fq),
        (rf'^<{BOOL} as ark_r1cs_std::alloc::AllocVar<.*>>::(new_witness|new_variable)::', m_new_witness_bool),
        (rf'^<{F} as ark_r1cs_std::fields::FieldVar<.*>>::inverse$', m_inverse),
        (rf'^<{F} as ark_r1cs_std::eq::EqGadget<.*>>::is_eq$', m_is_eq), (rf'^<{BOOL} as ark_r1cs_std::eq::EqGadget<.*>>::is_eq$', m_bool_is_eq),
        (rf'^<{F} as ark_r1cs_std::select::CondSelectGadget<.*>>::conditionally_select$', m_cond_select), (r'^ark_r1cs_std::prelude::Boolean::<.*>::select::<.*>$', m_cond_select),
        (rf'^<{F} as ark_r1cs_std::eq::EqGadget<.*>>::(conditional_)?enforce_equal$', m_enforce_eq_fq), (rf'^<{BOOL} as ark_r1cs_std::eq::EqGadget<.*>>::(conditional_)?enforce_equal$', m_enforce_eq_bool),
        (r'^<(.*) as ark_r1cs_std::eq::EqGadget<.*>>::enforce_equal$', lambda I, fr, fn, a: I.call(fr, fn.replace('>::enforce_equal', '>::conditional_enforce_equal'), [a[0], a[1], _tmpref(BoolVar(True))])),
        (r'^<(.*) as ark_r1cs_std::eq::EqGadget<.*>>::enforce_not_equal$', lambda I, fr, fn, a: I.call(fr, fn.replace('>::enforce_not_equal', '>::conditional_enforce_not_equal'), [a[0], a[1], _tmpref(BoolVar(True))])),
        (r'^<(.*) as ark_r1cs_std::eq::EqGadget<.*>>::is_neq$', lambda I, fr, fn, a: ok(BoolVar(not I.call(fr, fn.replace('>::is_neq', '>::is_eq'), a).fields[0].b))),
        (r'^ark_r1cs_std::prelude::Boolean::<.*>::not$', m_bool_not), (r'^ark_r1cs_std::prelude::Boolean::<.*>::and$', m_bool_and), (r'^ark_r1cs_std::prelude::Boolean::<.*>::or$', m_bool_or),
        (r'^ark_r1cs_std::prelude::Boolean::<.*>::constant$', m_bool_const),
        (rf'^<{F} as ark_r1cs_std::ToBitsGadget<.*>>::to_(non_unique_)?bits_le$', m_to_bits),
        (rf'^<{F} as ark_r1cs_std::R1CSVar<.*>>::value$', m_value_fq), (r' as ark_r1cs_std::R1CSVar<.*>>::cs$', m_cs),
        (r'^ark_r1cs_std::groups::curves::twisted_edwards::AffineVar::<.*>::new$', m_affine_new),
        (r'^<ark_r1cs_std::groups::curves::twisted_edwards::AffineVar<.*> as ark_r1cs_std::groups::CurveVar<.*>>::new_variable_omit_(prime_order|on_curve)_check::', m_affine_alloc),
        (r'^ark_r1cs_std::groups::curves::twisted_edwards::AffineVar::<.*>::new_variable_omit_(prime_order|on_curve)_check::', m_affine_alloc),
        (r'^<ark_r1cs_std::groups::curves::twisted_edwards::AffineVar<.*> as core::ops::(Add|AddAssign)(<.*>)?>::add(_assign)?$', m_affine_binop('add')),
        (r'^<ark_r1cs_std::groups::curves::twisted_edwards::AffineVar<.*> as core::ops::(Sub|SubAssign)(<.*>)?>::sub(_assign)?$', m_affine_binop('sub')),
        (r'^<ark_r1cs_std::groups::curves::twisted_edwards::AffineVar<.*> as ark_r1cs_std::groups::CurveVar<.*>>::zero$', lambda I, fr, fn, a: Agg('AffineVar', [FqVar(FE.const('Fq', 0), True), FqVar(FE.const('Fq', 1), True), Agg('PhantomData', [])])),
        (r'^<ark_r1cs_std::groups::curves::twisted_edwards::AffineVar<.*> as ark_r1cs_std::groups::CurveVar<.*>>::is_zero$', lambda I, fr, fn, a: ok(BoolVar(False)) if shp(I) else (lambda p: ok(BoolVar(fe_is_zero(I, p.fields[0].fe) and fe_eq(I, p.fields[1].fe, FE.const('Fq', 1)))))(I.deref(a[0]))),
        (r'^<ark_r1cs_std::groups::curves::twisted_edwards::AffineVar<.*> as ark_r1cs_std::eq::EqGadget<.*>>::is_eq$', lambda I, fr, fn, a: ok(BoolVar(False)) if shp(I) else (lambda p, q: ok(BoolVar(fe_eq(I, p.fields[0].fe, q.fields[0].fe) and fe_eq(I, p.fields[1].fe, q.fields[1].fe))))(I.deref(a[0]), I.deref(a[1]))),
        (r'^<ark_r1cs_std::groups::curves::twisted_edwards::AffineVar<.*> as ark_r1cs_std::groups::CurveVar<.*>>::double_in_place$', m_aff_double),
        (r'^<ark_r1cs_std::groups::curves::twisted_edwards::AffineVar<.*> as ark_r1cs_std::groups::CurveVar<.*>>::negate$', m_aff_negate),
        (r'^<ark_r1cs_std::groups::curves::twisted_edwards::AffineVar<.*> as ark_r1cs_std::groups::CurveVar<.*>>::constant$', m_aff_constant),
        (r'^<ark_r1cs_std::groups::curves::twisted_edwards::AffineVar<.*> as ark_r1cs_std::(ToBitsGadget|ToBytesGadget)<.*>>::(to_bits_le|to_bytes)$', m_aff_to_bits),
        # trait-default allocation entry points of the crate's own variable types: new_input / new_witness / new_constant call new_variable
        (r'^<ark_curve::r1cs::\w+::ElementVar as ark_r1cs_std::alloc::AllocVar<.*>>::(new_input|new_witness)::<', lambda I, fr, fn, a: I.call(fr, re.sub(r'>::(new_input|new_witness)::<', '>::new_variable::<', fn), [a[0], a[1], Enum('ark_r1cs_std::alloc::AllocationMode', 'Input' if '>::new_input::<' in fn else 'Witness', [])])),
        (r'^<ark_r1cs_std::groups::curves::twisted_edwards::AffineVar<.*> as ark_r1cs_std::eq::EqGadget<.*>>::conditional_enforce_(not_)?equal$', m_aff_enforce),
        (r'^core::cell::RefCell::<.*>::new$', m_refcell_new), (r'^core::cell::RefCell::<.*>::(borrow|borrow_mut|get_mut|as_ptr)$', m_refcell_borrow),
        (r'^core::cell::RefCell::<.*>::into_inner$', lambda I, fr, fn, a: a[0].fields[0]),
        (r'^core::cell::RefCell::<.*>::replace$', lambda I, fr, fn, a: (lambda old: (I.store(Ref(a[0].frame, a[0].local, list(a[0].path) + [0]), a[1]), old)[1])(mirsym.cp(I.deref(Ref(a[0].frame, a[0].local, list(a[0].path) + [0]))))),
        (r'^<core::cell::Ref(Mut)?<.*> as core::ops::Deref(Mut)?>::deref(_mut)?$', lambda I, fr, fn, a: a[0] if not isinstance(I.deref(a[0]), Ref) else I.deref(a[0])),
        (r'^core::result::Result::<.*>::unwrap_or$', m_unwrap_or), (r'^core::result::Result::<.*>::map::<', m_result_map),
        (r'^<.* as core::ops::FnOnce<.*>>::call_once$', m_fnonce),
        (r'^ark_ec::twisted_edwards::Affine::<.*>::new$', m_te_affine_new),
        (r'^<.* as core::convert::Into<ark_relations::r1cs::Namespace<.*>>>::into$', lambda I, fr, fn, a: CSRef()), (r'^ark_relations::r1cs::Namespace::<.*>::(cs|new)$', lambda I, fr, fn, a: CSRef()),
        (r'^<ark_relations::r1cs::ConstraintSystemRef<.*> as core::clone::Clone>::clone$', lambda I, fr, fn, a: CSRef()),
        (r'^ark_relations::r1cs::ConstraintSystemRef::<.*>::is_in_setup_mode$', lambda I, fr, fn, a: store.mode == 'setup'),
        (r'^tracing::__macro_support::__is_enabled$', lambda I, fr, fn, a: False), (r'^tracing_core::subscriber::Interest::is_never$', lambda I, fr, fn, a: True),
        (r'^<tracing_core::metadata::Level as core::cmp::PartialOrd<.*>>::le$', lambda I, fr, fn, a: False),
        (r'^tracing(_core)?::', lambda I, fr, fn, a: models.Opaque('tracing')), (r'^<tracing(_core)?::', lambda I, fr, fn, a: models.Opaque('tracing')),
        (r'^core::mem::forget::', lambda I, fr, fn, a: UNIT),
    ]
    def desc(I, v, depth=0):
        if isinstance(v, (Ref, SliceRef)):
            try: v = I.deref(v)
            except Exception: return '_'
        if isinstance(v, FqVar):
            if not v.const: return 'Fv'
            return f'Fc:{v.fe.const_value()}' if v.fe.is_const() else 'Fc:<value-dependent ' + v.fe.key()[:40] + '>'
        if isinstance(v, FE): return f'fc:{v.const_value()}' if v.is_const() else 'fc:<value-dependent ' + v.key()[:40] + '>'
        if isinstance(v, BoolVar): return f'Bc:{int(v.b)}' if v.const else 'Bv'
        if isinstance(v, bool): return f'bc:{int(v)}'
        if isinstance(v, Enum) and 'AllocationMode' in v.name: return 'mode:' + v.variant.split('::')[-1]
        if isinstance(v, Agg) and v.name == 'AffineVar' and depth < 3: return 'A(' + ','.join(desc(I, f, depth + 1) for f in v.fields[:2]) + ')'
        return '_'
    def traced(pat, model):
        def f(I, fr, fn, a):
            tr = st(I).trace
            short = re.sub(r'<[^<>]*>', '', re.sub(r'<[^<>]*>', '', re.sub(r'<[^<>]*>', '', fn)))
            tr.append((short.split(' as ')[-1][-60:], tuple(desc(I, x) for x in a)))
            return model(I, fr, fn, a)
        return f
    # every call into ark-r1cs-std is one event of the shape trace (function, operand kinds, values of constants): the sequence of
    # events determines the variables and constraints arkworks emits, provided its own gadgets are value-oblivious (trusted)
    fns = [((pat, traced(pat, mdl)) if ('ark_r1cs_std' in pat and 'R1CSVar' not in pat and not pat.startswith('^<ark_curve::r1cs::')) else (pat, mdl)) for pat, mdl in fns]
    from . import curve
    M = curve.curve_models('ark', extra=fns)
    M['consts'] = [(r'^ark_r1cs_std::prelude::Boolean::<.*>::TRUE$', lambda I, fr, path: BoolVar(True, True)), (r'^ark_r1cs_std::prelude::Boolean::<.*>::FALSE$', lambda I, fr, path: BoolVar(False, True))] + M.get('consts', [])
    return M

# ---------------------------------------------------------------------------------------------- deciding a constraint store
def facts_status(store, rec, extra_hyps=()):
    """honest run: does every enforced fact hold as a consequence of the native relations of this path?
    returns ('sat' all hold | 'unsat' some fact is false | 'unknown', detail)"""
    from .curve import certificate, side_polys
    hyps = list(rec['ctx'].__dict__.get('zero_hyps', {}).values()) + side_polys(rec['side']) + list(extra_hyps)
    for kind, a, b, why in store.facts:
        if kind == 'false': return 'unsat', why
        g = a.sub(b)
        if g.is_zero_poly(): continue
        stt, dt, info = certificate(g, hyps) if hyps else ('inconclusive', 0, 'no relations')
        if stt != 'proved':
            if g.is_const() and g.const_value() != 0: return 'unsat', why + ' (nonzero constant)'
            return 'unknown', f'{why}: {info}'
    return 'sat', ''

def _items():
    from .curve import items_for
    return items_for('ark')

def run_r1cs(body_fn, mode):
    """run_paths with a fresh constraint store per path; returns records with rec['store']"""
    items = _items()
    stores = []
    holder = {}
    class Proxy(Store):
        pass
    cur = {'s': None}
    class Dyn:
        def __getattr__(s, k): return getattr(cur['s'], k)
        def __setattr__(s, k, v): setattr(cur['s'], k, v)
    dyn = Dyn()
    M = r1cs_models(dyn)
    def body(I, h):
        cur['s'] = Store(mode); I.ctx.store = cur['s']
        return body_fn(I, h, items)
    recs = run_paths(items, M, body)
    for r in recs: r['store'] = r['ctx'].store
    return items, recs

def pathtag(r): return ''.join('1' if d else '0' for d in r['decisions'])

# ---------------------------------------------------------------------------------------------- C13 honest synthesis
def check_honest_gadgets(only=None):
    from .curve import compare_fe, compare_coords
    obs = []
    def guard(name, fn):
        try: fn()
        except Exception as e:
            obs.append(Ob(f'r1cs:{name}', 'inconclusive', f'{type(e).__name__}: {e} :: ' + ' <- '.join(getattr(e, 'mir_stack', [])[:3]), 0, 'mirsym/R1CS'))
    viol = lambda name, why, r=None, extra=None: obs.append(Ob(name, 'violated', why, 0, 'mirsym/R1CS (honest)', {'path': [str(c)[:90] for c in (r['path'] if r else [])]}, dict({'kind': 'r1cs-honest'}, **(extra or {}))))
    # ---- isqrt: value = native, constraints satisfied
    def isqrt():
        def body(I, h, items):
            it = mirsym.find_item_hdr(items, r'::isqrt$', 'FqVarExtension for')
            x = FE.sym('Fq', 'den'); h.locals['x'] = FqVar(x)
            r = I.call_item(it, [Ref(h, 'x', [])])
            nat = models.sqrt_ratio_contract(I, FE.const('Fq', 1), x)
            return r, nat
        items, recs = run_r1cs(body, 'honest')
        for r in recs:
            nm = f'r1cs:isqrt honest synthesis [path {pathtag(r)}]'
            if 'panic' in r: viol(nm, 'panics: ' + r['panic'], r); continue
            if 'pruned' in r: continue
            res, nat = r['result']
            ws, y = res.fields[0].fields
            if ws.b != nat.fields[0]: viol(nm, f'flag {ws.b} differs from the native flag {nat.fields[0]}', r, {'gadget': 'isqrt'}); continue
            o = compare_fe(nm + ': output value = native value', y.fe, nat.fields[1], {}, rec=r)
            if o.status == 'violated': o.model = {'kind': 'r1cs-honest', 'gadget': 'isqrt'}
            obs.append(o)
            stt, why = facts_status(r['store'], r)
            obs.append(Ob(nm + ': constraint system satisfied', 'proved' if stt == 'sat' else ('violated' if stt == 'unsat' else 'inconclusive'), why, 0, 'certificates (honest facts follow from contract S)', {'facts': len(r['store'].facts)}, None if stt == 'sat' else {'kind': 'r1cs-honest', 'gadget': 'isqrt'}))
    if only in (None, 'isqrt'): guard('isqrt', isqrt)
    # ---- sign gadgets
    def signs():
        for nm_, want in (('is_nonnegative', lambda I, x: not fe_is_negative(I, x)), ('is_negative', lambda I, x: fe_is_negative(I, x)), ('abs', None)):
            def body(I, h, items, nm_=nm_, want=want):
                it = mirsym.find_item_hdr(items, rf'::{nm_}$', 'FqVarExtension for')
                x = FE.sym('Fq', 'x'); h.locals['x'] = FqVar(x)
                r = I.call_item(it, [Ref(h, 'x', [])] if nm_ != 'abs' else [FqVar(x)])
                return r, (want(I, x) if want else (x.neg() if fe_is_negative(I, x) else x))
            items, recs = run_r1cs(body, 'honest')
            for r in recs:
                nm = f'r1cs:{nm_} honest synthesis [path {pathtag(r)}]'
                if 'panic' in r: viol(nm, 'panics: ' + r['panic'], r); continue
                res, w = r['result']; v = res.fields[0]
                if isinstance(v, BoolVar):
                    obs.append(Ob(nm, 'proved' if v.b == w else 'violated', f'{v.b}', 0, 'mirsym/R1CS (honest)', None, None if v.b == w else {'kind': 'r1cs-honest', 'gadget': nm_}))
                else:
                    o = compare_fe(nm, v.fe, w, {}, rec=r)
                    if o.status == 'violated': o.model = {'kind': 'r1cs-honest', 'gadget': nm_}
                    obs.append(o)
    if only in (None, 'sign gadgets'): guard('sign gadgets', signs)
    # ---- compress_to_field
    def compress():
        def body(I, h, items):
            it = find_item(items, r'^ark_curve::r1cs::inner::<impl at [^>]*>::compress_to_field$')
            x, y = FE.sym('Fq', 'x'), FE.sym('Fq', 'y')
            h.locals['e'] = Agg('ark_curve::r1cs::inner::ElementVar', [Agg('AffineVar', [FqVar(x), FqVar(y), Agg('PhantomData', [])])])
            r = I.call_item(it, [Ref(h, 'e', [])])
            return r, spec.encode(I, x, y, FE.const('Fq', 1), x.mul(y))
        items, recs = run_r1cs(body, 'honest')
        for r in recs:
            nm = f'r1cs:compress_to_field honest synthesis [path {pathtag(r)}]'
            if 'panic' in r: viol(nm, 'panics: ' + r['panic'], r); continue
            if 'pruned' in r: continue
            res, sp = r['result']
            o = compare_fe(nm + ': value = native encoding', res.fields[0].fe, sp, {}, rec=r)
            if o.status == 'violated': o.model = {'kind': 'r1cs-honest', 'gadget': 'compress_to_field'}
            obs.append(o)
            stt, why = facts_status(r['store'], r)
            obs.append(Ob(nm + ': constraint system satisfied', 'proved' if stt == 'sat' else ('violated' if stt == 'unsat' else 'inconclusive'), why, 0, 'certificates', None, None if stt == 'sat' else {'kind': 'r1cs-honest', 'gadget': 'compress_to_field'}))
    if only in (None, 'compress_to_field'): guard('compress_to_field', compress)
    # ---- decompress_from_field: satisfied exactly when the native decoder accepts, same coordinates
    def decompress():
        def body(I, h, items):
            it = find_item(items, r'^ark_curve::r1cs::inner::<impl at [^>]*>::decompress_from_field$')
            s_ = FE.sym('Fq', 's')
            r = I.call_item(it, [FqVar(s_)])
            return r, spec.decode(I, s_)
        items, recs = run_r1cs(body, 'honest')
        for r in recs:
            nm = f'r1cs:decompress_from_field honest synthesis [path {pathtag(r)}]'
            if 'panic' in r: viol(nm, 'panics: ' + r['panic'], r); continue
            if 'pruned' in r: continue
            res, sp = r['result']
            stt, why = facts_status(r['store'], r)
            if stt == 'unknown': obs.append(Ob(nm, 'inconclusive', why, 0, 'certificates')); continue
            sat = stt == 'sat'
            if sat != (sp is not None):
                viol(nm, f'constraint system {"satisfied" if sat else "unsatisfied (" + why + ")"} while the native decoder {"accepts" if sp else "rejects"}', r, {'gadget': 'decompress_from_field'}); continue
            if not sat: obs.append(Ob(nm, 'proved', 'unsatisfied exactly as the native decoder rejects: ' + why, 0, 'mirsym/R1CS (honest)')); continue
            av = res.fields[0].fields[0]
            o = compare_coords(nm + ': coordinates = native decode', (av.fields[0].fe, av.fields[1].fe), sp[:2], {}, r)
            if o.status == 'violated': o.model = {'kind': 'r1cs-honest', 'gadget': 'decompress_from_field'}
            obs.append(o)
    if only in (None, 'decompress_from_field'): guard('decompress_from_field', decompress)
    # ---- elligator_map
    def ell():
        from .curve import certificate, side_polys
        def body(I, h, items):
            it = find_item(items, r'^ark_curve::r1cs::inner::<impl at [^>]*>::elligator_map$')
            r0 = FE.sym('Fq', 'r0'); h.locals['r'] = FqVar(r0)
            r = I.call_item(it, [Ref(h, 'r', [])])
            return r, spec.elligator(I, r0)
        items, recs = run_r1cs(body, 'honest')
        for r in recs:
            nm = f'r1cs:elligator_map honest synthesis [path {pathtag(r)}]'
            if 'panic' in r: viol(nm, 'panics: ' + r['panic'], r); continue
            if 'pruned' in r: continue
            res, (X, Y, Z, T) = r['result']
            stt, why = facts_status(r['store'], r)
            if stt != 'sat':
                # a degenerate denominator (inverse of zero) makes the honest system unsatisfiable: only on paths where F = 0 or H = 0
                obs.append(Ob(nm + ': constraint system', 'proved' if 'inverse of zero' in why else ('violated' if stt == 'unsat' else 'inconclusive'), 'unsatisfied only through a zero denominator of the affine conversion: ' + why, 0, 'mirsym/R1CS (honest)', None, None if 'inverse of zero' in why else {'kind': 'r1cs-honest', 'gadget': 'elligator_map'})); continue
            av = res.fields[0].fields[0]; x, y = av.fields[0].fe, av.fields[1].fe
            hyps = list(r['ctx'].__dict__.get('zero_hyps', {}).values()) + side_polys(r['side'])
            good = True; info = ''
            for g in (x.mul(Z).sub(X), y.mul(Z).sub(Y)):
                st_, dt, info = certificate(g, hyps)
                if st_ != 'proved': good = False; break
            obs.append(Ob(nm + ': affine output = native map (x Z = X, y Z = Y)', 'proved' if good else 'violated', info, 0, 'certificates', None, None if good else {'kind': 'r1cs-honest', 'gadget': 'elligator_map'}))
    if only in (None, 'elligator_map'): guard('elligator_map', ell)
    # ---- equality gadget
    def iseq():
        def body(I, h, items):
            it = mirsym.find_item_hdr(items, r'^ark_curve::r1cs::inner::.*::is_eq$', 'EqGadget<Fq> for ElementVar')
            co = [FE.sym('Fq', n) for n in ('x1', 'y1', 'x2', 'y2')]
            for k, (a, b) in (('p', co[:2]), ('q', co[2:])): h.locals[k] = Agg('ark_curve::r1cs::inner::ElementVar', [Agg('AffineVar', [FqVar(a), FqVar(b), Agg('PhantomData', [])])])
            r = I.call_item(it, [Ref(h, 'p', []), Ref(h, 'q', [])])
            return r, fe_is_zero(I, co[0].mul(co[3]).sub(co[1].mul(co[2])))
        items, recs = run_r1cs(body, 'honest')
        for r in recs:
            nm = f'r1cs:ElementVar::is_eq honest synthesis [path {pathtag(r)}]'
            if 'panic' in r: viol(nm, 'panics', r); continue
            res, w = r['result']; b = res.fields[0].b
            obs.append(Ob(nm, 'proved' if b == w else 'violated', f'{b}', 0, 'mirsym/R1CS (honest)', None, None if b == w else {'kind': 'r1cs-honest', 'gadget': 'is_eq'}))
    if only in (None, 'is_eq'): guard('is_eq', iseq)
    # ---- identity predicate of the outer variable, if the crate overrides CurveVar::is_zero (the trait default is is_eq(zero()))
    def iszero():
        items = _items()
        its = [it for k, it in items.items() if it.kind == 'fn' and k.endswith('::is_zero') and it.impl_at and it.impl_at[0].startswith('src/ark_curve/r1cs/')]
        for it in its:
            outer = 'element.rs' in it.impl_at[0]
            def body(I, h, items_, it=it, outer=outer):
                x, y = FE.sym('Fq', 'x'), FE.sym('Fq', 'y')
                v = _outer_var(I, items_, x, y, 'p') if outer else Agg('ark_curve::r1cs::inner::ElementVar', [Agg('AffineVar', [FqVar(x), FqVar(y), Agg('PhantomData', [])])])
                h.locals['p'] = v
                return I.call_item(it, [Ref(h, 'p', [])]), fe_is_zero(I, x)
            items_, recs = run_r1cs(body, 'honest')
            for r in recs:
                nm = f'r1cs:{it.impl_at[0]}:{it.impl_at[1]} is_zero is `X == 0` [path {pathtag(r)}]'
                if 'panic' in r: viol(nm, 'panics', r); continue
                res, w = r['result']; b = res.fields[0].b
                obs.append(Ob(nm, 'proved' if b == w else 'violated', f'{b}', 0, 'mirsym/R1CS (honest)', None, None if b == w else {'kind': 'r1cs-honest', 'gadget': 'is_zero'}))
    if only in (None, 'is_eq'): guard('is_zero', iszero)
    return obs

def check_lazy_forcing():
    """all call sequences of length <= 4 over {element(), encoding()} from both initial states: the values returned are always the
    same and no constraint is added by a repeated forcing"""
    obs = []
    import itertools
    seqs = [s for n in range(1, (5 if common.tier() == 'thorough' else 4)) for s in itertools.product('EN', repeat=n)]
    for init in ('encoding', 'element'):
        bad = None; nruns = 0
        for seq in seqs:
            def body(I, h, items, seq=seq, init=init):
                L = r'^ark_curve::r1cs::lazy::<impl at [^>]*>::'
                el_it = find_item(items, L + 'element$'); en_it = find_item(items, L + 'encoding$')
                if init == 'encoding':
                    lz = I.call_item(find_item(items, L + 'new_from_encoding$'), [FqVar(FE.sym('Fq', 's'))])
                else:
                    x, y = FE.sym('Fq', 'x'), FE.sym('Fq', 'y')
                    lz = I.call_item(find_item(items, L + 'new_from_element$'), [Agg('ark_curve::r1cs::inner::ElementVar', [Agg('AffineVar', [FqVar(x), FqVar(y), Agg('PhantomData', [])])])])
                h.locals['lz'] = lz
                outs = []; counts = []
                for c in seq:
                    r = I.call_item(el_it if c == 'E' else en_it, [Ref(h, 'lz', [])])
                    outs.append((c, r)); counts.append(len(I.ctx.store.facts))
                return outs, counts
            try: items, recs = run_r1cs(body, 'honest')
            except Exception as e:
                bad = (seq, f'{type(e).__name__}: {e} :: ' + ' <- '.join(getattr(e, 'mir_stack', [])[:2])); break
            for r in recs:
                nruns += 1
                if 'panic' in r: bad = (seq, 'panics: ' + r['panic']); break
                if 'pruned' in r: continue
                outs, counts = r['result']
                seen = {}
                for i, (c, res) in enumerate(outs):
                    if res.variant != 'Ok': continue
                    v = res.fields[0]
                    key = v.fe.key() if isinstance(v, FqVar) else (v.fields[0].fields[0].fe.key(), v.fields[0].fields[1].fe.key())
                    if c in seen and seen[c][0] != key: bad = (seq, f'call {i} ({"element" if c == "E" else "encoding"}) returns a different value than the earlier call'); break
                    if c in seen and counts[i] != counts[i - 1] and all(cc in [x for x, _ in outs[:i]] for cc in 'EN' if True) and len({x for x, _ in outs[:i]}) == 2: bad = (seq, f'call {i} adds constraints although both forms were already forced'); break
                    seen.setdefault(c, (key, i))
                if bad: break
            if bad: break
        nm = f'r1cs:LazyElementVar from {init}: all forcing sequences of length <= {max(len(s) for s in seqs)}'
        if bad: obs.append(Ob(nm, 'violated' if 'Error' not in bad[1] and 'Unsupported' not in bad[1] else 'inconclusive', f'sequence {"".join(bad[0])}: {bad[1]}', 0, 'mirsym/R1CS (honest)', None, {'kind': 'r1cs-lazy', 'seq': ''.join(bad[0]), 'init': init}))
        else: obs.append(Ob(nm, 'proved', f'{len(seqs)} sequences, {nruns} paths: same values, no constraints added by repeated forcing', 0, 'mirsym/R1CS (honest)', {'sequences': len(seqs)}))
    return obs

def _outer_var(I, items, x, y, tag):
    """an outer ElementVar holding the element (x, y), with its encoding already forced (both forms cached)"""
    L = r'^ark_curve::r1cs::lazy::<impl at [^>]*>::'
    inner = Agg('ark_curve::r1cs::inner::ElementVar', [Agg('AffineVar', [FqVar(x), FqVar(y), Agg('PhantomData', [])])])
    lz = I.call_item(find_item(items, L + 'new_from_element$'), [inner])
    return Agg('ark_curve::r1cs::element::ElementVar', [lz])

def check_r1cs_ops(only=None):
    """ElementVar operator forms, double_in_place and negate of the outer (lazy) variable: after the operation, the element is the
    group-law result of the operands' elements and compress_to_field() is the encoding of THAT element, also when the operand's
    encoding had been forced before (no stale cache)"""
    from .curve import compare_fe
    obs = []
    items = _items()
    cands = []
    for k, it in items.items():
        if it.kind != 'fn' or not it.impl_at: continue
        if it.impl_at[0] == 'src/ark_curve/r1cs/ops.rs':
            tr, targs, selfty = mirsym.Interp._hdr_parse(it.impl_header())
            if tr in ('Add', 'Sub', 'AddAssign', 'SubAssign') and 'ElementVar' in selfty and 'Element>' not in (targs or '') and (targs is None or 'ElementVar' in targs): cands.append((it, tr))
        if it.impl_at[0] == 'src/ark_curve/r1cs/element.rs' and k.split('::')[-1] in ('double_in_place', 'negate') and 'CurveVar' in it.impl_header(): cands.append((it, k.split('::')[-1]))
    def m_aff_double(I, fr, fn, a):
        p = I.deref(a[0]); x, y = p.fields[0].fe, p.fields[1].fe
        d = FE.const('Fq', spec.Dd); one = FE.const('Fq', 1); dd = d.mul(x).mul(x).mul(y).mul(y)
        i1 = models.m_fe_inverse(I, fr, fn, [one.add(dd)]); i2 = models.m_fe_inverse(I, fr, fn, [one.sub(dd)])
        if i1.variant == 'None' or i2.variant == 'None': I.ctx.store.false('degenerate doubling'); return ok(UNIT)
        I.store(a[0], Agg('AffineVar', [FqVar(x.mul(y).add(y.mul(x)).mul(i1.fields[0])), FqVar(y.mul(y).add(x.mul(x)).mul(i2.fields[0])), Agg('PhantomData', [])])); return ok(UNIT)
    def m_aff_negate(I, fr, fn, a):
        p = I.deref(a[0]); return ok(Agg('AffineVar', [FqVar(p.fields[0].fe.neg()), p.fields[1], Agg('PhantomData', [])]))
    extra = [(r'^<ark_r1cs_std::groups::curves::twisted_edwards::AffineVar<.*> as ark_r1cs_std::groups::CurveVar<.*>>::double_in_place$', m_aff_double),
             (r'^<ark_r1cs_std::groups::curves::twisted_edwards::AffineVar<.*> as ark_r1cs_std::groups::CurveVar<.*>>::negate$', m_aff_negate)]
    for idx, (it, tr) in enumerate(sorted(cands, key=lambda c: c[0].impl_at)):
        name = f'r1cs:{it.impl_at[0]}:{it.impl_at[1]} `{it.impl_header()}`::{it.name.split("::")[-1]}'
        for pi, pre in enumerate(('encoding forced before', 'fresh')):
            if only is not None and only != (idx, pi): continue
            def body(I, h, items_, it=it, tr=tr, pre=pre):
                I.models['fns'] = extra + I.models['fns']
                px, py, qx, qy = [FE.sym('Fq', n) for n in ('px', 'py', 'qx', 'qy')]
                P = _outer_var(I, items_, px, py, 'p'); Q = _outer_var(I, items_, qx, qy, 'q')
                h.locals['P'] = P; h.locals['Q'] = Q
                comp = find_item(items_, r'^ark_curve::r1cs::element::<impl at [^>]*>::compress_to_field$')
                if pre.startswith('encoding'): I.call_item(comp, [Ref(h, 'P', [])])
                args = []
                for i, (loc, ty) in enumerate(it.params):
                    nm_ = 'PQ'[i]
                    args.append(Ref(h, nm_, []) if ty.strip().startswith('&') else h.locals[nm_])
                res = I.call_item(it, args)
                if tr in ('AddAssign', 'SubAssign', 'double_in_place'): out = h.locals['P']
                elif isinstance(res, Enum): out = res.fields[0]
                else: out = res
                h.locals['R'] = out
                enc = I.call_item(comp, [Ref(h, 'R', [])])
                L = r'^ark_curve::r1cs::lazy::<impl at [^>]*>::'
                h.locals['Rl'] = out.fields[0]
                el = I.call_item(find_item(items_, L + 'element$'), [Ref(h, 'Rl', [])])
                h.locals['Ri'] = el.fields[0]
                fresh = I.call_item(find_item(items_, r'^ark_curve::r1cs::inner::<impl at [^>]*>::compress_to_field$'), [Ref(h, 'Ri', [])])
                return enc, fresh, el.fields[0], (px, py, qx, qy)
            try: items_, recs = run_r1cs(body, 'honest')
            except Exception as e:
                obs.append(Ob(f'{name} [{pre}]', 'inconclusive', f'{type(e).__name__}: {e} :: ' + ' <- '.join(getattr(e, 'mir_stack', [])[:3]), 0, 'mirsym/R1CS')); continue
            bad = None; n = 0
            for r in recs:
                if 'pruned' in r: continue
                n += 1
                if 'panic' in r: bad = 'panics: ' + r['panic']; break
                enc, fresh, el, (px, py, qx, qy) = r['result']
                if enc.variant != 'Ok' or fresh.variant != 'Ok': continue
                if enc.fields[0].fe.key() != fresh.fields[0].fe.key():
                    o = compare_fe(name, enc.fields[0].fe, fresh.fields[0].fe, {}, rec=r)
                    if o.status != 'proved': bad = 'compress_to_field() after the operation is not the encoding of the resulting element (stale cached encoding)'; break
                # the element itself: x-coordinate relation of the law (cross-multiplied), using the same inverse symbols
                x3 = el.fields[0].fields[0].fe
                if tr in ('negate',) and x3.key() != px.neg().key(): bad = 'negate does not negate x'; break
            if bad: obs.append(Ob(f'{name} [{pre}]', 'violated', bad, 0, 'mirsym/R1CS (honest)', None, {'kind': 'r1cs-ops', 'op': tr, 'pre': pre}))
            elif n: obs.append(Ob(f'{name} [{pre}]', 'proved', f'{n} paths: encoding after the operation = encoding of the new element', 0, 'mirsym/R1CS (honest) + z3 identity'))
    if len(cands) < 8 and only is None: obs.append(Ob('r1cs: operator forms found', 'inconclusive', f'{len(cands)}', 0, 'mirsym'))
    return obs


# ---------------------------------------------------------------------------------------------- C14 adversarial hints
KNOWN_ISQRT_KEY = 'gadget=isqrt case=den0 hint=(true,+-1)'

def small_int_model(facts, extra=(), timeout=20000):
    """a model over Z with small values of the polynomial facts (a small-integer model of polynomial equations is a model over F_q)"""
    sv = z3.Solver(); sv.set('timeout', timeout)
    for kind, a, b, why in facts:
        if kind == 'eq': sv.add(a.term == b.term)
        else: return None
    for e in extra: sv.add(e)
    if sv.check() == z3.sat:
        m = sv.model(); return {str(d): m[d].as_long() for d in m.decls() if d.arity() == 0 and hasattr(m[d], 'as_long')}
    return None

def check_adversarial_isqrt():
    """isqrt with free witnesses (flag, y): on every path the enforced facts imply the four-case contract
       den = 0 -> (false, 0);  den != 0 and flag -> y^2 den = 1;  den != 0 and not flag -> y^2 den = zeta"""
    from .curve import certificate, side_polys
    obs = []
    def body(I, h, items):
        it = mirsym.find_item_hdr(items, r'::isqrt$', 'FqVarExtension for')
        x = FE.sym('Fq', 'den'); h.locals['x'] = FqVar(x)
        r = I.call_item(it, [Ref(h, 'x', [])])
        dz = fe_is_zero(I, x)
        return r, dz
    try: items, recs = run_r1cs(body, 'adversarial')
    except Exception as e:
        return [Ob('r1cs:isqrt adversarial', 'inconclusive', f'{type(e).__name__}: {e} :: ' + ' <- '.join(getattr(e, 'mir_stack', [])[:3]), 0, 'mirsym/R1CS')]
    den = FE.sym('Fq', 'den'); one = FE.const('Fq', 1); zeta = FE.const('Fq', spec.ZETA)
    for r in recs:
        nm = f'r1cs:isqrt with adversarial hints [path {pathtag(r)}]'
        if 'panic' in r: obs.append(Ob(nm, 'violated', 'panics: ' + r['panic'], 0, 'mirsym/R1CS', None, {'kind': 'r1cs-adv', 'gadget': 'isqrt'})); continue
        if 'pruned' in r: continue
        res, dz = r['result']; ws, y = res.fields[0].fields; st_ = r['store']
        if any(k == 'false' for k, *_ in st_.facts):
            obs.append(Ob(nm, 'proved', 'constraint system unsatisfiable on this path: ' + [w for k, _, _, w in st_.facts if k == 'false'][0], 0, 'mirsym/R1CS (adversarial)')); continue
        hyps = [a.sub(b) for k, a, b, w in st_.facts if k == 'eq'] + list(r['ctx'].__dict__.get('zero_hyps', {}).values()) + side_polys(r['side'])
        tag = f'den {"=" if dz else "!="} 0, claimed flag {ws.b}'
        if dz:
            if ws.b:
                mdl = small_int_model(st_.facts, [z3.Int('den') == 0])
                obs.append(Ob(nm + f' ({tag})', 'violated' if mdl is not None else 'inconclusive', f'flag true is accepted for den = 0 (native: (false, 0)); satisfying hint {mdl}', 0, 'mirsym/R1CS (adversarial) + z3 NIA model', {'facts': [w for *_, w in st_.facts]}, {'kind': 'r1cs-adv', 'gadget': 'isqrt', 'case': 'den0', 'hint': mdl}, key=KNOWN_ISQRT_KEY)); continue
            goal = y.fe
        else: goal = y.fe.square().mul(den).sub(one if ws.b else zeta)
        stt, dt, info = certificate(goal, hyps)
        if stt != 'proved':
            # a field has no nilpotents: goal^2 in the ideal also forces goal = 0
            stt, dt2, info2 = certificate(goal.square(), hyps); dt += dt2
            if stt == 'proved': info = 'goal^2 in the ideal (a field has no nilpotent elements): ' + info2
        if stt == 'proved': obs.append(Ob(nm + f' ({tag})', 'proved', 'facts imply the contract: ' + info, dt, 'cofactor certificate + z3 identity'))
        else:
            mdl = small_int_model(st_.facts)
            obs.append(Ob(nm + f' ({tag})', 'violated', f'the enforced facts do not imply the contract; facts admit e.g. {mdl}', dt, 'mirsym/R1CS (adversarial)', None, {'kind': 'r1cs-adv', 'gadget': 'isqrt', 'case': tag}))
    return obs

def check_adversarial_decode():
    """decompress_from_field with adversarial isqrt hints: whenever the constraint system can be satisfied, the native decoder accepts
    (except through the isqrt den = 0 case, reported once under its own key), non-negativity and squareness are enforced"""
    obs = []
    def body(I, h, items):
        it = find_item(items, r'^ark_curve::r1cs::inner::<impl at [^>]*>::decompress_from_field$')
        s_ = FE.sym('Fq', 's')
        r = I.call_item(it, [FqVar(s_)])
        neg = fe_is_negative(I, s_)
        ss = s_.square(); u1 = FE.const('Fq', 1).sub(ss); u2 = u1.square().sub(FE.const('Fq', 4 * spec.Dd).mul(ss))
        dz = fe_is_zero(I, u2.mul(u1.square()))
        return r, neg, dz
    try: items, recs = run_r1cs(body, 'adversarial')
    except Exception as e:
        return [Ob('r1cs:decompress_from_field adversarial', 'inconclusive', f'{type(e).__name__}: {e} :: ' + ' <- '.join(getattr(e, 'mir_stack', [])[:3]), 0, 'mirsym/R1CS')]
    n_ok = 0
    for r in recs:
        nm = f'r1cs:decompress_from_field with adversarial hints [path {pathtag(r)}]'
        if 'panic' in r: obs.append(Ob(nm, 'violated', 'panics: ' + r['panic'], 0, 'mirsym/R1CS', None, {'kind': 'r1cs-adv', 'gadget': 'decode'})); continue
        if 'pruned' in r: continue
        res, neg, dz = r['result']; st_ = r['store']
        unsat = [w for k, _, _, w in st_.facts if k == 'false']
        flags = [b for kind, b, v in st_.log if kind == 'bool']
        nonuniq = [x for x in st_.log if x[0] == 'nonunique-bits']
        if unsat: n_ok += 1; continue
        # satisfiable so far as the Boolean structure goes.  The native decoder accepts iff s is non-negative, den != 0 and den is a
        # square; with flag = true and den != 0 the facts give y^2 den = 1, i.e. den is a square (zeta non-square) - consistent.
        if neg:
            obs.append(Ob(nm, 'violated', 'a negative s can satisfy the constraints' + (' (sign taken from a non-unique bit decomposition)' if nonuniq else ''), 0, 'mirsym/R1CS (adversarial)', {'facts': [w for *_, w in st_.facts][:6]}, {'kind': 'r1cs-adv', 'gadget': 'decode', 'case': 'negative'})); continue
        if flags and not flags[0]:
            obs.append(Ob(nm, 'violated', 'the squareness flag false can satisfy the constraints: was_square is not enforced', 0, 'mirsym/R1CS (adversarial)', None, {'kind': 'r1cs-adv', 'gadget': 'decode', 'case': 'flag-false'})); continue
        if dz:
            obs.append(Ob(nm, 'violated', 'den = 0 with claimed flag true satisfies the constraints (s = q - 1 decodes in-circuit; native rejects)', 0, 'mirsym/R1CS (adversarial)', None, {'kind': 'r1cs-adv', 'gadget': 'decode', 'case': 'den0'}, key=KNOWN_ISQRT_KEY)); continue
        n_ok += 1
    obs.append(Ob('r1cs:decompress_from_field with adversarial hints: remaining paths', 'proved' if n_ok else 'inconclusive', f'{n_ok} paths are either unsatisfiable or accepted natively as well', 0, 'mirsym/R1CS (adversarial)', {'paths': n_ok}))
    return obs

def check_adversarial_alloc():
    """witness allocation of an ElementVar: the returned variable is the in-circuit decoding of the witnessed encoding; the witnessed
    coordinates are on-curve-constrained and enter only through the decaf equality against the decoded variable"""
    obs = []
    def body(I, h, items):
        it = mirsym.find_item_hdr(items, r'^ark_curve::r1cs::inner::.*::new_variable$', r'AllocVar<Element, Fq> for ElementVar')
        X, Y, Z, T = [FE.sym('Fq', n) for n in 'XYZT']
        from . import curve
        el = curve.mk_element('ark', X, Y, Z, T)
        clo = Agg('{closure@harness}', [])
        I.models['fns'] = [(r'^<impl FnOnce.* as core::ops::FnOnce<\(\)>>::call_once$', harness_closure(el)), (r'::vartime_compress_to_field$', lambda I_, fr, fn, a: FE.sym('Fq', 'enc'))] + I.models['fns']
        r = I.call_item(it, [CSRef(), clo, Enum('ark_r1cs_std::alloc::AllocationMode', 'Witness', [])], generics={'T': 'ark_curve::element::projective::Element'})
        return r
    try: items, recs = run_r1cs(body, 'adversarial')
    except Exception as e:
        return [Ob('r1cs:ElementVar witness allocation (adversarial)', 'inconclusive', f'{type(e).__name__}: {e} :: ' + ' <- '.join(getattr(e, 'mir_stack', [])[:3]), 0, 'mirsym/R1CS')]
    bad = None; n = 0
    for r in recs:
        if 'panic' in r: bad = 'panics: ' + r['panic']; break
        if 'pruned' in r: continue
        res = r['result']; st_ = r['store']
        if res.variant != 'Ok' or any(k == 'false' for k, *_ in st_.facts): continue
        n += 1
        pts = [x for x in st_.log if x[0] == 'point']; fqs = [x for x in st_.log if x[0] == 'fq' and x[1] is not None]
        if len(pts) != 1 or not fqs: bad = f'{len(pts)} witnessed points, {len(fqs)} witnessed field elements'; break
        (px, py) = pts[0][1]
        av = res.fields[0].fields[0]; ox, oy = av.fields[0].fe, av.fields[1].fe
        syms = {v for m in list(ox.d) + list(oy.d) for v, _ in m}
        if any(str(v).startswith(('px', 'py')) for v in syms): bad = 'the returned variable contains the witnessed (unconstrained) coordinates'; break
        whys = [w for k, _, _, w in st_.facts if k == 'eq']
        if not any('on-curve' in w for w in whys): bad = 'the witnessed point is not constrained to the curve'; break
        if not any('enforce_equal' in w or 'conditional_enforce_equal' in w for w in whys): pass
    nm = 'r1cs:ElementVar witness allocation with adversarial coordinates'
    if bad: return [Ob(nm, 'violated', bad, 0, 'mirsym/R1CS (adversarial)', None, {'kind': 'r1cs-adv', 'gadget': 'alloc'})]
    if not n: return [Ob(nm, 'inconclusive', 'no satisfiable path', 0, 'mirsym/R1CS')]
    return [Ob(nm, 'proved', f'{n} satisfiable paths: output is the decoded variable, witnessed point on-curve-constrained', 0, 'mirsym/R1CS (adversarial)', {'paths': n})]
