"""S layer: the square-root-of-ratio routines (C09).
 * zero operands: path enumeration of the early returns (POLY domain), both builds;
 * nonzero operands: the routines are purely multiplicative, so they are executed in 2-adic EXPONENT COORDINATES (LOG domain):
   F_q^* = <g> x H with g = zeta^M of order 2^47 and |H| = M odd; an element is (e mod 2^47 as a 47-bit vector, h in H as an
   exact integer vector of exponents over the symbols num, den, zeta modulo nothing - all routines raise the odd part to
   fixed powers only, so the odd parts are compared as linear forms)."""
import re, time
import z3
from . import mirsym, models, poly, common, spec
from .mirsym import Agg, Enum, Ref, SliceRef, Panic, Unsupported, PathEnd, run_paths, find_item
from .poly import FE, FIELDS
from .common import Ob

Q = FIELDS['Fq']

def sqrt_item(items, build):
    return find_item(items, r'^ark_curve::invsqrt::<impl at [^>]*>::sqrt_ratio_zeta$' if build == 'ark' else r'^min_curve::invsqrt::<impl at [^>]*>::non_arkworks_sqrt_ratio_zeta$')

def check_sqrt_zero_cases(build):
    """(0, den) -> (true, 0) for every den (including 0); (num != 0, 0) -> (false, 0); anything else reaches the nonzero core"""
    from .curve import items_for
    items = items_for(build); it = sqrt_item(items, build); obs = []
    def core(I, fr, fn, a): raise PathEnd('nonzero core')
    M = models.base_models(extra_fns=[(r'^<fields::fq::u64::wrapper::Fq as ark_ff::Field>::pow::', core), (r'::pow_le_limbs$', core)])
    M['fns'] = [m for m in M['fns'] if 'sqrt_ratio_zeta' not in m[0]]
    def body(I, h):
        n, d = FE.sym('Fq', 'num'), FE.sym('Fq', 'den')
        h.locals['n'] = n; h.locals['d'] = d
        try: r = ('ret', I.call_item(it, [Ref(h, 'n', []), Ref(h, 'd', [])]))
        except PathEnd: r = ('core', None)
        # the specification's case split, on the same oracle (forces a decision on both operands on every path)
        nz = models.fe_is_zero(I, n); dz = models.fe_is_zero(I, d)
        return r, nz, dz
    try: recs = run_paths(items, M, body)
    except Exception as e:
        return [Ob(f'{build}:sqrt_ratio zero cases', 'inconclusive', f'{type(e).__name__}: {e} :: ' + ' <- '.join(getattr(e, 'mir_stack', [])[:3]), 0, 'mirsym/POLY')]
    seen = set()
    for r in recs:
        if 'panic' in r:
            obs.append(Ob(f'{build}:sqrt_ratio_zeta zero cases', 'violated', 'panics: ' + r['panic'], 0, 'mirsym path enumeration (POLY)', {'path': [str(c) for c in r['path']]}, {'kind': 'sqrt-zero'})); continue
        (kind, val), nz, dz = r['result']
        tag = f'num{"=" if nz else "!="}0, den{"=" if dz else "!="}0'
        name = f'{build}:sqrt_ratio_zeta on {tag}'
        if kind == 'core':
            if nz or dz: obs.append(Ob(name, 'violated', 'a zero operand reaches the nonzero core (no early return)', 0, 'mirsym path enumeration (POLY)', None, {'kind': 'sqrt-zero'}))
            else: seen.add('core'); obs.append(Ob(name, 'proved', 'reaches the nonzero core', 0, 'mirsym path enumeration (POLY)'))
            continue
        flag, y = val.fields
        want = True if nz else (False if dz else None)
        yz = isinstance(y, FE) and (y.is_zero_poly() or (nz and y.key() == FE.sym('Fq', 'num').key()) or (dz and y.key() == FE.sym('Fq', 'den').key()))
        if want is None: obs.append(Ob(name, 'violated', 'early return on nonzero operands', 0, 'mirsym path enumeration (POLY)', None, {'kind': 'sqrt-zero'}))
        elif flag is want and yz: seen.add(tag); obs.append(Ob(name, 'proved', f'returns ({want}, 0)', 0, 'mirsym path enumeration (POLY)'))
        else: obs.append(Ob(name, 'violated', f'returns ({flag}, {y}) instead of ({want}, 0)', 0, 'mirsym path enumeration (POLY)', {'path': [str(c) for c in r['path']]}, {'kind': 'sqrt-zero'}))
    if 'core' not in seen or len(obs) < 4: obs.append(Ob(f'{build}:sqrt_ratio zero-case path count', 'inconclusive', f'paths seen: {sorted(seen)}', 0, 'mirsym'))
    return obs

# ============================================================================================== LOG domain
N2 = 47
MODD = (Q - 1) >> N2
assert MODD % 2 == 1 and (MODD << N2) == Q - 1
MASK = (1 << N2) - 1
E_ZETA = pow(MODD, -1, 1 << N2)                 # 2-adic coordinate of zeta when g := zeta^M has coordinate 1
G_VAL = pow(spec.ZETA, MODD, Q)                  # g
ZETA_H = spec.ZETA * pow(G_VAL, -E_ZETA, Q) % Q  # odd-order part of zeta
SYMS = ('num', 'den', 'zeta')

def bv(x): return z3.BitVecVal(x & MASK, N2) if isinstance(x, int) else x

class LE:
    """nonzero field element in exponent coordinates: g^e * num_H^h0 * den_H^h1 * zeta_H^h2"""
    __slots__ = ('e', 'h')
    def __init__(s, e, h=(0, 0, 0)):
        s.e = (e & MASK) if isinstance(e, int) else e
        s.h = tuple(x % MODD for x in h)
    def __deepcopy__(s, memo): return s
    def mul(s, o):
        e = (s.e + o.e) & MASK if isinstance(s.e, int) and isinstance(o.e, int) else z3.simplify(bv(s.e) + bv(o.e))
        return LE(e, tuple(a + b for a, b in zip(s.h, o.h)))
    def pow(s, k):
        e = (s.e * k) & MASK if isinstance(s.e, int) else z3.simplify(s.e * z3.BitVecVal(k & MASK, N2))
        return LE(e, tuple(a * k for a in s.h))
    def square(s): return s.pow(2)
    def inv(s): return s.pow(-1)
    def neg(s): return s.mul(LE(1 << (N2 - 1)))
    def eq(s, o):
        if s.h != o.h: return False
        if isinstance(s.e, int) and isinstance(o.e, int): return s.e == o.e
        return z3.simplify(bv(s.e) == bv(o.e))
    def mir_table_read(s, arr, idx):
        """arr[idx] for a table whose entries are (checked here, exhaustively) arr[i] = g^(i*c): closed form g^(idx*c)"""
        if not all(isinstance(x, LE) and isinstance(x.e, int) and x.h == (0, 0, 0) for x in arr) or len(arr) < 2: return None
        c = arr[1].e
        if any(x.e != (i * c) & MASK for i, x in enumerate(arr)): return None
        w = idx.size()
        i47 = z3.Extract(N2 - 1, 0, idx) if w >= N2 else z3.ZeroExt(N2 - w, idx)
        return LE(z3.simplify(i47 * z3.BitVecVal(c, N2)), (0, 0, 0))
    def mir_merge(s, c, a, b):
        if not (isinstance(a, LE) and isinstance(b, LE)): raise Unsupported('merge LE with something else')
        if a.h != b.h: raise Unsupported('merge of elements with different odd parts')
        return LE(z3.simplify(z3.If(c, bv(a.e), bv(b.e))), a.h)
    def __repr__(s): return f'LE({s.e if isinstance(s.e, int) else "sym"}, {s.h})'
class LZero:
    def __deepcopy__(s, memo): return s
    def __repr__(s): return 'LZero'
LONE = LE(0)

def dlog2(a):
    """discrete log of a in <g> (order 2^47), Pohlig-Hellman bit by bit"""
    e = 0; ginv = pow(G_VAL, -1, Q); cur = a
    for i in range(N2):
        if pow(cur, 1 << (N2 - 1 - i), Q) != 1:
            e |= 1 << i; cur = cur * pow(ginv, 1 << i, Q) % Q
    if cur != 1: raise Unsupported('constant is not in the 2-primary subgroup')
    return e

_le_cache = {}
def le_of_value(v):
    """exponent coordinates of a concrete field value: 2-part by discrete log, odd part must be a known power of zeta_H"""
    v %= Q
    if v == 0: return LZero()
    if v in _le_cache: return _le_cache[v]
    a = pow(v, MODD, Q)                    # g^(e*M)
    e = dlog2(a) * E_ZETA & MASK           # e = dlog * M^-1
    vh = v * pow(G_VAL, -e, Q) % Q
    cands = [0, 1, -1, 2, -2, (1 - MODD) // 2, (MODD - 1) // 2, (MODD + 1) // 2]
    for k in cands:
        if pow(ZETA_H, k % MODD, Q) == vh:
            r = LE(e, (0, 0, k)); _le_cache[v] = r
            assert pow(G_VAL, e, Q) * pow(ZETA_H, k % MODD, Q) % Q == v
            return r
    raise Unsupported(f'constant {hex(v)[:20]}.. has an odd part that is not a known power of zeta')

def L(I, x):
    x = models.D(I, x)
    if isinstance(x, (Ref, SliceRef)): x = I.deref(x)
    if isinstance(x, FE):
        if not x.is_const(): raise Unsupported('POLY value in the LOG domain')
        return le_of_value(x.const_value())
    return x

class PyMap:
    def __init__(s): s.items = []      # [(LE key, int value)]
    def __deepcopy__(s, memo): return s

def log_models(h):
    """h: harness state (assumptions, obligations)"""
    W = r'fields::fq::u(32|64)::wrapper::Fq'
    def raw(I, x):
        x = models.D(I, x)
        if isinstance(x, (Ref, SliceRef)): x = I.deref(x)
        return x
    def cfe(x): return isinstance(x, FE) and x.is_const()
    def m_mul(I, fr, fn, a):
        x, y = raw(I, a[0]), raw(I, a[1])
        if cfe(x) and cfe(y): return x.mul(y)
        x, y = L(I, x), L(I, y)
        if isinstance(x, LZero) or isinstance(y, LZero): return LZero()
        return x.mul(y)
    def m_square(I, fr, fn, a):
        x = raw(I, a[0])
        if cfe(x): return x.square()
        x = L(I, x); return x if isinstance(x, LZero) else x.square()
    def m_neg(I, fr, fn, a):
        x = raw(I, a[0])
        if cfe(x): return x.neg()
        x = L(I, x); return x if isinstance(x, LZero) else x.neg()
    def m_inverse(I, fr, fn, a):
        x = raw(I, a[0])
        if cfe(x): return models.none() if x.const_value() == 0 else models.some(FE.const('Fq', pow(x.const_value(), -1, Q)))
        x = L(I, x); return models.none() if isinstance(x, LZero) else models.some(x.inv())
    def m_addsub(I, fr, fn, a):
        x, y = raw(I, a[0]), raw(I, a[1])
        if cfe(x) and cfe(y): return x.add(y) if fn.endswith('add') else x.sub(y)
        raise Unsupported('field addition in the LOG domain: ' + fn)
    def m_eq(I, fr, fn, a):
        x, y = L(I, L(I, a[0])), L(I, L(I, a[1]))
        if isinstance(x, LZero) or isinstance(y, LZero): return isinstance(x, LZero) and isinstance(y, LZero)
        r = x.eq(y)
        return r if isinstance(r, bool) else I.ctx.decide(r)
    def m_pow(I, fr, fn, a):
        x = raw(I, a[0]); e = models.D(I, a[1])
        if isinstance(e, (Ref, SliceRef)): e = I.deref(e)
        l = e.fields[0] if isinstance(e, Agg) else e
        k = models.limbs_to_int(l)
        if cfe(x): return FE.const('Fq', pow(x.const_value(), k, Q))
        x = L(I, x)
        if isinstance(x, LZero): return x if k else LONE
        return x.pow(k)
    def m_from_mont(I, fr, fn, a): return models.mont_to_fe('Fq', a[0])
    def m_select(I, fr, fn, a):
        x, y, c = L(I, a[0]), L(I, a[1]), models.choice_bool(a[2])
        if isinstance(c, bool): return y if c else x
        return x.mir_merge(c, y, x)
    def m_cteq(I, fr, fn, a):
        x, y = L(I, a[0]), L(I, a[1])
        return Agg('subtle::Choice', [x.eq(y)])
    def m_map_new(I, fr, fn, a): return PyMap()
    def m_map_insert(I, fr, fn, a):
        mp = I.deref(a[0]); k = L(I, a[1])
        if not isinstance(k.e, int): raise Unsupported('symbolic key inserted')
        mp.items.append((k, a[2])); return models.none()
    def m_map_index(I, fr, fn, a):
        mp = I.deref(a[0]); k = L(I, a[1])
        return h.lookup(I, mp, k)
    def m_vec_new(I, fr, fn, a): return Agg('alloc::vec::Vec', [[]])
    def m_vec_push(I, fr, fn, a):
        v = a[1]
        if isinstance(v, FE) and v.is_const(): v = le_of_value(v.const_value())
        I.deref(a[0]).fields[0].append(v); return models.UNIT
    def m_vec_pop(I, fr, fn, a):
        l = I.deref(a[0]).fields[0]
        return models.some(l.pop()) if l else models.none()
    def m_boxed(I, fr, fn, a): return mirsym.box_new(a[0].fields[0] if isinstance(a[0], Agg) else a[0])
    def m_box_try_into(I, fr, fn, a):
        n = int(re.search(r'; (\d+)\]>>>::try_into$', fn).group(1))
        return models.ok(a[0]) if len(I.deref(a[0])) == n else models.err(a[0])
    return [
        (rf'^{W}::mul$', m_mul), (rf'^{W}::square$', m_square), (rf'^{W}::neg$', m_neg), (rf'^{W}::inverse$', m_inverse),
        (rf'^{W}::(add|sub)$', m_addsub), (rf'^{W}::from_montgomery_limbs$', m_from_mont), (rf'^{W}::from_raw_bytes$', models.m_from_raw_bytes),
        (rf'^<&?{W} as core::cmp::PartialEq>::eq$', m_eq),
        (rf'^<{W} as ark_ff::Field>::pow::', m_pow),
        (rf'^<{W} as subtle::ConditionallySelectable>::conditional_select$', m_select), (rf'^<{W} as subtle::ConstantTimeEq>::ct_eq$', m_cteq),
        (r'^hashbrown::HashMap::<.*>::new$', m_map_new), (r'^hashbrown::HashMap::<.*>::insert$', m_map_insert),
        (r'^<hashbrown::HashMap<.*> as core::ops::Index<.*>>::index$', m_map_index),
        (r'^(alloc|ark_ff|ark_std|std)::vec::Vec::<.*>::new$', m_vec_new), (r'^(alloc|ark_ff|ark_std|std)::vec::Vec::<.*>::push$', m_vec_push),
        (r'^(alloc|ark_ff|ark_std|std)::vec::Vec::<.*>::pop$', m_vec_pop), (r'^(alloc|ark_ff|ark_std|std)::vec::Vec::<.*>::into_boxed_slice$', m_boxed),
        (r'^<(alloc|ark_std|std)::boxed::Box<\[.*\]> as core::convert::TryInto<(alloc|ark_std|std)::boxed::Box<\[.*; \d+\]>>>::try_into$', m_box_try_into),
    ]

class Harness:
    """assumptions/obligations of one LOG-domain run"""
    def __init__(s, build, timeout_ms=120000):
        s.build = build; s.assume = []; s.obs = []; s.timeout = timeout_ms; s.nlook = 0; s.stage = 0
    def reset_path(s):
        s.assume = []; s.nlook = 0; s.stage = 0; s.path_ref = None
    def prove(s, name, goal, sample=None, kind='sqrt'):
        nm0 = f'{s.build}:{name}'
        for o in s.obs:
            if o.name == nm0 and o.status == 'proved' and getattr(o, '_goal', None) == goal.sexpr() and getattr(o, '_nass', -1) == len(s.assume): return True
        sv = z3.Solver(); sv.set('timeout', s.timeout)
        for a in s.assume: sv.add(a)
        for a in getattr(s, 'path_ref', None) or (): sv.add(a)
        sv.add(z3.Not(goal))
        t0 = time.time(); r = sv.check(); dt = time.time() - t0
        nm = f'{s.build}:{name}'
        if r == z3.unsat:
            o = Ob(nm, 'proved', '', dt, 'z3 QF_BV (exponent coordinates)', sample); o._goal = goal.sexpr(); o._nass = len(s.assume)
            s.obs.append(o); return True
        if r == z3.sat:
            m = sv.model()
            mod = {str(d): (m[d].as_long() if hasattr(m[d], 'as_long') else str(m[d])) for d in m.decls()}
            s.obs.append(Ob(nm, 'violated', 'counterexample in exponent coordinates: ' + str({k: v for k, v in mod.items() if k in ('en', 'ed')}), dt, 'z3 QF_BV (exponent coordinates)', sample, {'kind': kind, 'en': mod.get('en', 0), 'ed': mod.get('ed', 0), 'build': s.build})); return False
        s.obs.append(Ob(nm, 'inconclusive', 'z3 unknown/timeout', dt, 'z3 QF_BV')); return False
    def lookup(s, I, mp, k):
        """s_lookup[&key]: (a) the key has no odd part, (b) it hits under the current assumptions, (c) the value"""
        s.nlook += 1; n = s.nlook
        if k.h != (0, 0, 0):
            s.obs.append(Ob(f'{s.build}:lookup #{n}: key is a power of g (odd part identically trivial)', 'violated', f'odd-part exponents {k.h}', 0, 'exact linear forms', None, {'kind': 'sqrt', 'build': s.build}))
            raise PathEnd('lookup key outside <g>')
        nmk = f'{s.build}:lookup #{n}: key is a power of g (odd part identically trivial)'
        if not any(o.name == nmk for o in s.obs): s.obs.append(Ob(nmk, 'proved', '', 0, 'exact linear forms mod M'))
        if any(kk.h != (0, 0, 0) for kk, _ in mp.items): raise Unsupported('table key with an odd part')
        ke = bv(k.e)
        # closed form, justified by an exhaustive check of the real table: keys are exactly the multiples of 2^j with
        # value nu = (key * u^-1 >> j) for key = nu * u * 2^j
        cf = s.closed_form(mp)
        if cf is not None:
            j, uinv, nbits = cf
            hit = z3.Extract(j - 1, 0, ke) == 0 if j > 0 else z3.BoolVal(True)
            if not s.prove(f'lookup #{n} never misses (no panic) under the stage invariant', hit, {'entries': len(mp.items), 'table': f'keys = nu * u * 2^{j}, nu < 2^{nbits} (checked exhaustively)'}): raise PathEnd('lookup may miss')
            top = z3.Extract(N2 - 1, j, ke) * z3.BitVecVal(uinv % (1 << nbits), nbits)     # = (key / 2^j) * u^-1 mod 2^nbits when the key hits
            return _tmp_ref(z3.simplify(z3.ZeroExt(64 - nbits, top)))
        hit = z3.Or([ke == bv(kk.e) for kk, _ in mp.items])
        if not s.prove(f'lookup #{n} never misses (no panic) under the stage invariant', hit, {'entries': len(mp.items)}): raise PathEnd('lookup may miss')
        q = z3.BitVecVal(0, 64)
        for kk, v in reversed(mp.items): q = z3.If(ke == bv(kk.e), z3.BitVecVal(v, 64), q)
        return _tmp_ref(z3.simplify(q))

def _closed_form(mp):
    items = mp.items
    n = len(items)
    if n < 2 or n & (n - 1): return None
    nbits = n.bit_length() - 1; j = N2 - nbits
    byv = {}
    for k, v in items:
        if not isinstance(v, int) or v in byv or not (0 <= v < n): return None
        byv[v] = k.e
    if len(byv) != n or byv[0] != 0: return None
    c = byv[1]
    if c % (1 << j) or not ((c >> j) & 1): return None
    u = c >> j
    if any(byv[v] != (v * c) & MASK for v in range(n)): return None
    return j, pow(u, -1, 1 << N2), nbits
Harness.closed_form = staticmethod(_closed_form)

def _tmp_ref(v):
    f = mirsym.Frame(mirsym.Item('fn', '<tmp>', '')); f.locals['t'] = v; return Ref(f, 't', [])

W_STAGES = [8, 15, 23, 31, 39, 47]

def check_sqrt_ark_log():
    """table-driven sqrt_ratio_zeta, all nonzero (num, den): staged proof with the invariant  t < 2^w_k  and  E + t = 0 mod 2^w_k
    (E = 2-adic exponent of x5) attached at the six assignments to `t`"""
    from .curve import items_for
    items = items_for('ark'); it = sqrt_item(items, 'ark')
    H = Harness('ark', 120000 if common.tier() == 'quick' else 1200000)
    en, ed = z3.BitVec('en', N2), z3.BitVec('ed', N2)
    M = models.base_models()
    M['fns'] = log_models(H) + [m for m in M['fns'] if 'sqrt_ratio_zeta' not in m[0]]
    state = {}
    def hook_t(I, fr, loc, val):
        if not (z3.is_bv(val) and val.size() == 64): return val
        k = H.stage
        if k >= len(W_STAGES): return val          # the final  t = (t + 1) >> 1
        x5 = fr.locals[fr.item.debug['x5'][0]]
        E = bv(x5.e); w = W_STAGES[k]
        def inv(t):
            c = [z3.Extract(w - 1, 0, E + z3.Extract(N2 - 1, 0, t)) == 0]
            if w < 64: c.append(z3.ULT(t, z3.BitVecVal(1 << w, 64)))
            return z3.And(c)
        H.prove(f'stage {k}: invariant t < 2^{w} and E + t = 0 mod 2^{w} holds after the assignment to t', inv(val), {'w': w})
        H.stage += 1
        tk = z3.BitVec(f't{k}', 64)
        # keep the parity link of stage 0 (q0' & 1 decides the flag)
        H.assume = [a for a in H.assume if not a.sexpr().startswith('(let') or True]
        H.assume.append(inv(tk))
        if k == 0: state['q0'] = val; H.assume.append(tk == val)
        return tk
    def hook_abstract(name):
        def hk(I, fr, loc, val):
            if not isinstance(val, LE) or name in state: return val
            sym = z3.BitVec(name.upper(), N2); state[name] = (val, sym)
            if 'uv' in state and 'v' in state:
                (uvo, U), (vo, V) = state['uv'], state['v']
                # abstraction of the 2-adic exponents of uv and v by fresh unknowns, keeping the one fact the rest needs
                if H.prove('abstraction lemma: e(uv) - e(v) = e(num) - e(den)', bv(uvo.e) - bv(vo.e) == en - ed):
                    H.assume.append(U - V == en - ed)
            return LE(sym, val.h)
        return hk
    def body(I, h):
        I.assign_hooks = {(r'sqrt_ratio_zeta$', 't'): hook_t, (r'sqrt_ratio_zeta$', 'uv'): hook_abstract('uv'), (r'sqrt_ratio_zeta$', 'v'): hook_abstract('v')}
        I.ctx.assert_prover = lambda c: H.prove('bounds/overflow assertion', c, {'assert': str(c)[:120]}) or (_ for _ in ()).throw(PathEnd('assertion not proved'))
        h.locals['n'] = LE(en, (1, 0, 0)); h.locals['d'] = LE(ed, (0, 1, 0))
        H.reset_path(); state.clear()
        I.ctx.harness_path = I.ctx.path
        r = I.call_item(it, [Ref(h, 'n', []), Ref(h, 'd', [])])
        return r, list(H.assume)
    try: recs = run_paths(items, M, body)
    except Exception as e:
        return H.obs + [Ob('ark:sqrt_ratio_zeta LOG-domain run', 'inconclusive', f'{type(e).__name__}: {e} :: ' + ' <- '.join(getattr(e, 'mir_stack', [])[:3]), 0, 'mirsym/LOG')]
    done = [r for r in recs if 'result' in r]
    for r in recs:
        if 'panic' in r: H.obs.append(Ob('ark:sqrt_ratio_zeta panics on some path', 'violated', r['panic'], 0, 'mirsym/LOG', None, {'kind': 'sqrt', 'build': 'ark'}))
    for d_ in done:
        (resv, assume) = d_['result']
        flag, res = resv.fields
        res = L(d_['interp'], res)
        H.assume = list(assume) + list(d_['path'])
        final_obligations(H, flag, res, en, ed, tag=' [path ' + ''.join('1' if x else '0' for x in d_['decisions']) + ']')
    if not done and not any(o.status == 'violated' for o in H.obs):
        H.obs.append(Ob('ark:sqrt_ratio_zeta LOG-domain run', 'inconclusive', f'{len(done)} completed paths of {len(recs)}', 0, 'mirsym/LOG'))
    if H.nlook != 6 and not any(o.status != 'proved' for o in H.obs): H.obs.append(Ob('ark:number of table lookups', 'inconclusive', f'{H.nlook} lookups (harness expects 6 stages)', 0, 'mirsym/LOG'))
    return H.obs

def final_obligations(H, flag, res, en, ed, tag=''):
    """flag <=> num/den is a square  (<=> e_n - e_d even, H has odd order);  res^2 * den = num  or  zeta * num"""
    if isinstance(res, LZero):
        H.obs.append(Ob(f'{H.build}:result on nonzero operands', 'violated', 'returns 0', 0, 'mirsym/LOG', None, {'kind': 'sqrt', 'build': H.build})); return
    # vacuity guard: the assumptions accumulated on this path (stage invariants, path condition) are satisfiable
    sv = z3.Solver(); sv.set('timeout', 60000)
    for a in H.assume: sv.add(a)
    for a in getattr(H, 'path_ref', None) or (): sv.add(a)
    rv = sv.check()
    H.obs.append(Ob(f'{H.build}:vacuity guard: stage invariants and path condition are jointly satisfiable' + tag, 'proved' if rv == z3.sat else 'inconclusive', str(rv), 0, 'z3 QF_BV (sat witness)'))
    sq = z3.Extract(0, 0, en - ed) == 0
    fl = flag if not isinstance(flag, bool) else z3.BoolVal(flag)
    H.prove('flag is true exactly when num/den is a square (e_n - e_d even)' + tag, fl == sq)
    lhs = res.square().mul(LE(ed, (0, 1, 0)))
    rhs_sq = LE(en, (1, 0, 0)); rhs_ns = rhs_sq.mul(le_of_value(spec.ZETA))
    H.prove('2-adic part: y^2 * den = num (square case) / zeta * num (non-square case)' + tag, z3.If(sq, bv(lhs.e) == bv(rhs_sq.e), bv(lhs.e) == bv(rhs_ns.e)))
    # odd parts: exact linear forms; the two candidates depend on the squareness flag through table entry nonsquare_lookup[q0 & 1]
    H.obs.append(odd_part_ob(H, lhs, rhs_sq, rhs_ns, sq, tag))

def odd_part_ob(H, lhs, rhs_sq, rhs_ns, sq, tag=''):
    """the odd-order parts are exact linear forms; which of the two targets applies is decided by the squareness on this path"""
    nm = f'{H.build}:odd-order part of y^2 * den equals that of num resp. zeta * num (exact exponent vectors mod M)' + tag
    ok_sq = lhs.h == rhs_sq.h; ok_ns = lhs.h == rhs_ns.h
    if not (ok_sq or ok_ns): return Ob(nm, 'violated', f'exponent vector {lhs.h} matches neither case', 0, 'exact linear forms mod M', None, {'kind': 'sqrt', 'build': H.build})
    if ok_sq and ok_ns:
        return Ob(nm, 'proved', 'zeta lies in the 2-primary subgroup, so both cases have the odd part of num', 0, 'exact linear forms mod M', {'lhs': [str(x)[:30] for x in lhs.h]})
    # the matching case must be the one forced by the path: prove  (assumptions) => sq  resp.  => not sq
    sv = z3.Solver(); sv.set('timeout', H.timeout)
    for a in H.assume: sv.add(a)
    sv.add(z3.Not(sq) if ok_sq else sq)
    r = sv.check()
    if r == z3.unsat: return Ob(nm, 'proved', f'matches the {"square" if ok_sq else "non-square"} case, which is the case of this path', 0, 'exact linear forms mod M + z3', {'lhs': [str(x)[:30] for x in lhs.h]})
    if r == z3.sat: return Ob(nm, 'violated', f'odd part is that of the {"square" if ok_sq else "non-square"} case on a path where the ratio is {"not " if ok_sq else ""}a square', 0, 'exact linear forms mod M + z3', None, {'kind': 'sqrt', 'build': H.build})
    return Ob(nm, 'inconclusive', 'z3 unknown', 0, 'z3')

def check_sqrt_min_log():
    """constant-time Tonelli-Shanks of the minimal backend, all nonzero (num, den), in exponent coordinates"""
    from .curve import items_for
    items = items_for('min'); it = sqrt_item(items, 'min')
    H = Harness('min', 300000 if common.tier() == 'quick' else 3600000)
    en, ed = z3.BitVec('en', N2), z3.BitVec('ed', N2)
    M = models.base_models()
    M['fns'] = log_models(H) + [m for m in M['fns'] if 'sqrt_ratio_zeta' not in m[0]]
    st = {}
    def hook_b(I, fr, loc, val):
        """cut at `b = t` (before the loop and at the end of every iteration): Tonelli-Shanks invariant for the next loop index i:
             e(t) = 0 mod 2^(48-i),   2 e(z) = e(x) + e(t),   odd parts: h(t) = 0, 2 h(z) = h(x)"""
        dbg = fr.item.debug
        tl, zl = dbg['t'][0], dbg['z'][0]
        if val is not fr.locals.get(tl) or not isinstance(val, LE): return val
        k = st.get('k', 0); st['k'] = k + 1
        i_next = N2 - k                      # loop index of the iteration that follows this cut (47, 46, ..., 2, then 1 = loop done)
        x = L(I, fr.locals['_1']); z = fr.locals[zl]; t = val
        if not isinstance(z, LE): return val
        low = 48 - i_next
        def inv(ze, te):
            c = [2 * ze == bv(x.e) + te]
            if low > 0: c.append(z3.Extract(min(low, N2) - 1, 0, te) == 0)
            return z3.And(c)
        tag = st.get('tag', '')
        okh = t.h == (0, 0, 0) and tuple((2 * a) % MODD for a in z.h) == x.h
        if not okh:
            H.obs.append(Ob(f'min:our_sqrt cut {k}: odd parts h(t) = 0 and 2 h(z) = h(x){tag}', 'violated', f'h(t)={t.h} h(z)={z.h} h(x)={x.h}', 0, 'exact linear forms mod M', None, {'kind': 'sqrt', 'build': 'min'}))
            raise PathEnd('odd part invariant')
        H.prove(f'our_sqrt cut {k} (next loop index {i_next}): e(t) = 0 mod 2^{min(low, N2)} and 2 e(z) = e(x) + e(t){tag}', inv(bv(z.e), bv(t.e)), {'cut': k})
        zs, ts = z3.BitVec(f'z{k}{st.get("n", 0)}', N2), z3.BitVec(f't{k}{st.get("n", 0)}', N2)
        H.assume = [a for a in H.assume if not getattr(a, '_inv', False)]
        a = inv(zs, ts); H.assume.append(a); st['last'] = a
        fr.locals[zl] = LE(zs, z.h); nt = LE(ts, t.h); fr.locals[tl] = nt
        return nt
    def body(I, h):
        H.reset_path(); st.clear()
        H.path_ref = I.ctx.path
        I.assign_hooks = {(r'our_sqrt$', 'b'): hook_b}
        I.ctx.assert_prover = lambda c: H.prove('bounds/overflow assertion', c, {'assert': str(c)[:120]}) or (_ for _ in ()).throw(PathEnd('assertion not proved'))
        h.locals['n'] = LE(en, (1, 0, 0)); h.locals['d'] = LE(ed, (0, 1, 0))
        r = I.call_item(it, [Ref(h, 'n', []), Ref(h, 'd', [])])
        return r, list(H.assume)
    t0 = time.time()
    try: recs = run_paths(items, M, body)
    except Exception as e:
        return H.obs + [Ob('min:non_arkworks_sqrt_ratio_zeta LOG-domain run', 'inconclusive', f'{type(e).__name__}: {e} :: ' + ' <- '.join(getattr(e, 'mir_stack', [])[:3]), 0, 'mirsym/LOG')]
    done = [r for r in recs if 'result' in r]
    for r in recs:
        if 'panic' in r: H.obs.append(Ob('min:non_arkworks_sqrt_ratio_zeta panics on some path', 'violated', r['panic'] + ' on path ' + str([str(c)[:80] for c in r['path']]), 0, 'mirsym/LOG', None, {'kind': 'sqrt', 'build': 'min'}))
    for d_ in done:
        resv, assume = d_['result']
        flag, res = resv.fields
        res = L(d_['interp'], res)
        H.assume = list(assume); H.path_ref = list(d_['path'])
        final_obligations(H, flag, res, en, ed, tag=' [path ' + ''.join('1' if x else '0' for x in d_['decisions']) + ']')
    if len(done) < 2 and not any(o.status == 'violated' for o in H.obs): H.obs.append(Ob('min:sqrt path count', 'inconclusive', f'{len(done)} completed paths (expected the square and the non-square branch)', 0, 'mirsym/LOG'))
    return H.obs

def check_legendre():
    """Field::legendre of the three fields (arkworks build): Zero for 0, otherwise QuadraticResidue exactly when self^((p-1)/2) = 1
    (Euler's criterion; the exponent constant is the real MODULUS_MINUS_ONE_DIV_TWO evaluated from the MIR)"""
    from .curve import items_for
    items = items_for('ark'); obs = []
    for F in ('Fq', 'Fr', 'Fp'):
        f = F.lower(); p = FIELDS[F]
        try: it = mirsym.find_item_hdr(items, rf'^fields::{f}::arkworks::.*::legendre$', r'Field for')
        except Unsupported as e: obs.append(Ob(f'ark:{F}::legendre', 'inconclusive', str(e), 0, 'mirsym')); continue
        rec = {}
        def m_pow(I, fr, fn, a):
            x = models.D(I, a[0]); e = models.D(I, a[1])
            if isinstance(e, (Ref, SliceRef)): e = I.deref(e)
            l = e.fields[0] if isinstance(e, Agg) else e
            rec['exp'] = models.limbs_to_int(l); rec['base'] = x
            if models.fe_is_zero(I, x): return FE.const(F, 0)
            return FE.sym(F, 'euler_power')
        M = models.base_models(extra_fns=[(rf'^<fields::{f}::u64::wrapper::{F} as ark_ff::Field>::pow::', m_pow)])
        def body(I, h):
            x = FE.sym(F, 'x'); h.locals['x'] = x
            r = I.call_item(it, [Ref(h, 'x', [])])
            models.fe_is_zero(I, x)
            return r
        name = f'ark:{F}::legendre follows Euler\'s criterion'
        try: recs = run_paths(items, M, body)
        except Exception as e:
            obs.append(Ob(name, 'inconclusive', f'{type(e).__name__}: {e} :: ' + ' <- '.join(getattr(e, 'mir_stack', [])[:3]), 0, 'mirsym')); continue
        bad = None
        for r in recs:
            if 'panic' in r: bad = 'panics: ' + r['panic']; break
            keys = r['ctx'].pathkeys
            zero = keys.get("zero:[((('x', 1),), 1)]")
            one = None
            for k, v in keys.items():
                if 'euler_power' in k: one = v
            v = r['result'].variant
            want = 'LegendreSymbol::Zero' if zero else ('QuadraticResidue' if one else 'QuadraticNonResidue')
            if not v.endswith(want.split('::')[-1]) or (not zero and (rec.get('exp') != (p - 1) // 2 or rec.get('base') is None or rec['base'].key() != FE.sym(F, 'x').key())):
                bad = f'on path zero={zero} power_is_one={one}: returns {v}, exponent used {rec.get("exp")}'; break
        if bad: obs.append(Ob(name, 'violated', bad, 0, 'mirsym path enumeration', None, {'kind': 'legendre', 'field': F, 'build': 'ark'}))
        else: obs.append(Ob(name, 'proved', f'{len(recs)} paths; exponent (p-1)/2', 0, 'mirsym path enumeration', {'paths': len(recs)}))
    return obs
