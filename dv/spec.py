"""Independent specification of decaf377 (Penumbra protocol spec, chapter "decaf377"; `ristretto.sage` Decaf_1_1_Point),
written over the POLY domain.  Decisions (signs, squareness, zero tests) go through the same Ctx as the code run, keyed by
canonical polynomials, so that on one path both see the same oracle answers."""
from .poly import FE
from .models import fe_is_negative, fe_is_zero, sqrt_ratio_contract

A = -1
Dd = 3021
ZETA = 2841681278031794617739547238867782961338435681360110683443920362658525667816

def c(v): return FE.const('Fq', v)

def fabs(I, x):
    return x.neg() if fe_is_negative(I, x) else x

def decode(I, s):
    """steps 2-7 of the decoding procedure for a canonically encoded s; returns None on rejection, else (x, y, z, t)"""
    if fe_is_negative(I, s): return None
    ss = s.square()
    u1 = c(1).sub(ss)
    u2 = u1.square().sub(c(4 * Dd).mul(ss))
    r = sqrt_ratio_contract(I, c(1), u2.mul(u1.square()))
    was_square, v = r.fields
    if not was_square: return None
    if fe_is_negative(I, c(2).mul(s).mul(u1).mul(v)): v = v.neg()
    x = c(2).mul(s).mul(v.square()).mul(u1).mul(u2)
    y = c(1).add(ss).mul(v).mul(u1)
    return x, y, c(1), x.mul(y)

def encode(I, X, Y, Z, T):
    amd = c(A - Dd)
    u1 = X.add(T).mul(X.sub(T))
    r = sqrt_ratio_contract(I, c(1), u1.mul(amd).mul(X.square()))
    v = r.fields[1]
    u2 = fabs(I, v.mul(u1))
    u3 = u2.mul(Z).sub(T)
    return fabs(I, amd.mul(v).mul(u3).mul(X))

def elligator(I, r0):
    """optimised Elligator 2 map to the Jacobi quartic, then to extended coordinates (X:Y:Z:T)"""
    a, d = c(A), c(Dd)
    r = c(ZETA).mul(r0.square())
    den = d.mul(r).sub(d.sub(a)).mul(d.sub(a).mul(r).sub(d))
    num = r.add(c(1)).mul(a.sub(c(2).mul(d)))
    x = num.mul(den)
    rr = sqrt_ratio_contract(I, c(1), x)
    iss, isri = rr.fields
    if iss: sgn, twiddle = c(1), c(1)
    else: sgn, twiddle = c(-1), r0
    isri = isri.mul(twiddle)
    s = isri.mul(num)
    t = sgn.neg().mul(isri).mul(s).mul(r.sub(c(1))).mul(a.sub(c(2).mul(d)).square()).sub(c(1))
    if fe_is_negative(I, s) == iss: s = s.neg()
    E = c(2).mul(s); F = c(1).add(a.mul(s.square())); G = c(1).sub(a.mul(s.square())); H = t
    return E.mul(H), F.mul(G), F.mul(H), E.mul(G)      # X, Y, Z, T

def edwards_add(p, q):
    """affine twisted Edwards law, a=-1, d=3021, on projective representatives, result cross-multiplied:
    returns (Xn, Xd, Yn, Yd) with x3 = Xn/Xd, y3 = Yn/Yd as polynomials in the inputs' coordinates"""
    X1, Y1, Z1, _ = p; X2, Y2, Z2, _ = q
    # x = X/Z, y = Y/Z
    xn = X1.mul(Y2).add(Y1.mul(X2))                    # (x1 y2 + y1 x2) * Z1 Z2
    yn = Y1.mul(Y2).add(X1.mul(X2))                    # (y1 y2 - a x1 x2) * Z1 Z2,  a = -1
    zz = Z1.mul(Z2)
    dxy = c(Dd).mul(X1).mul(X2).mul(Y1).mul(Y2)        # d x1 x2 y1 y2 * (Z1 Z2)^2
    zz2 = zz.square()
    # x3 = xn*zz / (zz2 + dxy),  y3 = yn*zz / (zz2 - dxy)
    return xn.mul(zz), zz2.add(dxy), yn.mul(zz), zz2.sub(dxy)
