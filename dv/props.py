"""One function per property: builds the obligation list, runs it, writes evidence, returns the exit code."""
import time
from . import common, par
from .common import Ob, finish

T_RUSTC = 'rustc MIR semantics as modelled by dv/mirsym.py (validated against native runs by the concrete-domain self-test)'
T_ARK = 'arkworks crates (ark-ff, ark-ec, ark-serialize) wherever /repo delegates to them'

def C02(t0):
    from . import curve
    from . import wiring
    jobs = [('min decode algebra', curve.check_decode_algebra, ('min',)), ('ark decode algebra', curve.check_decode_algebra, ('ark',)),
            ('min decode funnel', wiring.check_decode_funnel, ('min',)), ('ark decode funnel', wiring.check_decode_funnel, ('ark',))]
    curve.items_for('min'); curve.items_for('ark')
    obs = par.run_groups(jobs)
    return finish('C02', obs, t0, level='proof',
        functions=['ark_curve::encoding::Encoding::vartime_decompress', 'min_curve::element::Encoding::vartime_decompress', 'fields::fq::ops (operator forms reached)', 'sign::Sign'],
        bounds=['all 2^256 byte strings (bytes symbolic; canonical parse by contract)', 'no loop in scope'],
        trusted=[T_RUSTC, T_ARK, 'contract S (square-root-of-ratio, property C09) and W (wrappers) as stated in DESIGN 2.1'],
        assumptions=['field elements are modelled as polynomials over F_q in the input symbols; sign is an uninterpreted predicate with neg(0)=false, neg(-x)=!neg(x) for x!=0'])

def _warm():
    from . import curve
    curve.items_for('min'); curve.items_for('ark')

def C03(t0):
    from . import curve
    _warm()
    jobs = []
    for b in ('min', 'ark'):
        from . import wiring
        jobs += [(f'{b} encode algebra', curve.check_encode_algebra, (b,)), (f'{b} encode invariance', curve.check_encode_invariance, (b,)),
                 (f'{b} compress/serialise forms', wiring.check_compress_forms, (b,))]
    obs = par.run_groups(jobs)
    return finish('C03', obs, t0, level='proof',
        functions=['Element::vartime_compress_to_field (ark_curve/encoding.rs, min_curve/element.rs)', 'sign::Sign::abs', 'fields::fq::ops operator forms reached'],
        bounds=['all (X,Y,Z,T) symbolic; rescaling factor lam symbolic and nonzero; no loops in scope'],
        trusted=[T_RUSTC, T_ARK, 'contract S (C09) and lemma L-scale derived from it: sqrt_ratio(1, lam^4 D) and sqrt_ratio(1, D) agree in the flag and differ by the factor +-lam^2 (uses: zeta is a non-square, F_q is a field)',
                 'injectivity ("unequal elements encode differently") is the Decaf theorem and is not decided'],
        assumptions=['field elements as polynomials over F_q; sign as an uninterpreted predicate with neg(0)=false, neg(-x)=!neg(x) for x!=0; lam != 0'])

def C07(t0):
    from . import curve
    _warm()
    from . import wiring
    jobs = [(f'{b} elligator', curve.check_elligator, (b,)) for b in ('min', 'ark')] + [(f'{b} hash_to_curve wiring', wiring.check_hash_to_curve, (b,)) for b in ('min', 'ark')]
    obs = par.run_groups(jobs)
    return finish('C07', obs, t0, level='proof',
        functions=['Element::elligator_map (ark_curve/elligator.rs, min_curve/element.rs)', 'ark_curve::constants::{ONE,TWO,ZETA} initialisers', 'TECurveConfig::COEFF_A/COEFF_D'],
        bounds=['all r0 (symbolic); no loops in scope'],
        trusted=[T_RUSTC, T_ARK, 'contract S (C09)', 'equivalence of the optimised map with the unoptimised Elligator 2 map and validity of its image are specification-level theorems'],
        assumptions=['field elements as polynomials over F_q; sign as an uninterpreted predicate'])

def C04(t0):
    from . import group
    _warm()
    jobs = [('ark operator forms', group.sweep_operator_forms, ('ark', ['src/ark_curve/ops/projective.rs', 'src/ark_curve/ops/affine.rs'])),
            ('min operator forms', group.sweep_operator_forms, ('min', ['src/min_curve/ops.rs'])),
            ('ark sums and named methods', group.check_sums_and_named, ('ark',)),
            ('min group law', group.check_min_group_law, ())]
    obs = par.run_groups(jobs)
    return finish('C04', obs, t0, level='proof',
        functions=['every impl of Add/Sub/Neg/Mul/AddAssign/SubAssign/MulAssign in ark_curve/ops/{projective,affine}.rs and min_curve/ops.rs (enumerated from the MIR)',
                   'Sum impls (4), negate, double_in_place, zero/default, conversions', 'min_curve Element::{add, double, neg}'],
        bounds=['operands symbolic (free abelian group / polynomial coordinates); iterator sums over 0..=3 summands (quick) / 0..=5 (thorough)'],
        trusted=[T_RUSTC, T_ARK + ": ark-ec's complete a=-1 twisted Edwards formulas for the inner points", 'the group law is an abelian group law (association/order independence)'],
        assumptions=['arkworks inner-point operations denote +, -, scalar action of the curve group'])

def C17(t0):
    from . import consts
    _warm()
    jobs = [(f'{b} field constants', consts.check_field_constants, (b,)) for b in ('ark', 'min')] + [(f'{b} curve constants', consts.check_curve_constants, (b,)) for b in ('ark', 'min')]
    obs = par.run_groups(jobs)
    return finish('C17', obs, t0, level='proof',
        functions=['every pub const of fields/{fq,fr,fp}.rs, the wrapper constants (u32 and u64), the PrimeField/Field/FftField associated constants of fields/*/arkworks.rs',
                   'ark_curve/constants.rs (incl. Lazy initialisers), ark_curve/edwards.rs (TE and Montgomery coefficients, generator, cofactor), min_curve/constants.rs, Element::{GENERATOR,IDENTITY}'],
        bounds=['ground formulas: no input space, no bound'],
        trusted=[T_RUSTC + ' (constant bodies are evaluated by the interpreter)', 'the three primes q, r, p of BLS12-377 and the small generators 22, 5, 15 are taken from the specification', 'r prime (for order statements)'],
        assumptions=['arkworks MontFp!/BigInt conversions modelled by their documented meaning'])

def C08(t0):
    from . import curve
    _warm()
    obs = par.run_groups([(f'{b} equality/hash/identity coherence', curve.check_equality_coherence, (b,)) for b in ('ark', 'min')])
    return finish('C08', obs, t0, level='proof',
        functions=['PartialEq for Element/AffinePoint (both builds)', 'Hash for Element/AffinePoint', 'Element::is_identity', 'Zero::is_zero', 'AffineRepr::is_zero', '== IDENTITY, == default()'],
        bounds=['all coordinates symbolic; representatives: rescaling by lam != 0, coset shift (-X,-Y,Z,T)'],
        trusted=[T_RUSTC, T_ARK, 'contract S and the scaling lemma (as in C03)', '"equal iff same encoding" additionally needs the Decaf injectivity theorem (not decided); decided here: == is exactly X1*Y2 == Y1*X2, and hashing sees only encoding bytes which C03 shows representation-independent'],
        assumptions=['arkworks inner-point Hash/PartialEq/is_zero modelled by their documented behaviour (affine normalisation; (0,1) test)'])

def C05(t0):
    from . import group, consts
    _warm()
    jobs = [(f'min ladder CT={ct} limbs={n}', group.check_min_ladders, (5, (ct, n))) for ct in (True, False) for n in range(1, 6)] + [ ('min ladder wrappers', group.check_scalar_mul_wiring, ('min',)), ('ark scalar-mul wiring', group.check_scalar_mul_wiring, ('ark',)),
            ('ark Mul forms', group.sweep_operator_forms, ('ark', ['src/ark_curve/ops/projective.rs', 'src/ark_curve/ops/affine.rs'])), ('min Mul forms', group.sweep_operator_forms, ('min', ['src/min_curve/ops.rs'])),
            ('ark group order', consts.check_group_order, ('ark',)), ('min group order', consts.check_group_order, ('min',))]
    obs = par.run_groups(jobs)
    return finish('C05', obs, t0, level='proof',
        functions=['min_curve Element::scalar_mul_both::<true|false>, scalar_mul, scalar_mul_vartime', 'all Mul/MulAssign impls (both builds)', 'Group::mul_bigint, AffineRepr::mul_bigint, Element::vartime_multiscalar_mul', 'Element::GENERATOR (order)'],
        bounds=['ladders: slices of 1..=5 symbolic 64-bit limbs (320 bits, longer than the modulus); longer slices outside the claim', 'multiscalar: 0..=3 pairs (5 in thorough) and unequal lengths',
                'mul_bigint: integers of 1, 4, 5, 6 limbs with concrete values (wiring only)'],
        trusted=[T_RUSTC, T_ARK + ": ark-ec's scalar multiplication / mul_bigint / default VariableBaseMSM for the inner points", 'each ladder step is the group law (C04); group axioms; r prime; "r times any element" is Lagrange on valid representatives'],
        assumptions=['the ladder is interpreted over the free cyclic group generated by its base point (an identity there holds in every group)'])

def C06(t0):
    from . import group, wiring, consts, curve
    _warm()
    jobs = [('ark constructors', group.check_constructors, ()), ('ark decode funnel', wiring.check_decode_funnel, ('ark',)), ('ark curve constants', consts.check_curve_constants, ('ark',)),
            ('ark group order', consts.check_group_order, ('ark',)), ('ark decode algebra (on-curve of decoded points)', curve.check_decode_algebra, ('ark',)),
            ('min decode algebra', curve.check_decode_algebra, ('min',)), ('min curve constants', consts.check_curve_constants, ('min',))]
    obs = par.run_groups(jobs)
    return finish('C06', obs, t0, level='proof',
        functions=['AffineRepr::{zero, generator, from_random_bytes, clear_cofactor, mul_by_cofactor_to_group}', 'Group::generator', 'Default for Element/AffinePoint', 'Distribution<Element|AffinePoint>::sample',
                   'CurveGroup::{normalize_batch, into_affine}', 'ScalarMul::batch_convert_to_mul_base', 'all deserialisers (decode funnel)', 'Element::{GENERATOR, IDENTITY}'],
        bounds=['from_random_bytes: slice lengths 0..=80, bytes symbolic', 'samplers: rejection loop unrolled up to 2 rejections (the loop body is uniform)', 'batch conversions of 0, 1, 3 elements'],
        trusted=[T_RUSTC, T_ARK, 'validity is preserved by the group law, negation, scalar action and affine/projective conversion; the image of Elligator lies in the group; decoded points are valid (on-curve part decided by certificate in C02)',
                 'the Decaf theorem that on-curve points produced by decode are in the image 2E'],
        assumptions=['"valid" is tracked as provenance: a result is valid iff every curve point it contains was produced by decode, a checked constant, Elligator or operations on valid points; arkworks raw-point constructors (from_random_bytes, UniformRand) are the only invalid sources'])
