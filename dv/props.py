"""One function per property: builds the obligation list, runs it, writes evidence, returns the exit code."""
import time
import re
from . import common, par
from .common import Ob, finish

T_RUSTC = 'rustc MIR semantics as modelled by dv/mirsym.py (validated against native runs by the concrete-domain self-test)'
T_ARK = 'arkworks crates (ark-ff, ark-ec, ark-serialize) wherever /repo delegates to them'

def S_ZERO():
    """contract S, zero-operand part (cheap): included by every property whose algebra check replaces the square root by its contract"""
    from . import sqrt
    return [('ark sqrt zero cases (contract S)', sqrt.check_sqrt_zero_cases, ('ark',)), ('min sqrt zero cases (contract S)', sqrt.check_sqrt_zero_cases, ('min',))] + SIGN()
def SIGN():
    """the body behind the uninterpreted sign predicate of the algebra checks (both builds)"""
    from . import fields
    return [('ark sign body (is_nonnegative = parity of the canonical value)', fields.check_sign, ('ark',)), ('min sign body (is_nonnegative = parity of the canonical value)', fields.check_sign, ('min',))]
def W_PARSE():
    """contract W for the canonical 32-byte parse that decoding starts with (both builds)"""
    from . import fields
    return [('ark Fq integers/limbs/bytes/flags (canonical parse, contract W)', fields.check_w_ark, ('Fq',)), ('min Fq checked parsing (contract W)', fields.check_bytes_checked, ('min', 'Fq')),
            ('ark Fq checked parsing', fields.check_bytes_checked, ('ark', 'Fq')), ('min Fq limb/byte packing (contract W)', fields.check_w_u32, ('Fq',))]
def S_FULL():
    from . import sqrt
    return S_ZERO() + [('ark table-driven sqrt, nonzero operands (contract S)', sqrt.check_sqrt_ark_log, ()), ('min Tonelli-Shanks, nonzero operands (contract S)', sqrt.check_sqrt_min_log, ())]

def C02(t0):
    from . import curve
    from . import wiring
    jobs = [('min decode algebra', curve.check_decode_algebra, ('min',)), ('ark decode algebra', curve.check_decode_algebra, ('ark',)),
            ('min decode funnel', wiring.check_decode_funnel, ('min',)), ('ark decode funnel', wiring.check_decode_funnel, ('ark',))] + S_ZERO() + W_PARSE()
    curve.items_for('min'); curve.items_for('ark')
    obs = par.run_groups(_fl(jobs))
    return finish('C02', obs, t0, level='proof',
        functions=['ark_curve::encoding::Encoding::vartime_decompress', 'min_curve::element::Encoding::vartime_decompress', 'fields::fq::ops (operator forms reached)', 'sign::Sign'],
        bounds=['all 2^256 byte strings (bytes symbolic; canonical parse by contract)', 'no loop in scope'],
        trusted=[T_RUSTC, T_ARK, 'contract S (square-root-of-ratio, property C09) and W (wrappers) as stated in DESIGN 2.1'],
        assumptions=['field elements are modelled as polynomials over F_q in the input symbols; sign is an uninterpreted predicate with neg(0)=false, neg(-x)=!neg(x) for x!=0'])

def _fl(jobs, ark_only=False):
    """the field layer (contracts K and W: fiat kernels, wrappers, operator forms, conversions of Fq/Fr/Fp on both backends) below
    every element-level property: a field-level change breaks the element-level property too, so each check decides the layer it
    stands on instead of trusting another check to have done so"""
    from . import fields
    have = {j[0] for j in jobs}
    # decaf377 elements live over Fq (coordinates, encodings) and Fr (scalars); Fp is the base field of the BLS12-377 pairing engine only
    # (C10, C11, C12 and C16 decide it) and is left out here
    def is_fp(name): return bool(re.search(r'\bFp\b|\bfp\b', name))
    extra = [(j[0] + ' [field layer]', j[1], j[2]) for j in fields.jobs_shared() if j[0] not in have and not is_fp(j[0]) and (not ark_only or j[0].startswith('ark') or j[0] == 'Fq::power')]
    return list(jobs) + extra

def _warm():
    from . import curve
    curve.items_for('min'); curve.items_for('ark')

def C03(t0):
    from . import curve
    _warm()
    jobs = []
    for b in ('min', 'ark'):
        from . import wiring
        jobs += [(f'{b} encode algebra', curve.check_encode_algebra, (b,)), (f'{b} encode invariance', curve.check_encode_invariance, (b,)),
                 (f'{b} compress/serialise forms', wiring.check_compress_forms, (b,))]
    jobs += [('ark conversions / unary element functions (coordinate level)', curve.check_unary_poly, ()), ('ark batch normalisation (coordinate level)', curve.check_batch_poly, ())]
    jobs += [('min Element::conditional_select keeps the four coordinates of one operand', curve.check_min_select, ())]
    jobs += S_ZERO()
    obs = par.run_groups(_fl(jobs))
    return finish('C03', obs, t0, level='proof',
        functions=['Element::vartime_compress_to_field (ark_curve/encoding.rs, min_curve/element.rs)', 'sign::Sign::abs', 'fields::fq::ops operator forms reached', 'every Element <-> AffinePoint conversion, into_affine, normalize_batch, batch_convert_to_mul_base, Clone, double_in_place (coordinate level)', 'the field layer (see C10/C11)'],
        bounds=['all (X,Y,Z,T) symbolic; rescaling factor lam symbolic and nonzero; no loops in scope'],
        trusted=[T_RUSTC, T_ARK, 'contract S (C09) and lemma L-scale derived from it: sqrt_ratio(1, lam^4 D) and sqrt_ratio(1, D) agree in the flag and differ by the factor +-lam^2 (uses: zeta is a non-square, F_q is a field)',
                 'injectivity ("unequal elements encode differently") is the Decaf theorem and is not decided'],
        assumptions=['field elements as polynomials over F_q; sign as an uninterpreted predicate with neg(0)=false, neg(-x)=!neg(x) for x!=0; lam != 0'])

def C07(t0):
    from . import curve
    _warm()
    from . import wiring
    jobs = [(f'{b} elligator', curve.check_elligator, (b,)) for b in ('min', 'ark')] + [(f'{b} hash_to_curve wiring', wiring.check_hash_to_curve, (b,)) for b in ('min', 'ark')]
    # hash_to_curve adds two mapped points - possibly the same one (r1 = +-r2): the addition it uses must be the complete law
    from . import group
    jobs += [('min group law (hash_to_curve adds two images)', group.check_min_group_law, ()), ('ark operator forms (hash_to_curve adds two images)', group.sweep_operator_forms, ('ark', ['src/ark_curve/ops/projective.rs']))]
    jobs += S_FULL()
    obs = par.run_groups(_fl(jobs))
    return finish('C07', obs, t0, level='proof',
        functions=['Element::elligator_map (ark_curve/elligator.rs, min_curve/element.rs)', 'ark_curve::constants::{ONE,TWO,ZETA} initialisers', 'TECurveConfig::COEFF_A/COEFF_D'],
        bounds=['all r0 (symbolic); no loops in scope'],
        trusted=[T_RUSTC, T_ARK, 'contract S (C09)', 'equivalence of the optimised map with the unoptimised Elligator 2 map and validity of its image are specification-level theorems'],
        assumptions=['field elements as polynomials over F_q; sign as an uninterpreted predicate'])

def C04(t0):
    from . import group, curve
    _warm()
    jobs = [('ark operator forms', group.sweep_operator_forms, ('ark', ['src/ark_curve/ops/projective.rs', 'src/ark_curve/ops/affine.rs'])),
            ('min operator forms', group.sweep_operator_forms, ('min', ['src/min_curve/ops.rs'])),
            ('ark sums and named methods', group.check_sums_and_named, ('ark',)),
            ('min group law', group.check_min_group_law, ()),
            ('ark conversions / unary element functions (coordinate level)', curve.check_unary_poly, ()), ('ark negate (coordinate level)', curve.check_negate_poly, ())]
    obs = par.run_groups(_fl(jobs))
    return finish('C04', obs, t0, level='proof',
        functions=['every impl of Add/Sub/Neg/Mul/AddAssign/SubAssign/MulAssign in ark_curve/ops/{projective,affine}.rs and min_curve/ops.rs (enumerated from the MIR)',
                   'Sum impls (4), negate, double_in_place, zero/default, conversions', 'min_curve Element::{add, double, neg}'],
        bounds=['operands symbolic (free abelian group / polynomial coordinates); iterator sums over 0..=3 summands (quick) / 0..=5 (thorough)'],
        trusted=[T_RUSTC, T_ARK + ": ark-ec's complete a=-1 twisted Edwards formulas for the inner points", 'the group law is an abelian group law (association/order independence)'],
        assumptions=['arkworks inner-point operations denote +, -, scalar action of the curve group'])

def C17(t0):
    from . import consts
    _warm()
    jobs = [(f'{b} field constants', consts.check_field_constants, (b,)) for b in ('ark', 'min')] + [(f'{b} curve constants', consts.check_curve_constants, (b,)) for b in ('ark', 'min')]
    # the constants of the 32-bit wrappers are built by the const fn from_montgomery_limbs (64-bit literals split into 32-bit limbs): the
    # constant evaluator uses its contract, so the function itself is decided here on all limb values
    from . import fields
    jobs += [(f'min {F} limb-level wrapper functions (from_montgomery_limbs builds the 32-bit constants)', fields.check_w_u32, (F,)) for F in ('Fq', 'Fr', 'Fp')]
    obs = par.run_groups(jobs)
    return finish('C17', obs, t0, level='proof',
        functions=['every pub const of fields/{fq,fr,fp}.rs, the wrapper constants (u32 and u64), the PrimeField/Field/FftField associated constants of fields/*/arkworks.rs',
                   'ark_curve/constants.rs (incl. Lazy initialisers), ark_curve/edwards.rs (TE and Montgomery coefficients, generator, cofactor), min_curve/constants.rs, Element::{GENERATOR,IDENTITY}'],
        bounds=['ground formulas: no input space, no bound'],
        trusted=[T_RUSTC + ' (constant bodies are evaluated by the interpreter)', 'the three primes q, r, p of BLS12-377 and the small generators 22, 5, 15 are taken from the specification', 'r prime (for order statements)'],
        assumptions=['arkworks MontFp!/BigInt conversions modelled by their documented meaning'])

def C08(t0):
    from . import curve
    _warm()
    obs = par.run_groups(_fl([(f'{b} equality/hash/identity coherence', curve.check_equality_coherence, (b,)) for b in ('ark', 'min')] +
                             [('ark conversions / unary element functions (coordinate level)', curve.check_unary_poly, ()), ('ark batch normalisation (coordinate level)', curve.check_batch_poly, ())]))
    return finish('C08', obs, t0, level='proof',
        functions=['PartialEq for Element/AffinePoint (both builds)', 'Hash for Element/AffinePoint', 'Element::is_identity', 'Zero::is_zero', 'AffineRepr::is_zero', '== IDENTITY, == default()'],
        bounds=['all coordinates symbolic; representatives: rescaling by lam != 0, coset shift (-X,-Y,Z,T)'],
        trusted=[T_RUSTC, T_ARK, 'contract S and the scaling lemma (as in C03)', '"equal iff same encoding" additionally needs the Decaf injectivity theorem (not decided); decided here: == is exactly X1*Y2 == Y1*X2, and hashing sees only encoding bytes which C03 shows representation-independent'],
        assumptions=['arkworks inner-point Hash/PartialEq/is_zero modelled by their documented behaviour (affine normalisation; (0,1) test)'])

def C05(t0):
    from . import group, consts
    _warm()
    jobs = [(f'min ladder CT={ct} limbs={n}', group.check_min_ladders, (5, (ct, n))) for ct in (True, False) for n in range(1, 6)] + [ ('min ladder wrappers', group.check_scalar_mul_wiring, ('min',)), ('ark scalar-mul wiring', group.check_scalar_mul_wiring, ('ark',)),
            ('ark Mul forms', group.sweep_operator_forms, ('ark', ['src/ark_curve/ops/projective.rs', 'src/ark_curve/ops/affine.rs'])), ('min Mul forms', group.sweep_operator_forms, ('min', ['src/min_curve/ops.rs'])),
            ('ark group order', consts.check_group_order, ('ark',)), ('min group order', consts.check_group_order, ('min',))]
    from . import curve
    jobs += [('min Element::conditional_select keeps the four coordinates of one operand (the ladder check models it as a merge)', curve.check_min_select, ())]
    # likewise the ladder run models `Element + Element` and `Element::double` of the minimal build by the group operation: their bodies are decided here too (as in C04)
    jobs += [('min group law (each ladder step: Add, double, Neg bodies against the affine law)', group.check_min_group_law, ())]
    obs = par.run_groups(_fl(jobs))
    return finish('C05', obs, t0, level='proof',
        functions=['min_curve Element::scalar_mul_both::<true|false>, scalar_mul, scalar_mul_vartime', 'all Mul/MulAssign impls (both builds)', 'Group::mul_bigint, AffineRepr::mul_bigint, Element::vartime_multiscalar_mul', 'Element::GENERATOR (order)'],
        bounds=['ladders: slices of 1..=5 symbolic 64-bit limbs (320 bits, longer than the modulus); longer slices outside the claim', 'multiscalar: 0..=3 pairs (5 in thorough) and unequal lengths',
                'mul_bigint: integers of 1, 4, 5, 6 limbs with concrete values (wiring only)'],
        trusted=[T_RUSTC, T_ARK + ": ark-ec's scalar multiplication / mul_bigint / default VariableBaseMSM for the inner points", 'each ladder step of the minimal build is the group law: decided here by the same obligations as C04 (min group law); group axioms; r prime; "r times any element" is Lagrange on valid representatives'],
        assumptions=['the ladder is interpreted over the free cyclic group generated by its base point (an identity there holds in every group)'])

def C06(t0):
    from . import group, wiring, consts, curve
    _warm()
    jobs = [('ark constructors', group.check_constructors, ()), ('ark decode funnel', wiring.check_decode_funnel, ('ark',)), ('ark curve constants', consts.check_curve_constants, ('ark',)),
            ('ark group order', consts.check_group_order, ('ark',)), ('ark decode algebra (on-curve of decoded points)', curve.check_decode_algebra, ('ark',)),
            ('min decode algebra', curve.check_decode_algebra, ('min',)), ('min curve constants', consts.check_curve_constants, ('min',)),
            ('ark batch normalisation (coordinate level)', curve.check_batch_poly, ()), ('ark conversions / unary element functions (coordinate level)', curve.check_unary_poly, ()),
            ('min Element::conditional_select keeps the four coordinates of one operand', curve.check_min_select, ())] + S_ZERO()
    obs = par.run_groups(_fl(jobs))
    return finish('C06', obs, t0, level='proof',
        functions=['AffineRepr::{zero, generator, from_random_bytes, clear_cofactor, mul_by_cofactor_to_group}', 'Group::generator', 'Default for Element/AffinePoint', 'Distribution<Element|AffinePoint>::sample',
                   'CurveGroup::{normalize_batch, into_affine}', 'ScalarMul::batch_convert_to_mul_base', 'all deserialisers (decode funnel)', 'Element::{GENERATOR, IDENTITY}'],
        bounds=['from_random_bytes: slice lengths 0..=80, bytes symbolic', 'samplers: rejection loop unrolled up to 2 rejections (the loop body is uniform)', 'batch conversions of 0, 1, 3 elements (provenance) and 0..=3 (4 thorough) symbolic valid elements at coordinate level, every zero-test path'],
        trusted=[T_RUSTC, T_ARK, 'validity is preserved by the group law, negation, scalar action and affine/projective conversion; the image of Elligator lies in the group; decoded points are valid (on-curve part decided by certificate in C02)',
                 'the Decaf theorem that on-curve points produced by decode are in the image 2E'],
        assumptions=['"valid" is tracked as provenance: a result is valid iff every curve point it contains was produced by decode, a checked constant, Elligator or operations on valid points; arkworks raw-point constructors (from_random_bytes, UniformRand) are the only invalid sources'])

def C09(t0):
    from . import sqrt, consts
    _warm()
    jobs = [('ark sqrt zero cases', sqrt.check_sqrt_zero_cases, ('ark',)), ('min sqrt zero cases', sqrt.check_sqrt_zero_cases, ('min',)),
            ('ark table-driven sqrt (LOG)', sqrt.check_sqrt_ark_log, ()), ('min Tonelli-Shanks (LOG)', sqrt.check_sqrt_min_log, ()),
            ('legendre', sqrt.check_legendre, ()), ('ark field constants (SQRT_PRECOMP etc.)', consts.check_field_constants, ('ark',)),
            ('ark curve constants (zeta, M, G, ...)', consts.check_curve_constants, ('ark',)), ('min curve constants', consts.check_curve_constants, ('min',))]
    obs = par.run_groups(_fl(jobs))
    return finish('C09', obs, t0, level='proof',
        functions=['ark_curve::invsqrt::{SquareRootTables::new, Fq::sqrt_ratio_zeta} (incl. the Lazy tables, evaluated from their real initialiser)', 'min_curve::invsqrt::{non_arkworks_sqrt_ratio_zeta, our_sqrt, pow_le_limbs}',
                   'Field::legendre (Fq, Fr, Fp)', 'constants used by the routines'],
        bounds=['all pairs (num, den) in Fq x Fq: zero operands by path enumeration; nonzero operands with symbolic 47-bit 2-adic exponents and exact odd-part exponent vectors (no bound)',
                'loops: all have concrete trip counts after constant evaluation (256-entry tables, 46 Tonelli-Shanks iterations)'],
        trusted=[T_RUSTC, 'F_q^* is cyclic of order 2^47 * M (M odd); checked ground: q - 1 = 2^47 M, zeta non-square, G = zeta^M', 'ark-ff Field::sqrt (Tonelli-Shanks over our SQRT_PRECOMP constants, which are checked) and Field::pow',
                 'the stage invariants (E + t = 0 mod 2^w_k; Tonelli-Shanks loop invariant) are harness annotations: each is proved from the previous one on the real code, none is assumed'],
        assumptions=['table entries are replaced by their closed form g^(i*c) only after an exhaustive concrete check of all entries of the real table'])

def _jobs_C02():
    from . import curve, wiring
    return [('min decode algebra', curve.check_decode_algebra, ('min',)), ('ark decode algebra', curve.check_decode_algebra, ('ark',)),
            ('min decode funnel', wiring.check_decode_funnel, ('min',)), ('ark decode funnel', wiring.check_decode_funnel, ('ark',))]
def _jobs_C03():
    from . import curve, wiring
    jobs = []
    for b in ('min', 'ark'):
        jobs += [(f'{b} encode algebra', curve.check_encode_algebra, (b,)), (f'{b} encode invariance', curve.check_encode_invariance, (b,)), (f'{b} compress/serialise forms', wiring.check_compress_forms, (b,))]
    jobs += [('ark conversions / unary element functions (coordinate level)', curve.check_unary_poly, ()), ('ark batch normalisation (coordinate level)', curve.check_batch_poly, ())]
    jobs += [('min Element::conditional_select keeps the four coordinates of one operand', curve.check_min_select, ())]
    return jobs

def C01(t0):
    """derived: C01 = C02 (decode = spec decode) + C03 (encode = spec encode, representation independent) + contract S + sign convention + Decaf bijection theorem"""
    from . import curve, group
    _warm()
    jobs = _jobs_C02() + _jobs_C03() + S_FULL() + W_PARSE() + [('ark negate/named element methods', group.check_sums_and_named, ('ark',)), ('ark negate keeps the representation invariant (coordinate level)', curve.check_negate_poly, ())]
    obs = par.run_groups(_fl(jobs))
    return finish('C01', obs, t0, level='proof',
        functions=['vartime_decompress, vartime_compress_to_field, vartime_compress (both builds)', 'both square-root routines', 'sign::Sign', 'all decoding/encoding entry points', 'Element::negate'],
        bounds=['as C02, C03, C09: all byte strings, all coordinates, slice lengths 0..=80'],
        trusted=[T_RUSTC, T_ARK, 'the Decaf bijection theorem for (a, d, q) = (-1, 3021, q): spec.decode and spec.encode are mutually inverse on valid representatives; every element reachable by arithmetic is a valid representative',
                 ],
        assumptions=['C01 is derived: code decode = spec decode and code encode = spec encode on all inputs, plus the theorem; a VIOLATION is printed only for a natively reproduced round-trip failure'])

def C12(t0):
    """derived: both builds are compared with the SAME specification on all inputs; duplicated literals are equal"""
    from . import curve, group, wiring, consts, fields
    _warm()
    jobs = _jobs_C02() + _jobs_C03() + S_FULL()
    jobs += [(f'{b} elligator', curve.check_elligator, (b,)) for b in ('min', 'ark')] + [(f'{b} hash_to_curve wiring', wiring.check_hash_to_curve, (b,)) for b in ('min', 'ark')]
    jobs += [('ark operator forms', group.sweep_operator_forms, ('ark', ['src/ark_curve/ops/projective.rs', 'src/ark_curve/ops/affine.rs'])), ('min operator forms', group.sweep_operator_forms, ('min', ['src/min_curve/ops.rs'])),
             ('min group law', group.check_min_group_law, ())] + [(f'min ladder CT={ct} limbs={n}', group.check_min_ladders, (5, (ct, n))) for ct in (True, False) for n in (1, 2, 5)]
    jobs += [(f'{b} equality/identity coherence', curve.check_equality_coherence, (b,)) for b in ('ark', 'min')]
    jobs += [(f'{b} field constants', consts.check_field_constants, (b,)) for b in ('ark', 'min')] + [(f'{b} curve constants', consts.check_curve_constants, (b,)) for b in ('ark', 'min')]
    jobs += fields.jobs_shared()
    obs = par.run_groups(jobs)
    return finish('C12', obs, t0, level='proof',
        functions=['every operation both builds offer: decode, encode, Elligator map and two-input hash, group and scalar operations, equality/identity, field parsing/serialisation/arithmetic, constants'],
        bounds=['as in C02, C03, C04, C05, C07, C08, C09, C10, C11, C17'],
        trusted=[T_RUSTC, T_ARK, 'A == spec and B == spec imply A == B within the same bounds; the only freedom the contracts leave (which square root is returned) does not reach any shared observable: abs(), the sign fix of decode and the sign fix of Elligator are applied to it, shown by the same symbolic runs'],
        assumptions=['derived property: no transcript comparison of two binaries is made by the solver; replay compares both native builds with the common reference'])

def C10(t0):
    from . import fields
    _warm()
    obs = par.run_groups(fields.jobs_C10())
    return finish('C10', obs, t0, level='proof',
        functions=['every Add/Sub/Mul/Div/Neg/*Assign impl of fields/{fq,fr,fp}/ops.rs (both builds)', 'Sum/Product impls', 'Field::{double, double_in_place, neg_in_place, square, square_in_place, inverse, inverse_in_place, from_base_prime_field, frobenius_map_in_place}, Zero/One', 'Fq::power',
                   'fields/{fq,fr,fp}/u32/fiat.rs: {add, sub, opp, mul, square, from_montgomery, to_montgomery} (source parsed, integer-exact), {addcarryx, subborrowx, mulx, cmovznz}_u32, nonzero, selectznz, to_bytes, from_bytes, set_one, msat (MIR, bit-vectors)',
                   'fields/{fq,fr,fp}/u32/wrapper.rs: which kernel each arithmetic method calls, limb/byte packing, conditional_select, ct_eq'],
        bounds=['operands symbolic (no bound); iterator sums/products over 0..=3 elements (5 in thorough); power: exponent slices of 0..=3 (5) symbolic 64-bit limbs',
                'fiat kernels: all operands below p (to_montgomery: all 32n-bit inputs); straight-line code, no unrolling bound; per-query solver cap 150 s x2 seeds (quick) / 1200 s x3 (thorough)'],
        trusted=[T_RUSTC, T_ARK + ': ark-ff Montgomery arithmetic behind the u64 wrappers', 'contract W for inversion on the 32-bit backend (fiat divstep iteration): not decided, outside the claim'],
        assumptions=['field elements as polynomials over F_p; inverse as a fresh symbol with x*inv = 1', 'fiat kernels: products of two symbolic 32-bit words are fresh integer atoms (over-approximation), quotient digits read off the code as a hint (untrusted: only used inside the proved equation)'])

def C11(t0):
    from . import fields
    _warm()
    obs = par.run_groups(fields.jobs_C11())
    return finish('C11', obs, t0, level='proof',
        functions=['from_le_bytes_mod_order / from_be_bytes_mod_order (inherent and PrimeField)', 'PrimeField::{from_bigint, into_bigint}', 'CanonicalSerializeWithFlags / CanonicalDeserializeWithFlags (EmptyFlags, TEFlags, SWFlags)', 'impl FromStr for Fq/Fr/Fp (arkworks build)'],
        bounds=['byte strings of every length 0..=200 (bytes symbolic); all limb / byte values symbolic', 'FromStr: strings of 0..=24 arbitrary chars (quick) / 0..=90 (thorough), digit values as free field symbols; longer strings outside the claim; Display is compared natively only'],
        trusted=[T_RUSTC, T_ARK, 'FIELD_SIZE_POWER_OF_TWO = 2^(8N) mod p is C17; the 32-bit conversions rest on the fiat kernels to_montgomery (decided for unreduced inputs) / from_montgomery / to_bytes / from_bytes, which this check decides (dv/fiat.py)'],
        assumptions=['flag types modelled by their documented bit layout', 'str::chars / Chars::next / char::to_digit(_, 10) / u64::from(u32) modelled by their documented meaning (an arbitrary char is a decimal digit or not: forked)', 'stubs: core::fmt argument construction and _eprint (the stray ark_std::dbg! at the top of Fr::from_str) have empty bodies'])

def C16(t0):
    from . import consts, fields
    _warm()
    jobs = [('bls12_377 configuration constants', consts.check_bls_config, ()), ('ark Fp field constants', consts.check_field_constants, ('ark',)),
            ('ark Fp integers/limbs/bytes/flags (point (de)serialisation goes through these)', fields.check_w_ark, ('Fp',)), ('ark Fp checked parsing', fields.check_bytes_checked, ('ark', 'Fp')),
            ('ark Fp operator forms', fields.check_field_ops, ('ark', 'Fp')), ('ark Fp sums/products/methods', fields.check_field_iter_and_methods, ('ark', 'Fp')), ('ark Fp byte reduction', fields.check_mod_order, ('ark', 'Fp')),
            ('ark Fp ordering and hashing (ark-ec picks the sign flag of a compressed point by comparing y with -y)', fields.check_ord_hash, ('ark', 'Fp'))]
    obs = par.run_groups(jobs)
    return finish('C16', obs, t0, level='proof',
        functions=['every constant of ark_curve/bls12_377.rs (Fp2/Fp6/Fp12 non-residues and Frobenius coefficient tables, G1/G2 curve coefficients, generators, cofactors and their inverses, X, X_IS_NEGATIVE, TWIST_TYPE)',
                   'the Fp trait implementations the generic engine is instantiated with (arithmetic forms, from_bigint, flagged (de)serialisation)'],
        bounds=['ground formulas for the constants (no input space); Fp conversions as in C11'],
        trusted=[T_RUSTC, 'the engine is the generic ark-ec Bls12 code; equality of the configuration and of the field implementation is taken to be equality of the engine: pairing outputs "for all inputs", bilinearity and non-degeneracy are NOT decided',
                 'reference values: the decimal literals in the source of ark-bls12-377 0.4.0 found in the cargo registry'],
        assumptions=['partial claim: constants and the Fp trait layer only (DESIGN §3 C16)'])

def C13(t0):
    from . import r1cs
    _warm()
    jobs = [(f'honest synthesis: {g}', r1cs.check_honest_gadgets, (g,)) for g in ('isqrt', 'sign gadgets', 'compress_to_field', 'decompress_from_field', 'elligator_map', 'is_eq')]
    jobs += [('lazy forcing', r1cs.check_lazy_forcing, ())] + [(f'ElementVar op #{i} variant {v}', r1cs.check_r1cs_ops, ((i, v),)) for i in range(10) for v in (0, 1)] + S_ZERO()[:1]
    from . import r1cs2
    jobs += [('equality enforcement, selection, constants, zero, inner negate/double', r1cs2.check_r1cs_semantics, ()),
             ('gadgets on undecoded operands decode them (accept only what the native decoder accepts)', r1cs2.check_validation_forced, ())]
    obs = par.run_groups(_fl(jobs, ark_only=True))
    return finish('C13', obs, t0, level='proof',
        functions=['r1cs/fqvar_ext.rs: isqrt, is_nonnegative, is_negative, abs', 'r1cs/inner.rs: compress_to_field, decompress_from_field, elligator_map, is_eq', 'r1cs/lazy.rs: element(), encoding() in all orders',
                   'r1cs/ops.rs + element.rs: Add/Sub/AddAssign/SubAssign forms, double_in_place, negate (incl. cached encodings)',
                   'inner + outer ElementVar: conditional_enforce_equal / conditional_enforce_not_equal / is_eq / conditionally_select / constant / zero; inner negate / double_in_place'],
        bounds=['all gadget inputs symbolic; lazy forcing: all sequences of length <= 3 (4 in thorough) from both initial states; operator forms with and without a previously forced encoding'],
        trusted=[T_RUSTC, 'ark-r1cs-std gadget methods (FpVar arithmetic, inverse, is_eq, select, to_bits_le, Boolean logic, AffineVar allocation and addition) modelled by their documented contracts; satisfaction of the concrete arkworks constraint system is not re-derived',
                 'contract S (C09) for the out-of-circuit hint', 'allocation-mode matrix (constant/input) and scalar multiplication gadgets are outside the claim'],
        assumptions=['partial claim (DESIGN §3 C13): value equality with the native code and satisfiability exactly when the native operation succeeds, on every path of the honest synthesis'])

def C14(t0):
    from . import r1cs
    _warm()
    jobs = [('isqrt with adversarial hints', r1cs.check_adversarial_isqrt, ()), ('decompress_from_field with adversarial hints', r1cs.check_adversarial_decode, ()), ('witness allocation with adversarial coordinates', r1cs.check_adversarial_alloc, ())]
    from . import r1cs2
    jobs += [('every witness-allocation impl with adversarial coordinates', r1cs2.check_adversarial_allocs, ()), ('laziness cannot bypass validation', r1cs2.check_validation_forced, ()),
             ('equality enforcement is decaf equality (a satisfied enforce_not_equal on equal elements is a soundness defect)', r1cs2.check_r1cs_semantics, ())]
    obs = par.run_groups(_fl(jobs, ark_only=True))
    return finish('C14', obs, t0, level='proof',
        functions=['FqVarExtension::isqrt (free flag and root witnesses)', 'inner::ElementVar::decompress_from_field', 'AllocVar<Element, Fq> and AllocVar<AffinePoint, Fq> for the inner and the outer ElementVar (witness mode)',
                   'every function of r1cs/element.rs and r1cs/ops.rs on operands allocated from a bare field element: the full in-circuit decoding occurs once per undecoded operand (accessors that hand the encoding back excepted)'],
        bounds=['all gadget inputs and all hint values symbolic (free witnesses); the Boolean hint is enumerated'],
        trusted=[T_RUSTC, 'ark-r1cs-std gadget contracts (as C13)', 'zeta is a non-square, F_q is a field (no nilpotents); uniqueness of the sign-normalised square root', 'soundness of the arkworks constraint system for the modelled gadget methods'],
        assumptions=['partial claim (DESIGN §3 C14): the enforced facts of each path imply the native contract; hints reach the output only through constrained variables'])


def C15(t0):
    from . import shape
    _warm()
    jobs = [('shape traces of every r1cs gadget function (proving paths + setup mode)', shape.check_shapes, ()), ('public-input clause', shape.check_public_input, ()),
            ('pinned Groth16 keys (native ground oracle)', shape.check_groth16_native, ())]
    # "proofs verify for every witness" needs, besides matching keys, that the honest prover's assignment satisfies the circuit for
    # every input: the completeness half of C13 (honest synthesis of every gadget, operator forms, equality/selection/constants)
    from . import r1cs, r1cs2
    jobs += [(f'honest synthesis: {g}', r1cs.check_honest_gadgets, (g,)) for g in ('isqrt', 'sign gadgets', 'compress_to_field', 'decompress_from_field', 'elligator_map', 'is_eq')]
    jobs += [(f'ElementVar op #{i} variant {v}', r1cs.check_r1cs_ops, ((i, v),)) for i in range(10) for v in (0, 1)] + [('equality enforcement, selection, constants', r1cs2.check_r1cs_semantics, ())]
    obs = par.run_groups(jobs)
    return finish('C15', obs, t0, level='proof',
        functions=['every function of src/ark_curve/r1cs/{element,inner,fqvar_ext,ops,lazy}.rs (enumerated from the MIR; 127 scenarios: operand states element/encoding, allocation modes, Boolean operands)',
                   'AllocVar<Element, Fq>::new_variable in Input mode; ToConstraintField<Fq> for Element', 'tests/groth16_gadgets.rs against tests/test_vectors (native run, outside the solver claim)'],
        bounds=['all operand values symbolic and opaque; every value-dependent branch of the gadget code forks and both arms are compared; setup mode = values absent (`value()` fails on variables, arkworks value closures not evaluated; the caller hands over a dummy value because the crate evaluates the caller closure eagerly)',
                'compositions (the seven test circuits) follow from the per-function result because the circuits themselves contain no value-dependent control flow - this step is argued, not decided',
                'clause 3 (every witness / every other public input under the pinned keys) is NOT decided: the 11 Groth16 tests of the repository are run natively (10 random cases per circuit)'],
        trusted=[T_RUSTC, 'ark-r1cs-std gadgets are value-oblivious: the variables and constraints they emit depend only on the sequence of calls, the kinds of the operands (constant / variable) and the values of constants',
                 'ark-groth16, ark-relations for the native run'],
        assumptions=['partial claim: clauses 1 and 2 of C15 decided symbolically over all inputs; clause 3 exercised natively only'])
