"""One function per property: builds the obligation list, runs it, writes evidence, returns the exit code."""
import time
from . import common, par
from .common import Ob, finish

T_RUSTC = 'rustc MIR semantics as modelled by dv/mirsym.py (validated against native runs by the concrete-domain self-test)'
T_ARK = 'arkworks crates (ark-ff, ark-ec, ark-serialize) wherever /repo delegates to them'

def C02(t0):
    from . import curve
    jobs = [('min decode algebra', curve.check_decode_algebra, ('min',)), ('ark decode algebra', curve.check_decode_algebra, ('ark',))]
    curve.items_for('min'); curve.items_for('ark')
    obs = par.run_groups(jobs)
    return finish('C02', obs, t0, level='proof',
        functions=['ark_curve::encoding::Encoding::vartime_decompress', 'min_curve::element::Encoding::vartime_decompress', 'fields::fq::ops (operator forms reached)', 'sign::Sign'],
        bounds=['all 2^256 byte strings (bytes symbolic; canonical parse by contract)', 'no loop in scope'],
        trusted=[T_RUSTC, T_ARK, 'contract S (square-root-of-ratio, property C09) and W (wrappers) as stated in DESIGN 2.1'],
        assumptions=['field elements are modelled as polynomials over F_q in the input symbols; sign is an uninterpreted predicate with neg(0)=false, neg(-x)=!neg(x) for x!=0'])
