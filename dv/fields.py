"""F and W layers of the three fields (C10, C11): operator/method forms (POLY), iterator sums/products, exponentiation
(free cyclic group + branch merging), byte-string reduction of any length, canonical parsing, limb packing of the wrappers."""
import re, time
import z3
from . import mirsym, models, poly, common, spec
from .mirsym import Agg, Enum, Ref, SliceRef, Panic, Unsupported, PathEnd, run_paths, find_item
from .poly import FE, FIELDS, LIMBS64
from .common import Ob
from .models import D, IterObj

FN = {'Fq': 'fq', 'Fr': 'fr', 'Fp': 'fp'}
NB = {'Fq': 32, 'Fr': 32, 'Fp': 48}
def wrapper_of(build): return 'u64' if build == 'ark' else 'u32'
def fty(build, F): return f'fields::{FN[F]}::{wrapper_of(build)}::wrapper::{F}'

def _items(build):
    from .curve import items_for
    return items_for(build)

def _run(items, M, body, name, obs, **kw):
    try: return run_paths(items, M, body, **kw)
    except Exception as e:
        obs.append(Ob(name, 'inconclusive', f'{type(e).__name__}: {e} :: ' + ' <- '.join(getattr(e, 'mir_stack', [])[:3]), 0, 'mirsym')); return []

# ---------------------------------------------------------------------------------------------- operator forms (POLY)
def check_field_ops(build, F):
    """every impl of Add/Sub/Mul/Div/Neg/*Assign in fields/<f>/ops.rs: result is the field operation of its operands
    (division: result * rhs = lhs, and exactly the zero divisor panics)"""
    from .curve import compare_fe, certificate, side_polys
    items = _items(build); obs = []
    M = models.base_models()
    f = FN[F]; fil = f'src/fields/{f}/ops.rs'
    todo = []
    for k, it in items.items():
        if it.kind != 'fn' or not it.impl_at or it.impl_at[0] != fil: continue
        tr, targs, selfty = mirsym.Interp._hdr_parse(it.impl_header())
        if tr in ('Add', 'Sub', 'Mul', 'Div', 'Neg', 'AddAssign', 'SubAssign', 'MulAssign', 'DivAssign'): todo.append((it, tr))
    for it, tr in sorted(todo, key=lambda x: x[0].impl_at):
        name = f'{build}:{fil}:{it.impl_at[1]} `{it.impl_header()}`'
        def body(I, h, it=it, tr=tr):
            args = []; vals = []
            for i, (loc, ty) in enumerate(it.params):
                v = FE.sym(F, 'ab'[i]); vals.append(v)
                if ty.strip().startswith('&'):
                    h.locals['ab'[i]] = v; args.append(Ref(h, 'ab'[i], []))
                else: args.append(v)
            res = I.call_item(it, args)
            if tr.endswith('Assign'): res = I.deref(args[0])
            return res, vals
        nz_div = 0
        for r in _run(items, M, body, name, obs):
            pn = name + (' path ' + ''.join('1' if d else '0' for d in r['decisions']) if r['decisions'] else '')
            bz = r['ctx'].pathkeys.get("zero:[((('b', 1),), 1)]")
            if 'panic' in r:
                if tr in ('Div', 'DivAssign') and bz: obs.append(Ob(pn, 'proved', 'division by zero panics (unwrap on None)', 0, 'mirsym path enumeration'))
                else: obs.append(Ob(pn, 'violated', 'panics: ' + r['panic'], 0, 'mirsym/POLY', None, {'kind': 'fieldop', 'field': F, 'where': f'{fil}:{it.impl_at[1]}'}))
                continue
            res, vals = r['result']
            a = vals[0]; b = vals[1] if len(vals) > 1 else None
            if tr in ('Div', 'DivAssign'):
                if bz: obs.append(Ob(pn, 'violated', 'division by zero does not panic', 0, 'mirsym/POLY', None, {'kind': 'fieldop', 'field': F, 'where': f'{fil}:{it.impl_at[1]}'})); continue
                st, dt, info = certificate(res.mul(b).sub(a), side_polys_f(r['side']))
                nz_div += 1
                obs.append(Ob(pn, 'proved' if st == 'proved' else 'violated', 'result * rhs = lhs: ' + info, dt, 'cofactor certificate + z3 identity', None, None if st == 'proved' else {'kind': 'fieldop', 'field': F, 'where': f'{fil}:{it.impl_at[1]}'}))
                continue
            want = {'Add': lambda: a.add(b), 'Sub': lambda: a.sub(b), 'Mul': lambda: a.mul(b), 'Neg': lambda: a.neg(), 'AddAssign': lambda: a.add(b), 'SubAssign': lambda: a.sub(b), 'MulAssign': lambda: a.mul(b)}[tr]()
            o = compare_fe(pn, res, want, {}, rec=r)
            if o.status == 'violated': o.model = {'kind': 'fieldop', 'field': F, 'where': f'{fil}:{it.impl_at[1]}'}
            obs.append(o)
    if len(todo) < 25: obs.append(Ob(f'{build}:{fil} operator forms found', 'inconclusive', f'only {len(todo)}', 0, 'mirsym'))
    return obs

def side_polys_f(side):
    out = []
    for s in side:
        if s[0] == 'inv': out.append(s[1].mul(s[2]).sub(FE.const(s[1].field, 1)))
    return out

def check_field_iter_and_methods(build, F):
    """Sum / Product over 0..=3 elements (values and references), Default, and the arkworks Field methods that are not operators"""
    from .curve import compare_fe
    items = _items(build); obs = []
    M = models.base_models()
    f = FN[F]; fil = f'src/fields/{f}/ops.rs'
    nmax = 3 if common.tier() == 'quick' else 5
    for k, it in sorted(items.items()):
        if it.kind != 'fn' or not it.impl_at or it.impl_at[0] != fil or k.split('::')[-1] not in ('sum', 'product'): continue
        hdr = it.impl_header(); is_ref = '&' in hdr.split(' for ')[0]
        prod = k.endswith('product')
        for n in range(0, nmax + 1):
            name = f'{build}:{fil}:{it.impl_at[1]} `{hdr}` over {n} element(s)'
            def body(I, h, it=it, n=n, is_ref=is_ref):
                xs = []
                for i in range(n):
                    v = FE.sym(F, f'x{i}')
                    if is_ref: h.locals[f'x{i}'] = v; xs.append(Ref(h, f'x{i}', []))
                    else: xs.append(v)
                return I.call_item(it, [IterObj(xs)])
            for r in _run(items, M, body, name, obs):
                if 'panic' in r: obs.append(Ob(name, 'violated', 'panics: ' + r['panic'], 0, 'mirsym/POLY', None, {'kind': 'iter', 'field': F, 'prod': prod, 'n': n, 'ref': is_ref})); continue
                want = FE.const(F, 1 if prod else 0)
                for i in range(n): want = want.mul(FE.sym(F, f'x{i}')) if prod else want.add(FE.sym(F, f'x{i}'))
                o = compare_fe(name, r['result'], want, {}, rec=r)
                if o.status == 'violated': o.model = {'kind': 'iter', 'field': F, 'prod': prod, 'n': n, 'ref': is_ref}
                obs.append(o)
    if build == 'ark':
        A = rf'^fields::{f}::arkworks::<impl at [^>]*>::'
        x = FE.sym(F, 'x')
        def meth(nm, hdr_re, mk, want, post=None):
            try: it = mirsym.find_item_hdr(items, A + nm + '$', hdr_re)
            except Unsupported as e: obs.append(Ob(f'ark:{F}::{nm}', 'inconclusive', str(e), 0, 'mirsym')); return
            name = f'ark:<{F} as {hdr_re.split(" for")[0]}>::{nm}'
            def body(I, h):
                h.locals['x'] = x
                r = I.call_item(it, mk(I, h))
                return post(I, h, r) if post else r
            for r in _run(items, M, body, name, obs):
                pn = name + (' path ' + ''.join('1' if d else '0' for d in r['decisions']) if r['decisions'] else '')
                if 'panic' in r: obs.append(Ob(pn, 'violated', 'panics: ' + r['panic'], 0, 'mirsym/POLY', None, {'kind': 'method', 'field': F, 'name': nm})); continue
                w = want(r)
                got = r['result']
                if isinstance(w, FE):
                    o = compare_fe(pn, got, w, {}, rec=r)
                    if o.status == 'violated': o.model = {'kind': 'method', 'field': F, 'name': nm}
                    obs.append(o)
                else:
                    obs.append(Ob(pn, 'proved' if got == w else 'violated', f'returns {got!r}', 0, 'mirsym path enumeration', None, None if got == w else {'kind': 'method', 'field': F, 'name': nm}))
        selfref = lambda I, h: [Ref(h, 'x', [])]
        meth('double', 'Field for', selfref, lambda r: x.add(x))
        meth('double_in_place', 'Field for', selfref, lambda r: x.add(x), post=lambda I, h, r: I.deref(r))
        meth('neg_in_place', 'Field for', selfref, lambda r: x.neg(), post=lambda I, h, r: I.deref(r))
        meth('square', 'Field for', selfref, lambda r: x.mul(x))
        meth('square_in_place', 'Field for', selfref, lambda r: x.mul(x), post=lambda I, h, r: I.deref(r))
        meth('from_base_prime_field', 'Field for', lambda I, h: [x], lambda r: x)
        meth('frobenius_map_in_place', 'Field for', lambda I, h: [Ref(h, 'x', []), 3], lambda r: x, post=lambda I, h, r: h.locals['x'])
        meth('extension_degree', 'Field for', lambda I, h: [], lambda r: 1)
        zkey = "zero:[((('x', 1),), 1)]"
        meth('is_zero', 'Zero for', selfref, lambda r: bool(r['ctx'].pathkeys.get(zkey)))
        meth('zero', 'Zero for', lambda I, h: [], lambda r: FE.const(F, 0))
        meth('one', 'One for', lambda I, h: [], lambda r: FE.const(F, 1))
        meth('is_one', 'One for', selfref, lambda r: bool(r['ctx'].pathkeys.get(models.zero_key(x.sub(FE.const(F, 1))))))
        def inv_want(r):
            return None
        # inverse / inverse_in_place: None exactly for zero, otherwise x * result = 1
        for nm in ('inverse', 'inverse_in_place'):
            try: it = mirsym.find_item_hdr(items, A + nm + '$', 'Field for')
            except Unsupported as e: obs.append(Ob(f'ark:{F}::{nm}', 'inconclusive', str(e), 0, 'mirsym')); continue
            name = f'ark:<{F} as Field>::{nm}: None exactly for 0, otherwise x * result = 1'
            def body(I, h, it=it):
                h.locals['x'] = x
                r = I.call_item(it, [Ref(h, 'x', [])])
                if r.variant == 'Some':
                    v = r.fields[0]
                    if isinstance(v, Ref): v = I.deref(v)
                    return 'Some', v
                return 'None', None
            from .curve import certificate
            for r in _run(items, M, body, name, obs):
                if 'panic' in r: obs.append(Ob(name, 'violated', 'panics', 0, 'mirsym/POLY', None, {'kind': 'method', 'field': F, 'name': nm})); continue
                z = r['ctx'].pathkeys.get(zkey); var, v = r['result']
                if z: good = var == 'None'
                else:
                    good = var == 'Some' and certificate(x.mul(v).sub(FE.const(F, 1)), side_polys_f(r['side']))[0] == 'proved'
                obs.append(Ob(name + f' [x {"=" if z else "!="} 0]', 'proved' if good else 'violated', var, 0, 'mirsym path enumeration + certificate', None, None if good else {'kind': 'method', 'field': F, 'name': nm}))
    return obs

# ---------------------------------------------------------------------------------------------- exponentiation
def check_power():
    """Fq::power(exp): for exponent slices of 1..=3 (5 in thorough) symbolic limbs the result is self^(sum limb_i 2^(64 i));
    interpreted in the free cyclic group generated by the base (multiplication = addition of exponents), branches merged"""
    from .group import LP
    obs = []
    for build in ('ark', 'min'):
        items = _items(build)
        it = find_item(items, r'^fields::fq::<impl at [^>]*>::power$')
        W = fty(build, 'Fq').replace('::', '::')
        def m_mul(I, fr, fn, a):
            x, y = D(I, a[0]), D(I, a[1])
            if isinstance(x, FE) and x.is_const() and x.const_value() == 1: x = LP(0)
            if isinstance(y, FE) and y.is_const() and y.const_value() == 1: y = LP(0)
            if isinstance(x, LP) and isinstance(y, LP): return x.add(y)
            return NotImplemented
        def m_square(I, fr, fn, a):
            x = D(I, a[0]); return x.add(x) if isinstance(x, LP) else NotImplemented
        def m_from_le_limbs(I, fr, fn, a):
            if a[0] == [1, 0, 0, 0]: return LP(0)
            return NotImplemented
        Wr = r'fields::fq::u(32|64)::wrapper::Fq'
        M = models.base_models(extra_fns=[(rf'^{Wr}::mul$', m_mul), (rf'^{Wr}::square$', m_square), (rf'^{Wr}::from_le_limbs$', m_from_le_limbs)])
        N = 3 if common.tier() == 'quick' else 5
        for n in range(0, N + 1):
            name = f'{build}:Fq::power with a {n}-limb exponent = self^(sum limb_i 2^(64 i))'
            limbs = [z3.BitVec(f'limb{i}', 64) for i in range(n)]
            def body(I, h, n=n, limbs=limbs):
                h.locals['x'] = LP(1); h.locals['e'] = list(limbs)
                return I.call_item(it, [Ref(h, 'x', []), SliceRef(Ref(h, 'e', []), 0, n)], generics={'S': '&[u64]'})
            t0 = time.time()
            recs = _run(items, M, body, name, obs, merge_fns={it.name})
            if not recs: continue
            if len(recs) != 1 or 'result' not in recs[0]:
                obs.append(Ob(name, 'violated' if 'panic' in recs[0] else 'inconclusive', f'{len(recs)} paths; ' + str(recs[0].get('panic')), 0, 'mirsym/LIN', None, {'kind': 'power', 'limbs': n, 'build': build})); continue
            res = recs[0]['result']
            if not isinstance(res, LP): obs.append(Ob(name, 'inconclusive', f'result {res!r}', 0, 'mirsym/LIN')); continue
            sv = z3.Solver(); sv.set('timeout', 60000 if common.tier() == 'quick' else 600000)
            terms = []; const = res.c
            for k, v in res.d.items():
                cnd = res.atoms[k]
                m = re.search(r'\(\(_ extract (\d+) (\d+)\) limb(\d+)\)', k)
                canon = None
                if m and m.group(1) == m.group(2):
                    bit = z3.Extract(int(m.group(1)), int(m.group(1)), limbs[int(m.group(3))]) == 1
                    q = z3.Solver(); q.add(cnd != bit)
                    if q.check() == z3.unsat: canon = (bit, v, 0)
                    else:
                        q = z3.Solver(); q.add(cnd != z3.Not(bit))
                        if q.check() == z3.unsat: canon = (bit, -v, v)
                if canon is None: terms.append(z3.If(cnd, z3.IntVal(v), z3.IntVal(0)))
                else: terms.append(z3.If(canon[0], z3.IntVal(canon[1]), z3.IntVal(0))); const += canon[2]
            lhs = z3.IntVal(const) + (z3.Sum(terms) if terms else z3.IntVal(0))
            if res.extra is not None: lhs = lhs + res.extra
            rhs = z3.Sum([z3.If(z3.Extract(i, i, limbs[j]) == 1, z3.IntVal(1 << (64 * j + i)), z3.IntVal(0)) for j in range(n) for i in range(64)]) if n else z3.IntVal(0)
            sv.add(lhs != rhs)
            r = sv.check(); dt = time.time() - t0
            if r == z3.unsat: obs.append(Ob(name, 'proved', f'{len(res.d)} bit terms with weights 2^(64j+i)', dt, 'mirsym branch-merging + z3 LIA/BV', {'bit_terms': len(res.d)}))
            elif r == z3.sat:
                m = sv.model(); vals = [m.eval(l, model_completion=True).as_long() for l in limbs]
                obs.append(Ob(name, 'violated', f'exponent limbs {vals}: result is not self^exp', dt, 'mirsym branch-merging + z3 LIA/BV', None, {'kind': 'power', 'limbs': vals, 'build': build}))
            else: obs.append(Ob(name, 'inconclusive', 'z3 unknown', dt, 'z3'))
    return obs

# ---------------------------------------------------------------------------------------------- reduction of byte strings of any length
def check_mod_order(build, F, max_len=None):
    """from_le_bytes_mod_order / from_be_bytes_mod_order on slices of every length 0..=200: the chunks handed to the raw parser
    are the 32/48-byte little-endian windows of the string (zero padded) and the Horner combination equals
    sum chunk_i * 2^(8*N*i) mod p (N = 32/48), i.e. the integer denoted by the string modulo p"""
    items = _items(build); obs = []
    f = FN[F]; nb = NB[F]; p = FIELDS[F]
    L = max_len or (200 if common.tier() == 'thorough' else 200)
    entries = [('le', find_item(items, rf'^fields::{f}::<impl at [^>]*>::from_le_bytes_mod_order$'))]
    if build == 'ark':
        entries.append(('be', mirsym.find_item_hdr(items, rf'^fields::{f}::arkworks::.*::from_be_bytes_mod_order$', 'PrimeField for')))
        entries.append(('le(trait)', mirsym.find_item_hdr(items, rf'^fields::{f}::arkworks::.*::from_le_bytes_mod_order$', 'PrimeField for')))
    chunks = {}
    def m_raw(I, fr, fn, a):
        b = list(I.deref(a[0]))
        k = len(I.ctx.__dict__.setdefault('chunks', []))
        I.ctx.chunks.append(b)
        return FE.sym(F, f'c{k}')
    Wr = rf'fields::{f}::u(32|64)::wrapper::{F}'
    # the reduction constant is kept symbolic (its value 2^(8N) mod p is obligation C17); identities are then identities over Z
    M = models.base_models(extra_fns=[(rf'^{Wr}::from_raw_bytes$', m_raw)], extra_consts=[(r'::FIELD_SIZE_POWER_OF_TWO$', lambda I, fr, path: FE.sym(F, 'RADIX'))])
    for endian, it in entries:
        bad = None; nruns = 0; t0 = time.time()
        for n in range(0, L + 1):
            bs = [z3.BitVec(f'b{i}', 8) for i in range(n)]
            def body(I, h, n=n, bs=bs):
                h.locals['buf'] = list(bs)
                r = I.call_item(it, [SliceRef(Ref(h, 'buf', []), 0, n)])
                return r, I.ctx.__dict__.get('chunks', [])
            name = f'{build}:{F}::from_{endian}_bytes_mod_order on {n} bytes'
            recs = _run(items, M, body, name, obs)
            for r in recs:
                nruns += 1
                if 'panic' in r: bad = (n, 'panics: ' + r['panic']); break
                res, chs = r['result']
                le_bytes = bs if endian.startswith('le') else list(reversed(bs))
                nch = (n + nb - 1) // nb
                exp_chunks = []
                for i in range(nch):
                    w = le_bytes[i * nb:(i + 1) * nb]; exp_chunks.append(list(w) + [0] * (nb - len(w)))
                # chunks may be parsed in any order: match by content
                def same(a, b): return len(a) == len(b) and all((x is y) or (isinstance(x, int) and isinstance(y, int) and x == y) or (isinstance(x, z3.ExprRef) and isinstance(y, z3.ExprRef) and x.eq(y)) for x, y in zip(a, b))
                idx = []
                for ch in chs:
                    js = [j for j, e in enumerate(exp_chunks) if same(ch, e) and j not in idx]
                    if not js: bad = (n, 'a chunk handed to the raw parser is not a 32/48-byte window of the input'); break
                    idx.append(js[0])
                if bad: break
                if sorted(idx) != list(range(nch)): bad = (n, f'{len(chs)} chunks parsed, expected {nch}'); break
                want = FE.const(F, 0)
                for k, j in enumerate(idx): want = want.add(FE.sym(F, f'c{k}').mul(FE.sym(F, 'RADIX').pow(j)))
                if not isinstance(res, FE) or res.key() != want.key(): bad = (n, 'Horner combination differs from sum chunk_i * 2^(8*N*i) mod p'); break
                if n in (0, 1, nb, nb + 1, 2 * nb + 5):
                    ans, model, smt = poly.prove_equal([(res, want)])
                    if ans != 'unsat': bad = (n, f'z3 does not confirm the identity ({ans})'); break
            if bad: break
        nm = f'{build}:{F}::from_{endian}_bytes_mod_order, lengths 0..={L}'
        if bad: obs.append(Ob(nm, 'violated', f'length {bad[0]}: {bad[1]}', time.time() - t0, 'mirsym/POLY structure + z3 identity', None, {'kind': 'modorder', 'field': F, 'endian': endian, 'len': bad[0], 'build': build}))
        elif nruns >= L: obs.append(Ob(nm, 'proved', f'{nruns} runs: chunk windows and Horner weights RADIX^i with RADIX = FIELD_SIZE_POWER_OF_TWO = 2^(8*{nb}) mod p (C17)', time.time() - t0, 'mirsym/POLY structure + z3 identity', {'lengths': L + 1}))
    return obs

# ---------------------------------------------------------------------------------------------- W layer, arkworks build: integers, limbs, bytes, flags
class IV:
    """field element as the integer it denotes: value = (bv mod p); `canonical` records that bv < p is known"""
    __slots__ = ('field', 'bv', 'canonical')
    def __init__(s, field, bv, canonical=False): s.field, s.bv, s.canonical = field, bv, canonical
    def __deepcopy__(s, memo): return s
    def __repr__(s): return f'IV[{s.field}]'

def concat_le(parts):
    ps = [z3.BitVecVal(x, 64) if isinstance(x, int) else x for x in parts]
    return z3.simplify(z3.Concat(*reversed(ps))) if len(ps) > 1 else ps[0]

FLAG_TYPES = {
    'ark_serialize::EmptyFlags': dict(bits=0),
    'ark_ec::twisted_edwards::TEFlags': dict(bits=1),       # bit 7: x is negative
    'ark_ec::short_weierstrass::SWFlags': dict(bits=2),     # bit 7: y is negative, bit 6: infinity, both: invalid
}
from .wiring import Reader, Writer

def ark_w_models(F):
    f = FN[F]; n64 = LIMBS64[F]; p = FIELDS[F]; W = rf'fields::{f}::u64::wrapper::{F}'
    def m_bigint_cmp(I, fr, fn, a):
        x, y = D(I, a[0]), D(I, a[1])
        lx = x.fields[0] if isinstance(x, Agg) else x; ly = y.fields[0] if isinstance(y, Agg) else y
        X, Y = concat_le(lx), concat_le(ly)
        op = fn.split('::')[-1]
        r = {'ge': z3.UGE, 'gt': z3.UGT, 'le': z3.ULE, 'lt': z3.ULT}[op](X, Y)
        r = z3.simplify(r)
        if z3.is_true(r): return True
        if z3.is_false(r): return False
        return I.ctx.decide(r)
    def m_from_le_limbs(I, fr, fn, a):
        l = a[0]
        I.ctx.__dict__.setdefault('from_le_limbs_calls', []).append(list(l))
        return IV(F, concat_le(l))
    def m_to_le_limbs(I, fr, fn, a):
        v = D(I, a[0])
        if not isinstance(v, IV): return NotImplemented
        return [z3.simplify(z3.Extract(64 * i + 63, 64 * i, v.bv)) for i in range(n64)]
    def m_to_bytes_le(I, fr, fn, a):
        v = D(I, a[0])
        if not isinstance(v, IV): return NotImplemented
        return [z3.simplify(z3.Extract(8 * i + 7, 8 * i, v.bv)) for i in range(8 * n64)]
    def m_flags_from_u8(I, fr, fn, a):
        ty = re.match(r'^<(.*) as ark_serialize::Flags>::from_u8_remove_flags$', fn).group(1)
        bits = FLAG_TYPES[ty]['bits']; ref = a[0]; b = I.deref(ref)
        if bits == 0: return models.some(Agg(ty, [z3.BitVecVal(0, 8)]))
        top = z3.simplify(z3.Extract(7, 8 - bits, b))
        I.store(ref, z3.simplify(b & z3.BitVecVal((1 << (8 - bits)) - 1, 8)))
        if bits == 2 and I.ctx.decide(top == z3.BitVecVal(3, 2)): return models.none()
        return models.some(Agg(ty, [z3.simplify(z3.Concat(top, z3.BitVecVal(0, 8 - bits)))]))
    def m_flags_bitmask(I, fr, fn, a):
        v = D(I, a[0]); return v.fields[0]
    def c_bit_size(I, fr, path):
        ty = re.match(r'^<(.*) as ark_serialize::Flags>::BIT_SIZE$', path).group(1)
        return FLAG_TYPES[ty]['bits']
    def m_iterable_len(I, fr, fn, a): return len(I.deref(a[0]))
    def m_read_exact(I, fr, fn, a):
        rd = a[0]
        while isinstance(rd, Ref): rd = I.deref(rd)
        dst = a[1]; n = dst.len if isinstance(dst, SliceRef) else len(I.deref(dst))
        if len(rd.data) - rd.pos < n:
            rd.pos = len(rd.data); return models.err(Enum('ark_std::io::error::Error', 'UnexpectedEof', []))
        I.store(dst, rd.data[rd.pos:rd.pos + n]); rd.pos += n
        return models.ok(models.UNIT)
    def m_write_all(I, fr, fn, a):
        w = a[0]
        while isinstance(w, Ref): w = I.deref(w)
        w.out += list(I.deref(a[1])); return models.ok(models.UNIT)
    def m_ser_err_from_io(I, fr, fn, a): return Enum('ark_serialize::SerializationError', 'IoError', [a[0]])
    def m_bv_or_assign(I, fr, fn, a):
        ref = a[0]; cur = I.deref(ref); v = a[1]
        cur = z3.BitVecVal(cur, 8) if isinstance(cur, int) else cur; v = z3.BitVecVal(v, 8) if isinstance(v, int) else v
        I.store(ref, z3.simplify(cur | v)); return models.UNIT
    fns = [
        (r'^<ark_ff::BigInt<\d+> as core::cmp::PartialOrd>::(ge|gt|le|lt)$', m_bigint_cmp),
        (rf'^{W}::from_le_limbs$', m_from_le_limbs), (rf'^{W}::to_le_limbs$', m_to_le_limbs), (rf'^{W}::to_bytes_le$', m_to_bytes_le),
        (rf'^{W}::from_raw_bytes$', lambda I, fr, fn, a: IV(F, z3.simplify(z3.URem(z3.Concat(*reversed([z3.BitVecVal(x, 8) if isinstance(x, int) else x for x in I.deref(a[0])])), z3.BitVecVal(p, 8 * len(I.deref(a[0]))))))),
        (r'^<.* as ark_serialize::Flags>::from_u8_remove_flags$', m_flags_from_u8), (r'^<.* as ark_serialize::Flags>::u8_bitmask$', m_flags_bitmask),
        (r'^<\[u8; \d+\] as ark_std::iterable::Iterable>::len$', m_iterable_len),
        (r' as (ark_std::io|std::io|ark_serialize)::Read>::read_exact$', m_read_exact), (r' as (ark_std::io|std::io|ark_serialize)::Write>::write_all$', m_write_all),
        (r'^<ark_serialize::SerializationError as core::convert::From<ark_std::io::error::Error>>::from$', m_ser_err_from_io),
        (r'^<u8 as core::ops::BitOrAssign>::bitor_assign$', m_bv_or_assign),
    ]
    return models.base_models(extra_fns=fns, extra_consts=[(r'^<.* as ark_serialize::Flags>::BIT_SIZE$', c_bit_size)])

def _bv_valid(path, claim, timeout=60000):
    """(path condition) => claim, decided by z3 on bit-vectors; returns ('unsat'|'sat'|'unknown', model)"""
    sv = z3.Solver(); sv.set('timeout', timeout)
    for c in path: sv.add(c)
    sv.add(z3.Not(claim))
    r = sv.check()
    if r == z3.sat:
        m = sv.model(); return 'sat', {str(d): str(m[d]) for d in m.decls()}
    return ('unsat' if r == z3.unsat else 'unknown'), None

def check_w_ark(F):
    """arkworks build, integer/limb/byte level: from_bigint accepts exactly the integers below p and keeps the value; into_bigint;
    flagged (de)serialisation round-trips value and flags for EmptyFlags/TEFlags/SWFlags, rejects >= p and malformed flags, sizes"""
    items = _items('ark'); obs = []; f = FN[F]; n64 = LIMBS64[F]; p = FIELDS[F]; nb = 8 * n64
    M = ark_w_models(F)
    A = rf'^fields::{f}::arkworks::<impl at [^>]*>::'
    P = z3.BitVecVal(p, 64 * n64)
    # ---- from_bigint
    it = mirsym.find_item_hdr(items, A + 'from_bigint$', 'PrimeField for')
    limbs = [z3.BitVec(f'l{i}', 64) for i in range(n64)]; X = concat_le(limbs)
    def body(I, h): return I.call_item(it, [Agg('ark_ff::BigInt', [list(limbs)])])
    name = f'ark:<{F} as PrimeField>::from_bigint accepts exactly the integers below p and returns that integer'
    for r in _run(items, M, body, name, obs):
        pn = name + ' path ' + ''.join('1' if d else '0' for d in r['decisions'])
        if 'panic' in r: obs.append(Ob(pn, 'violated', 'panics: ' + r['panic'], 0, 'mirsym/BV', None, {'kind': 'from_bigint', 'field': F})); continue
        res = r['result']
        if res.variant == 'None': ans, model = _bv_valid(r['path'], z3.UGE(X, P))
        else:
            v = res.fields[0]
            ans, model = _bv_valid(r['path'], z3.And(z3.ULT(X, P), v.bv == X)) if isinstance(v, IV) else ('sat', {'note': 'value is not built from the limbs'})
        if ans == 'unsat': obs.append(Ob(pn, 'proved', f'{res.variant}: verdict and value', 0, 'mirsym path + z3 QF_BV', {'path': [str(c)[:120] for c in r['path']]}))
        elif ans == 'sat': obs.append(Ob(pn, 'violated', f'{res.variant} returned for limbs {model}', 0, 'mirsym path + z3 QF_BV', None, {'kind': 'from_bigint', 'field': F, 'z3_model': model}))
        else: obs.append(Ob(pn, 'inconclusive', 'z3 unknown', 0, 'z3'))
    # ---- into_bigint
    it = mirsym.find_item_hdr(items, A + 'into_bigint$', 'PrimeField for')
    xv = z3.BitVec('xv', 64 * n64)
    name = f'ark:<{F} as PrimeField>::into_bigint returns the canonical integer'
    for r in _run(items, M, lambda I, h: I.call_item(it, [IV(F, xv, True)]), name, obs):
        if 'panic' in r: obs.append(Ob(name, 'violated', 'panics', 0, 'mirsym/BV', None, {'kind': 'into_bigint', 'field': F})); continue
        got = concat_le(r['result'].fields[0])
        ans, model = _bv_valid(r['path'], got == xv)
        obs.append(Ob(name, 'proved' if ans == 'unsat' else 'violated', '', 0, 'mirsym + z3 QF_BV', None, None if ans == 'unsat' else {'kind': 'into_bigint', 'field': F}))
    # ---- deserialize_with_mode in all four (Compress, Validate) modes: Ok exactly for the canonical byte strings, with that value
    try:
        mit = mirsym.find_item_hdr(items, A + 'deserialize_with_mode$', 'CanonicalDeserialize for')
        for cm in ('Compress::Yes', 'Compress::No'):
            for vm in ('Validate::Yes', 'Validate::No'):
                for L in (nb - 1, nb, nb + 2):
                    bs = [z3.BitVec(f'b{i}', 8) for i in range(L)]
                    name = f'ark:{F}::deserialize_with_mode({cm}, {vm}) on a reader holding {L} bytes'
                    def bodym(I, h, bs=bs, cm=cm, vm=vm):
                        rd = Reader(bs); h.locals['rd'] = rd
                        return I.call_item(mit, [rd, Enum('ark_serialize', cm, []), Enum('ark_serialize', vm, [])], generics={'R': 'Reader'})
                    recs = _run(items, M, bodym, name, obs)
                    bad = None
                    for r in recs:
                        if 'panic' in r: bad = 'panics: ' + r['panic']; break
                        res = r['result']
                        if L < nb:
                            if res.variant != 'Err': bad = 'short input accepted'
                            continue
                        val = z3.Concat(*reversed(bs[:nb]))
                        if res.variant == 'Ok':
                            v = res.fields[0]
                            claim = z3.And(z3.ULT(val, P), v.bv == val) if isinstance(v, IV) else z3.BoolVal(False)
                        else: claim = z3.UGE(val, P)
                        ans, model = _bv_valid(r['path'], claim)
                        if ans != 'unsat': bad = f'{res.variant} on a path where the canonical-range rule says otherwise ({ans}); bytes {str(model)[:160]}'; break
                    if bad: obs.append(Ob(name, 'violated', bad, 0, 'mirsym path + z3 QF_BV', None, {'kind': 'deser_mode', 'field': F, 'mode': f'{cm},{vm}', 'len': L}))
                    elif recs: obs.append(Ob(name, 'proved', f'{len(recs)} paths', 0, 'mirsym path + z3 QF_BV', {'paths': len(recs)}))
    except Unsupported as e: obs.append(Ob(f'ark:{F}::deserialize_with_mode', 'inconclusive', str(e), 0, 'mirsym'))
    # ---- deserialize_with_flags / serialize_with_flags / sizes for the three flag types
    dit = mirsym.find_item_hdr(items, A + 'deserialize_with_flags$', 'CanonicalDeserializeWithFlags for')
    sit = mirsym.find_item_hdr(items, A + 'serialize_with_flags$', 'CanonicalSerializeWithFlags for')
    zit = mirsym.find_item_hdr(items, A + 'serialized_size_with_flags$', 'CanonicalSerializeWithFlags for')
    mbits = p.bit_length()
    for fty_, info in FLAG_TYPES.items():
        fb = info['bits']; explen = (mbits + fb + 7) // 8
        short = fty_.split('::')[-1]
        for L in sorted({0, explen - 1, explen, explen + 3}):
            if L < 0: continue
            bs = [z3.BitVec(f'b{i}', 8) for i in range(L)]
            name = f'ark:{F}::deserialize_with_flags::<{short}> on a reader holding {L} bytes'
            def body(I, h, bs=bs):
                rd = Reader(bs); h.locals['rd'] = rd
                return I.call_item(dit, [rd], generics={'F': fty_, 'R': 'Reader'})
            recs = _run(items, M, body, name, obs)
            bad = None
            for r in recs:
                if 'panic' in r: bad = 'panics: ' + r['panic']; break
                res = r['result']
                if L < explen:
                    if res.variant != 'Err': bad = 'short input accepted'
                    continue
                data = list(bs[:explen]) + [z3.BitVecVal(0, 8)] * (nb + 1 - explen)
                flagbyte = data[explen - 1]
                if fb: 
                    topbits = z3.Extract(7, 8 - fb, flagbyte)
                    clean = list(data); clean[explen - 1] = flagbyte & z3.BitVecVal((1 << (8 - fb)) - 1, 8)
                else: topbits = None; clean = data
                val = z3.Concat(*reversed(clean[:nb]))
                flags_ok = z3.BoolVal(True) if fb < 2 else topbits != z3.BitVecVal(3, 2)
                if res.variant == 'Ok':
                    v, fl = res.fields[0].fields
                    claim = z3.And(flags_ok, z3.ULT(val, P), v.bv == val) if isinstance(v, IV) else z3.BoolVal(False)
                    if fb: claim = z3.And(claim, fl.fields[0] == z3.Concat(topbits, z3.BitVecVal(0, 8 - fb)))
                else: claim = z3.Or(z3.Not(flags_ok), z3.UGE(val, P))
                ans, model = _bv_valid(r['path'], claim)
                if ans != 'unsat': bad = f'{res.variant} on a path where the specification says otherwise ({ans}); bytes {str(model)[:200]}'; break
            if bad: obs.append(Ob(name, 'violated', bad, 0, 'mirsym path + z3 QF_BV', None, {'kind': 'deser_flags', 'field': F, 'flags': short, 'len': L}))
            elif recs: obs.append(Ob(name, 'proved', f'{len(recs)} paths: Ok exactly for valid flags and value < p, value and flags returned', 0, 'mirsym path + z3 QF_BV', {'paths': len(recs)}))
        # serialisation: bytes written = canonical bytes with the flag mask in the top bits (extra byte when the flags do not fit)
        name = f'ark:{F}::serialize_with_flags::<{short}> writes the canonical bytes with the flag bits, {explen} bytes'
        xv = z3.BitVec('xv', 64 * n64); fl = z3.BitVec('fl', 8)
        def body(I, h):
            w = Writer(); h.locals['w'] = w
            r = I.call_item(sit, [Ref(h, 'x', []), w, Agg(fty_, [fl])], generics={'F': fty_, 'W': 'Writer'}) if h.locals.__setitem__('x', IV(F, xv, True)) is None else None
            return r, w.out
        for r in _run(items, M, body, name, obs):
            if 'panic' in r: obs.append(Ob(name, 'violated', 'panics: ' + r['panic'], 0, 'mirsym/BV', None, {'kind': 'ser_flags', 'field': F, 'flags': short})); continue
            res, out = r['result']
            exp = [z3.Extract(8 * i + 7, 8 * i, xv) for i in range(nb)]
            if explen == nb: exp[nb - 1] = exp[nb - 1] | fl
            else: exp = exp + [fl]
            good = res.variant == 'Ok' and len(out) == explen
            if good:
                ans, model = _bv_valid(r['path'], z3.And([ (z3.BitVecVal(o, 8) if isinstance(o, int) else o) == e for o, e in zip(out, exp)]))
                good = ans == 'unsat'
            obs.append(Ob(name, 'proved' if good else 'violated', f'{len(out)} bytes', 0, 'mirsym + z3 QF_BV', None, None if good else {'kind': 'ser_flags', 'field': F, 'flags': short}))
        name = f'ark:{F}::serialized_size_with_flags::<{short}> = {explen}'
        for r in _run(items, M, lambda I, h: I.call_item(zit, [Ref(h, 'x', [])], generics={'F': fty_}) if h.locals.__setitem__('x', IV(F, xv, True)) is None else None, name, obs):
            good = r.get('result') == explen
            obs.append(Ob(name, 'proved' if good else 'violated', str(r.get('result', r.get('panic'))), 0, 'mirsym', None, None if good else {'kind': 'ser_flags', 'field': F, 'flags': short}))
    return obs


def jobs_C10():
    jobs = []
    for b in ('ark', 'min'):
        for F in ('Fq', 'Fr', 'Fp'):
            jobs += [(f'{b} {F} operator forms', check_field_ops, (b, F)), (f'{b} {F} sums/products/methods', check_field_iter_and_methods, (b, F))]
    jobs.append(('Fq::power', check_power, ()))
    for F in ('Fq', 'Fr', 'Fp'): jobs.append((f'min {F} limb-level wrapper functions', check_w_u32, (F,)))
    for b in ('ark', 'min'):
        for F in ('Fq', 'Fr', 'Fp'): jobs.append((f'{b} {F} wrapper arithmetic wiring', check_w_arith, (b, F)))
    jobs += jobs_kernels()
    return jobs

def jobs_kernels():
    """K layer: the generated fiat-crypto kernels of the 32-bit backend, integer-exact (dv/fiat.py)"""
    from . import fiat
    jobs = []
    for f in ('fq', 'fr', 'fp'):
        jobs.append((f'min {f} fiat primitives', fiat.check_primitives, (f,)))
        jobs.append((f'min {f} fiat nonzero/selectznz/to_bytes/from_bytes/set_one/msat', fiat.check_byte_kernels, (f,)))
        jobs.append((f'min {f} fiat add/sub/opp', fiat.check_kernels, (f, ['add', 'sub', 'opp'])))
        for fn in ('mul', 'square', 'from_montgomery', 'to_montgomery'):
            jobs.append((f'min {f} fiat {fn}', fiat.check_kernels, (f, [fn])))
    return jobs

def jobs_C11(with_from_str=True):
    jobs = []
    # decimal parsing (arkworks build only: the minimal build has no FromStr); registered under C11 only, not in the shared field layer
    if with_from_str:
        for F in ('Fq', 'Fr', 'Fp'): jobs.append((f'ark {F} FromStr (decimal digit loop)', check_from_str, (F,)))
    for b in ('ark', 'min'):
        for F in ('Fq', 'Fr', 'Fp'): jobs.append((f'{b} {F} reduction of byte strings', check_mod_order, (b, F)))
    for F in ('Fq', 'Fr', 'Fp'): jobs.append((f'ark {F} integers/limbs/bytes/flags', check_w_ark, (F,)))
    for F in ('Fq', 'Fr', 'Fp'): jobs.append((f'min {F} limb/byte packing of the 32-bit wrapper', check_w_u32, (F,)))
    for b in ('ark', 'min'):
        for F in ('Fq', 'Fr', 'Fp'): jobs.append((f'{b} {F} checked parsing', check_bytes_checked, (b, F)))
    for b in ('ark', 'min'):
        for F in ('Fq', 'Fr', 'Fp'): jobs.append((f'{b} {F} ordering and hashing', check_ord_hash, (b, F)))
    from . import fiat
    for f in ('fq', 'fr', 'fp'):
        # conversions into / out of the Montgomery domain; to_montgomery is decided for unreduced inputs (what from_raw_bytes feeds it)
        for fn in ('from_montgomery', 'to_montgomery'): jobs.append((f'min {f} fiat {fn}', fiat.check_kernels, (f, [fn])))
        jobs.append((f'min {f} fiat primitives', fiat.check_primitives, (f,)))
        jobs.append((f'min {f} fiat nonzero/selectznz/to_bytes/from_bytes/set_one/msat', fiat.check_byte_kernels, (f,)))
    return jobs

def jobs_shared():
    """field-level jobs that C12 (backend equivalence) re-uses"""
    seen = set(); out = []
    for j in jobs_C10() + jobs_C11(with_from_str=False):
        if j[0] in seen: continue
        seen.add(j[0]); out.append(j)
    return out

# ---------------------------------------------------------------------------------------------- checked parsing (both builds)
def _seq_cmp(I, a, b, op):
    """lexicographic comparison of two finite sequences of bytes / integers -> z3 Bool (or python bool)"""
    xs = [D(I, v) for v in models.as_items(I, a)]; ys = [D(I, v) for v in models.as_items(I, b)]
    def bvv(v, w): return z3.BitVecVal(v, w) if isinstance(v, int) else v
    def width(v): return v.size() if z3.is_bv(v) else None
    lt = z3.BoolVal(len(xs) < len(ys)); eq = z3.BoolVal(len(xs) == len(ys))
    n = min(len(xs), len(ys))
    for i in reversed(range(n)):
        w = width(xs[i]) or width(ys[i]) or 64
        X, Y = bvv(xs[i], w), bvv(ys[i], w)
        lt = z3.Or(z3.ULT(X, Y), z3.And(X == Y, lt)); eq = z3.And(X == Y, eq)
    r = {'lt': lt, 'le': z3.Or(lt, eq), 'gt': z3.Not(z3.Or(lt, eq)), 'ge': z3.Not(lt), 'eq': eq, 'ne': z3.Not(eq)}[op]
    r = z3.simplify(r)
    if z3.is_true(r): return True
    if z3.is_false(r): return False
    return I.ctx.decide(r)

def seq_cmp_models():
    def mk(op): return lambda I, fr, fn, a: _seq_cmp(I, a[0], a[1], op)
    return [(rf'^<.* as core::iter::Iterator>::{op}::<.*>$', mk(op)) for op in ('lt', 'le', 'gt', 'ge', 'eq', 'ne')] + \
           [(r'^core::slice::<impl \[.*\]>::chunks_exact_mut$', models.m_slice_chunks)]

def check_bytes_checked(build, F):
    """from_bytes_checked accepts exactly the byte strings that denote an integer below p and returns that integer"""
    items = _items(build); obs = []; f = FN[F]; nb = NB[F]; p = FIELDS[F]
    it = find_item(items, rf'^fields::{f}::<impl at [^>]*>::from_bytes_checked$')
    bs = [z3.BitVec(f'b{i}', 8) for i in range(nb)]
    val = z3.Concat(*reversed(bs)); P = z3.BitVecVal(p, 8 * nb)
    Rv = z3.BitVec('reduced', 8 * nb)
    Wr = rf'fields::{f}::u(32|64)::wrapper::{F}'
    def m_raw(I, fr, fn, a):
        b = I.deref(a[0])
        I.ctx.__dict__.setdefault('raw_calls', []).append(list(b))
        v = z3.Concat(*reversed([z3.BitVecVal(x, 8) if isinstance(x, int) else x for x in b]))
        return IV(F, v)
    def m_to_bytes(I, fr, fn, a):
        v = D(I, a[0])
        if not isinstance(v, IV): return NotImplemented
        # canonical bytes of (v.bv mod p): a fresh vector constrained by the W contract
        I.ctx.side.append(('reduce', v.bv))
        return [z3.Extract(8 * i + 7, 8 * i, Rv) for i in range(nb)]
    M = models.base_models(extra_fns=[(rf'^{Wr}::from_raw_bytes$', m_raw), (rf'^{Wr}::to_bytes_le$', m_to_bytes)] + seq_cmp_models())
    def body(I, h):
        h.locals['b'] = list(bs)
        return I.call_item(it, [Ref(h, 'b', [])])
    name = f'{build}:{F}::from_bytes_checked accepts exactly the canonical encodings'
    for r in _run(items, M, body, name, obs):
        pn = name + ' path ' + ''.join('1' if d else '0' for d in r['decisions'])
        if 'panic' in r: obs.append(Ob(pn, 'violated', 'panics: ' + r['panic'], 0, 'mirsym/BV', None, {'kind': 'checked', 'field': F, 'build': build})); continue
        res = r['result']
        hyp = list(r['path'])
        for sd in r['side']:
            if sd[0] == 'reduce': hyp += [z3.ULT(Rv, P), z3.URem(sd[1], P) == Rv]
        if res.variant == 'Ok':
            v = res.fields[0]
            claim = z3.And(z3.ULT(val, P), v.bv == val) if isinstance(v, IV) else z3.BoolVal(False)
        else: claim = z3.UGE(val, P)
        t0 = time.time(); ans, model = _bv_valid(hyp, claim, 120000); dt = time.time() - t0
        if ans == 'unsat': obs.append(Ob(pn, 'proved', f'{res.variant}', dt, 'mirsym path + z3 QF_BV', {'path': [str(c)[:100] for c in r['path']]}))
        elif ans == 'sat':
            bval = None
            try: bval = sum(int(model.get(f'b{i}', '0')) << (8 * i) for i in range(nb))
            except Exception: pass
            obs.append(Ob(pn, 'violated', f'{res.variant} for bytes denoting {bval}', dt, 'mirsym path + z3 QF_BV', None, {'kind': 'checked', 'field': F, 'build': build, 'value': bval}))
        else: obs.append(Ob(pn, 'inconclusive', 'z3 unknown', dt, 'z3'))
    return obs

# ---------------------------------------------------------------------------------------------- W layer, minimal build: limb packing around the fiat kernels
class KLimbs(list):
    """limb array produced by a kernel stub; .val = integer (bit-vector) it denotes under the kernel's contract"""
    def __deepcopy__(s, memo): return s

def check_w_u32(F):
    """minimal build, 32-bit wrappers: the limb/byte packing code hands exactly the right digits to the fiat kernels and reads
    exactly their outputs (kernels replaced by contract stubs that record their arguments); select / ct_eq on all limb values"""
    items = _items('min'); obs = []; f = FN[F]; n64 = LIMBS64[F]; n32 = 2 * n64; nb = NB[F]; p = FIELDS[F]
    W = rf'^fields::{f}::u32::wrapper::<impl at [^>]*>::'
    MT = f'fields::{f}::u32::fiat::{F}MontgomeryDomainFieldElement'
    rec = {}
    def dig32(v, n): return [z3.simplify(z3.Extract(32 * i + 31, 32 * i, v)) for i in range(n)]
    def to_bv(xs, w):
        return z3.simplify(z3.Concat(*reversed([z3.BitVecVal(x, w) if isinstance(x, int) else x for x in xs])))
    def k_to_montgomery(I, fr, fn, a):
        arg = I.deref(a[1]); digs = arg.fields[0] if isinstance(arg, Agg) else arg
        rec['to_mont_arg'] = list(digs)
        out = KLimbs([z3.BitVec(f'm{i}', 32) for i in range(n32)]); out.val = to_bv(digs, 32); out.kind = 'mont'
        o = I.deref(a[0]); o.fields[0] = out; return models.UNIT
    def k_from_montgomery(I, fr, fn, a):
        arg = I.deref(a[1]); ml = arg.fields[0] if isinstance(arg, Agg) else arg
        rec['from_mont_arg'] = ml
        xv = z3.BitVec('xv', 32 * n32)      # the canonical value of the element (K contract: digits of val, val < p)
        o = I.deref(a[0]); o.fields[0] = dig32(xv, n32); return models.UNIT
    def k_to_bytes(I, fr, fn, a):
        digs = I.deref(a[1]); v = to_bv(digs, 32)
        I.store(a[0], [z3.simplify(z3.Extract(8 * i + 7, 8 * i, v)) for i in range(nb)]); return models.UNIT
    def k_from_bytes(I, fr, fn, a):
        by = I.deref(a[1])
        if isinstance(by, Ref): by = I.deref(by)
        v = to_bv(by, 8)
        I.store(a[0], dig32(v, n32)); return models.UNIT
    def m_arr_cteq(I, fr, fn, a):
        x, y = I.deref(a[0]), I.deref(a[1])
        return Agg('subtle::Choice', [z3.simplify(z3.And([(z3.BitVecVal(p_, 32) if isinstance(p_, int) else p_) == (z3.BitVecVal(q_, 32) if isinstance(q_, int) else q_) for p_, q_ in zip(x, y)]))])
    K = rf'^fields::{f}::u32::fiat::{f}_'
    M = models.base_models(extra_fns=[(K + 'to_montgomery$', k_to_montgomery), (K + 'from_montgomery$', k_from_montgomery), (K + 'to_bytes$', k_to_bytes), (K + 'from_bytes$', k_from_bytes),
                                      (r'^<\[u32(; \d+)?\] as subtle::ConstantTimeEq>::ct_eq$', m_arr_cteq)])
    M['fns'] = [m for m in M['fns'] if not re.search(r'wrapper::F\[pqr\]::(from_montgomery_limbs|from_le_limbs|from_raw_bytes)', m[0])]
    M['adts'] = []
    def elem(tag):
        l = [z3.BitVec(f'{tag}{i}', 32) for i in range(n32)]
        return Agg(f'fields::{f}::u32::wrapper::{F}', [Agg(MT, [l])]), l
    def limbs_of(v): return v.fields[0].fields[0]
    def ob(name, good_claim, path=(), model_info=None):
        t0 = time.time(); ans, model = _bv_valid(list(path), good_claim); dt = time.time() - t0
        if ans == 'unsat': obs.append(Ob(f'min:{F} (u32 wrapper) {name}', 'proved', '', dt, 'mirsym + z3 QF_BV'))
        elif ans == 'sat': obs.append(Ob(f'min:{F} (u32 wrapper) {name}', 'violated', f'counterexample {str(model)[:200]}', dt, 'mirsym + z3 QF_BV', None, dict({'kind': 'w-u32', 'field': F}, **(model_info or {}))))
        else: obs.append(Ob(f'min:{F} (u32 wrapper) {name}', 'inconclusive', 'z3 unknown', dt, 'z3'))
    def run1(name, pat, mkargs):
        try: it = find_item(items, W + pat + '$')
        except Unsupported as e: obs.append(Ob(f'min:{F} (u32 wrapper) {name}', 'inconclusive', str(e), 0, 'mirsym')); return []
        rec.clear()
        return [r for r in _run(items, M, lambda I, h: I.call_item(it, mkargs(I, h)), f'min:{F} (u32 wrapper) {name}', obs)]
    u64s = [z3.BitVec(f'w{i}', 64) for i in range(n64)]; X64 = concat_le(u64s)
    # from_le_limbs: digits handed to to_montgomery are the base-2^32 digits of the integer
    for r in run1('from_le_limbs', 'from_le_limbs', lambda I, h: [list(u64s)]):
        if 'panic' in r: ob('from_le_limbs', z3.BoolVal(False)); continue
        arg = rec.get('to_mont_arg')
        ob('from_le_limbs passes the base-2^32 digits of the integer to to_montgomery and returns its output', (to_bv(arg, 32) == X64) if arg and len(arg) == n32 else z3.BoolVal(False), r['path'], {'fn': 'from_le_limbs'})
        rl = limbs_of(r['result'])
        good = len(rl) == n32 and all(z3.is_bv(x) and str(x) == f'm{i}' for i, x in enumerate(rl))
        if not good: ob('from_le_limbs returns the kernel output', z3.BoolVal(False))
    # from_montgomery_limbs (const fn) and _backend: limbs are split into low/high 32-bit halves in order
    for r in run1('from_montgomery_limbs', 'from_montgomery_limbs', lambda I, h: [list(u64s)]):
        if 'panic' in r: ob('from_montgomery_limbs', z3.BoolVal(False)); continue
        l = limbs_of(r['result'])
        ob('from_montgomery_limbs splits each 64-bit limb into (low, high) 32-bit limbs in order', (to_bv(l, 32) == X64) if len(l) == n32 else z3.BoolVal(False), r['path'], {'fn': 'from_montgomery_limbs'})
    # to_le_limbs / to_bytes_le: digits read back from from_montgomery
    a_el, a_l = elem('a')
    for r in run1('to_le_limbs', 'to_le_limbs', lambda I, h: [Ref(h, 'a', [])] if h.locals.__setitem__('a', a_el) is None else None):
        if 'panic' in r: ob('to_le_limbs', z3.BoolVal(False)); continue
        same_arg = rec.get('from_mont_arg') is not None and all(x.eq(y) for x, y in zip(rec['from_mont_arg'], a_l))
        ob('to_le_limbs converts the element itself and returns the 64-bit digits of its value', (concat_le(r['result']) == z3.BitVec('xv', 32 * n32)) if same_arg else z3.BoolVal(False), r['path'], {'fn': 'to_le_limbs'})
    for r in run1('to_bytes_le', 'to_bytes_le', lambda I, h: [Ref(h, 'a', [])] if h.locals.__setitem__('a', a_el) is None else None):
        if 'panic' in r: ob('to_bytes_le', z3.BoolVal(False)); continue
        same_arg = rec.get('from_mont_arg') is not None and all(x.eq(y) for x, y in zip(rec['from_mont_arg'], a_l))
        out = r['result']
        ob('to_bytes_le returns the little-endian bytes of the value', (to_bv(out, 8) == z3.BitVec('xv', 32 * n32)) if same_arg and len(out) == nb else z3.BoolVal(False), r['path'], {'fn': 'to_bytes_le'})
    # from_raw_bytes
    bs = [z3.BitVec(f'b{i}', 8) for i in range(nb)]
    for r in run1('from_raw_bytes', 'from_raw_bytes', lambda I, h: [Ref(h, 'b', [])] if h.locals.__setitem__('b', list(bs)) is None else None):
        if 'panic' in r: ob('from_raw_bytes', z3.BoolVal(False)); continue
        arg = rec.get('to_mont_arg')
        ob('from_raw_bytes passes the digits of the little-endian integer to to_montgomery', (to_bv(arg, 32) == to_bv(bs, 8)) if arg and len(arg) == n32 else z3.BoolVal(False), r['path'], {'fn': 'from_raw_bytes'})
    # conditional_select / ct_eq (Fq only has them)
    if F == 'Fq':
        b_el, b_l = elem('c')
        ch = z3.BitVec('choice', 8)
        try:
            it = mirsym.find_item_hdr(items, r'^fields::fq::u32::wrapper::.*::conditional_select$', 'ConditionallySelectable for')
            for r in _run(items, M, lambda I, h: I.call_item(it, [Ref(h, 'a', []), Ref(h, 'b', []), Agg('subtle::Choice', [ch])]) if (h.locals.__setitem__('a', a_el), h.locals.__setitem__('b', b_el)) else None, 'min:Fq conditional_select', obs):
                if 'panic' in r: ob('conditional_select', z3.BoolVal(False)); continue
                l = limbs_of(r['result'])
                claim = z3.And([z3.If(ch != 0, y, x) == o for x, y, o in zip(a_l, b_l, l)]) if len(l) == n32 else z3.BoolVal(False)
                ob('conditional_select returns exactly the limbs of one operand (b when the choice is set)', z3.Implies(z3.ULE(ch, 1), claim), r['path'], {'fn': 'conditional_select'})
            it = mirsym.find_item_hdr(items, r'^fields::fq::u32::wrapper::.*::ct_eq$', 'ConstantTimeEq for')
            for r in _run(items, M, lambda I, h: I.call_item(it, [Ref(h, 'a', []), Ref(h, 'b', [])]) if (h.locals.__setitem__('a', a_el), h.locals.__setitem__('b', b_el)) else None, 'min:Fq ct_eq', obs):
                if 'panic' in r: ob('ct_eq', z3.BoolVal(False)); continue
                c = models.choice_bool(r['result'])
                c = z3.BoolVal(c) if isinstance(c, bool) else c
                ob('ct_eq is true exactly when all limbs agree', c == z3.And([x == y for x, y in zip(a_l, b_l)]), r['path'], {'fn': 'ct_eq'})
        except Unsupported as e: obs.append(Ob('min:Fq select/ct_eq', 'inconclusive', str(e), 0, 'mirsym'))
    return obs

# ---------------------------------------------------------------------------------------------- wrapper arithmetic: which kernel, which operand order
def check_w_arith(build, F):
    """the wrapper methods add / sub / mul / neg / square / (zero test of) inverse call the intended kernel (fiat function resp.
    arkworks operator) once, with (self, other) in that order, and return its result unchanged"""
    items = _items(build); obs = []; f = FN[F]; w = wrapper_of(build)
    W = rf'^fields::{f}::{w}::wrapper::<impl at [^>]*>::'
    log = []
    class Tok:
        def __init__(s, n): s.n = n
        def __deepcopy__(s, memo): return s
        def __repr__(s): return s.n
    def inner_of(v):
        while isinstance(v, Agg) and len(v.fields) == 1: v = v.fields[0]
        return v
    if build == 'min':
        def k(name, nin):
            def m(I, fr, fn, a):
                ins = [inner_of(I.deref(x)) for x in a[1:1 + nin]]
                out = Tok(f'{name}_out'); log.append((name, ins, out))
                o = I.deref(a[0])
                if isinstance(o, Agg): o.fields[0] = out
                else: I.store(a[0], out)
                return models.UNIT
            return m
        K = rf'^fields::{f}::u32::fiat::{f}_'
        fns = [(K + 'add$', k('add', 2)), (K + 'sub$', k('sub', 2)), (K + 'mul$', k('mul', 2)), (K + 'opp$', k('opp', 1)), (K + 'square$', k('square', 1))]
    else:
        A = r'ark_ff::Fp<ark_ff::MontBackend<[\w:]+, \d+>, \d+>'
        def op(name, nin):
            def m(I, fr, fn, a):
                ins = [inner_of(D(I, x) if not isinstance(D(I, x), Ref) else I.deref(D(I, x))) for x in a[:nin]]
                out = Tok(f'{name}_out'); log.append((name, ins, out)); return out
            return m
        fns = [(rf'^<{A} as core::ops::Add(<.*>)?>::add$', op('add', 2)), (rf'^<{A} as core::ops::Sub(<.*>)?>::sub$', op('sub', 2)), (rf'^<{A} as core::ops::Mul(<.*>)?>::mul$', op('mul', 2)),
               (rf'^<{A} as core::ops::Neg>::neg$', op('opp', 1)), (rf'^<{A} as ark_ff::Field>::square$', op('square', 1))]
    M = models.base_models(extra_fns=fns)
    M['fns'] = [m for m in M['fns'] if not re.search(r'wrapper::F\[pqr\]::(add|sub|mul|neg|square)\$', m[0])]
    M['adts'] = []
    def mk(tag): return Agg(f'fields::{f}::{w}::wrapper::{F}', [Agg('inner', [Tok(tag)])] if build == 'min' else [Tok(tag)])
    for meth, kern, nin in (('add', 'add', 2), ('sub', 'sub', 2), ('mul', 'mul', 2), ('neg', 'opp', 1), ('square', 'square', 1)):
        try: it = find_item(items, W + meth + '$')
        except Unsupported as e: obs.append(Ob(f'{build}:{F} ({w} wrapper) {meth}', 'inconclusive', str(e), 0, 'mirsym')); continue
        name = f'{build}:{F} ({w} wrapper) {meth} = kernel `{kern}`(self{", other" if nin == 2 else ""})'
        def body(I, h, it=it, nin=nin):
            del log[:]
            a_, b_ = mk('self'), mk('other'); h.locals['a'] = a_; h.locals['b'] = b_
            args = []
            for i, (loc, ty) in enumerate(it.params):
                args.append(Ref(h, 'ab'[i], []) if ty.strip().startswith('&') else h.locals['ab'[i]])
            return I.call_item(it, args), list(log)
        for r in _run(items, M, body, name, obs):
            if 'panic' in r: obs.append(Ob(name, 'violated', 'panics: ' + r['panic'], 0, 'mirsym/EUF', None, {'kind': 'w-arith', 'field': F, 'build': build, 'meth': meth})); continue
            res, lg = r['result']
            good = len(lg) == 1 and lg[0][0] == kern and [repr(x) for x in lg[0][1]] == ['self', 'other'][:nin] and inner_of(res) is lg[0][2]
            obs.append(Ob(name, 'proved' if good else 'violated', f'calls {[(n, [repr(x) for x in i]) for n, i, o in lg]}', 0, 'mirsym/EUF', None, None if good else {'kind': 'w-arith', 'field': F, 'build': build, 'meth': meth}))
    return obs

# ---------------------------------------------------------------------------------------------- ordering / hashing (both builds)
def check_ord_hash(build, F):
    """Ord::cmp / PartialOrd::partial_cmp are the integer ordering of the canonical values; Hash feeds exactly the canonical bytes"""
    items = _items(build); obs = []; f = FN[F]; nb = NB[F]; p = FIELDS[F]; n64 = LIMBS64[F]
    Wr = rf'fields::{f}::u(32|64)::wrapper::{F}'
    xa = z3.BitVec('xa', 8 * nb); xb = z3.BitVec('xb', 8 * nb); P = z3.BitVecVal(p, 8 * nb)
    pre = [z3.ULT(xa, P), z3.ULT(xb, P)]
    def m_to_le_limbs(I, fr, fn, a):
        v = D(I, a[0])
        if not isinstance(v, IV): return NotImplemented
        return [z3.simplify(z3.Extract(64 * i + 63, 64 * i, v.bv)) for i in range(n64)]
    def m_to_bytes_le(I, fr, fn, a):
        v = D(I, a[0])
        if not isinstance(v, IV): return NotImplemented
        return [z3.simplify(z3.Extract(8 * i + 7, 8 * i, v.bv)) for i in range(nb)]
    def ordering(I, lt, eq):
        lt = z3.simplify(lt) if not isinstance(lt, bool) else lt
        if (lt is True) or (not isinstance(lt, bool) and z3.is_true(lt)) or (not isinstance(lt, bool) and not z3.is_false(lt) and I.ctx.decide(lt)): return Enum('core::cmp::Ordering', 'Less', [])
        eq = z3.simplify(eq) if not isinstance(eq, bool) else eq
        if (eq is True) or (not isinstance(eq, bool) and z3.is_true(eq)) or (not isinstance(eq, bool) and not z3.is_false(eq) and I.ctx.decide(eq)): return Enum('core::cmp::Ordering', 'Equal', [])
        return Enum('core::cmp::Ordering', 'Greater', [])
    def m_seq_ord(I, fr, fn, a): return ordering(I, _seq_cmp(I, a[0], a[1], 'lt'), _seq_cmp(I, a[0], a[1], 'eq'))
    def m_int_ord(I, fr, fn, a):
        x, y = D(I, a[0]), D(I, a[1])
        if isinstance(x, int) and isinstance(y, int): return Enum('core::cmp::Ordering', 'Less' if x < y else ('Equal' if x == y else 'Greater'), [])
        w = x.size() if z3.is_bv(x) else y.size()
        X = z3.BitVecVal(x, w) if isinstance(x, int) else x; Y = z3.BitVecVal(y, w) if isinstance(y, int) else y
        return ordering(I, z3.ULT(X, Y), X == Y)
    class Hasher:
        def __init__(s): s.fed = []
        def __deepcopy__(s, memo): return s
    def m_hasher_write(I, fr, fn, a):
        h_ = a[0]
        while isinstance(h_, Ref): h_ = I.deref(h_)
        data = I.deref(a[1]) if isinstance(a[1], (Ref, SliceRef)) else a[1]
        h_.fed.append(list(data)); return models.UNIT
    extra = [(rf'^{Wr}::to_le_limbs$', m_to_le_limbs), (rf'^{Wr}::to_bytes_le$', m_to_bytes_le),
             (r'^<\[u(8|32|64); \d+\] as core::cmp::Ord>::cmp$', m_seq_ord), (r'^<\[u(8|32|64)\] as core::cmp::Ord>::cmp$', m_seq_ord), (r'^core::slice::cmp::<impl core::cmp::Ord for \[.*\]>::cmp$', m_seq_ord),
             (r'^<u(8|32|64) as core::cmp::Ord>::cmp$', m_int_ord), (r'^core::cmp::impls::<impl core::cmp::Ord for u(8|32|64)>::cmp$', m_int_ord),
             (r'^<H as core::hash::Hasher>::write$', m_hasher_write), (r' as core::hash::Hasher>::write$', m_hasher_write)] + seq_cmp_models()
    M = models.base_models(extra_fns=extra)
    want = {'Less': z3.ULT(xa, xb), 'Equal': xa == xb, 'Greater': z3.UGT(xa, xb)}
    for fname, hdr in (('cmp', r'^impl Ord for'), ('partial_cmp', r'^impl PartialOrd for')):
        name = f'{build}:{F} {fname} is the integer ordering of the canonical values'
        try: it = mirsym.find_item_hdr(items, rf'^fields::{f}::ops::.*::{fname}$', hdr)
        except Unsupported as e: obs.append(Ob(name, 'inconclusive', str(e), 0, 'mirsym')); continue
        def body(I, h, it=it):
            h.locals['a'] = IV(F, xa); h.locals['b'] = IV(F, xb)
            return I.call_item(it, [Ref(h, 'a', []), Ref(h, 'b', [])])
        bad = None; npaths = 0; t0 = time.time()
        for r in _run(items, M, body, name, obs):
            npaths += 1
            if 'panic' in r: bad = ('panics: ' + r['panic'], None); break
            res = r['result']
            if fname == 'partial_cmp':
                if not (isinstance(res, Enum) and res.variant == 'Some'): bad = ('partial_cmp returns None', None); break
                res = res.fields[0]
            if not (isinstance(res, Enum) and res.variant in want): bad = (f'unexpected result {res!r}'[:120], None); break
            ans, model = _bv_valid(pre + list(r['path']), want[res.variant], 60000)
            if ans == 'sat': bad = (f'returns {res.variant} for values {model.get("xa")}, {model.get("xb")}', model); break
            if ans != 'unsat': bad = ('z3 unknown', None); break
        if bad is None and npaths: obs.append(Ob(name, 'proved', f'{npaths} paths', time.time() - t0, 'mirsym path + z3 QF_BV'))
        elif bad is not None:
            mdl = {'kind': 'ord', 'field': F, 'build': build}
            if bad[1]:
                try: mdl.update(a=int(bad[1]['xa']), b=int(bad[1]['xb']))
                except Exception: pass
            obs.append(Ob(name, 'violated' if bad[0] != 'z3 unknown' else 'inconclusive', bad[0], time.time() - t0, 'mirsym path + z3 QF_BV', None, mdl))
    # Hash
    name = f'{build}:{F} Hash feeds exactly the canonical little-endian bytes'
    try:
        it = mirsym.find_item_hdr(items, rf'^fields::{f}::ops::.*::hash', r'^impl Hash for')
        def bodyh(I, h):
            h.locals['a'] = IV(F, xa); hs = Hasher(); h.locals['hs'] = hs
            I.call_item(it, [Ref(h, 'a', []), Ref(h, 'hs', [])]); return hs.fed
        good = True; n = 0
        for r in _run(items, M, bodyh, name, obs):
            n += 1
            if 'panic' in r: good = False; break
            fed = [b for chunk in r['result'] for b in chunk]
            if len(fed) != nb: good = False; break
            ans, model = _bv_valid(pre + list(r['path']), z3.Concat(*reversed([z3.BitVecVal(b, 8) if isinstance(b, int) else b for b in fed])) == xa, 60000)
            if ans != 'unsat': good = False; break
        obs.append(Ob(name, 'proved' if good and n else 'violated', '' if good else 'the hashed bytes are not the canonical bytes of the value', 0, 'mirsym path + z3 QF_BV', None, None if good and n else {'kind': 'hash', 'field': F, 'build': build}))
    except Unsupported as e: obs.append(Ob(name, 'inconclusive', str(e), 0, 'mirsym'))
    return obs

# ---------------------------------------------------------------------------------------------- FromStr (decimal digit loop)
class _SymChar:
    def __init__(s, i): s.i = i
    def __deepcopy__(s, memo): return s
class _SymDigit(_SymChar): pass
class _CharsIt:
    def __init__(s, n): s.n = n; s.pos = 0

def check_from_str(F, max_len=None):
    """`impl FromStr for F` (arkworks build): for a string of n arbitrary chars, n = 0..=N, the result is Err exactly when some
    char is not a decimal digit (first non-digit position forked through `char::to_digit(c, 10)`), and otherwise
    Ok(sum digit_i * 10^(n-1-i)) in the field - digits as free field symbols, so the identity holds for every digit value.
    `str::chars`, `Chars::next`, `char::to_digit`, `u64::from(u32)` are modelled by their documented meaning; the conversion of
    a digit into the field is `From<u64>` (decided by the conversions check on all u64)."""
    from .curve import compare_fe
    from .poly import FE
    items = _items('ark'); obs = []; f = FN[F]
    N = max_len or (24 if common.tier() == 'quick' else 90)
    it = mirsym.find_item(items, rf'^fields::{f}::arkworks::<impl at [^>]*>::from_str$')
    def m_chars(I, fr, fn, a): return _CharsIt(a[0].n) if isinstance(a[0], _SymStr) else NotImplemented
    def m_next(I, fr, fn, a):
        c = a[0]
        while isinstance(c, Ref): c = I.deref(c)
        if not isinstance(c, _CharsIt): return NotImplemented
        if c.pos >= c.n: return models.none()
        c.pos += 1; return models.some(_SymChar(c.pos - 1))
    def m_to_digit(I, fr, fn, a):
        if not isinstance(a[0], _SymChar): return NotImplemented
        if a[1] != 10: raise mirsym.Unsupported('to_digit with a radix other than 10')
        return models.some(_SymDigit(a[0].i)) if I.ctx.decide(z3.Bool(f'is_digit_{a[0].i}')) else models.none()
    def m_widen(I, fr, fn, a): return a[0] if isinstance(a[0], _SymDigit) else NotImplemented
    def m_from_u64(I, fr, fn, a): return FE.sym(F, f'd{a[0].i}') if isinstance(a[0], _SymDigit) else NotImplemented
    # `Fr::from_str` starts with a stray `ark_std::dbg!(&s)` (prints to stderr): formatting / printing get empty bodies
    stub = lambda I, fr, fn, a: models.UNIT
    M = models.base_models(extra_fns=[(r'^core::fmt::rt::Argument::.*new_debug', stub), (r'^core::fmt::Arguments::.*new(::<.*>)?$', stub), (r'::io::stdio::_eprint$', stub),
                                      (r'^core::str::<impl str>::chars$', m_chars), (r'^<core::str::Chars(<.*>)? as core::iter::IntoIterator>::into_iter$', lambda I, fr, fn, a: a[0]),
                                      (r'^<core::str::Chars(<.*>)? as core::iter::Iterator>::next$', m_next), (r'^core::char::methods::<impl char>::to_digit$', m_to_digit),
                                      (r'^<u(64|128) as core::convert::From<u32>>::from$', m_widen), (rf'^<fields::{f}::u64::wrapper::{F} as core::convert::From<u(32|64|128)>>::from$', m_from_u64)])
    for n in range(0, N + 1):
        name = f'ark:{F}::from_str on {n} arbitrary chars: Err iff a char is not a decimal digit, else the decimal value mod p'
        recs = _run(items, M, lambda I, h, n=n: I.call_item(it, [_SymStr(n)]), name, obs)
        if not recs: continue
        bad = False; seen_ok = False
        if len(recs) != n + 1:
            obs.append(Ob(name, 'inconclusive', f'{len(recs)} paths, expected {n + 1} (all digits; first non-digit at each position)', 0, 'mirsym/POLY')); continue
        for r in recs:
            if 'panic' in r: obs.append(Ob(name, 'violated', 'panics: ' + r['panic'], 0, 'mirsym/POLY', None, {'kind': 'from_str', 'field': F, 'len': n})); bad = True; continue
            res = r['result']; all_digits = all(r['decisions']) and len(r['decisions']) == n
            if res.variant == 'Err':
                if all_digits: obs.append(Ob(name, 'violated', 'Err on a string of decimal digits', 0, 'mirsym/POLY', None, {'kind': 'from_str', 'field': F, 'len': n})); bad = True
                continue
            if not all_digits:
                obs.append(Ob(name, 'violated', f'Ok although char {len(r["decisions"]) - 1} is not a decimal digit', 0, 'mirsym/POLY', None, {'kind': 'from_str', 'field': F, 'len': n})); bad = True; continue
            seen_ok = True
            want = FE.const(F, 0)
            for i in range(n): want = want.add(FE.sym(F, f'd{i}').mul(FE.const(F, pow(10, n - 1 - i, FIELDS[F]))))
            c = compare_fe(name, models.D(None, res.fields[0]) if not isinstance(res.fields[0], FE) else res.fields[0], want, {}, rec=r)
            if c.status != 'proved':
                c.model = dict(c.model or {}, kind='from_str', field=F, len=n); obs.append(c); bad = True
        if not bad and seen_ok: obs.append(Ob(name, 'proved', f'{n + 1} paths', 0, 'mirsym (POLY) + z3 identity'))
    return obs

class _SymStr:
    def __init__(s, n): s.n = n
    def __deepcopy__(s, memo): return s

# ---------------------------------------------------------------------------------------------- sign (the body behind the uninterpreted predicate)
def check_sign(build):
    """`impl Sign for Fq`::is_nonnegative - every element-level check treats the sign as an uninterpreted predicate of the value with
    neg(0) = false and neg(-x) = !neg(x); here the body is decided: with `to_le_limbs` (contract W: the canonical little-endian
    limbs of the value) returning four arbitrary 64-bit limbs, the answer is exactly `bit 0 of limb 0 is clear` - the parity of the
    canonical value, which has those two properties because q is odd.  `is_negative` and `abs` are the trait's default bodies and are
    executed as they are by the element-level checks."""
    items = _items(build); obs = []
    name = f'{build}:`impl Sign for Fq`::is_nonnegative is `the canonical value is even` (bit 0 of limb 0 of to_le_limbs, all limb values)'
    try: it = mirsym.find_item_hdr(items, r'::is_nonnegative$', r'Sign for Fq')
    except Unsupported as e: return [Ob(name, 'inconclusive', str(e), 0, 'mirsym')]
    limbs = [z3.BitVec(f'sl{i}', 64) for i in range(4)]
    M = models.base_models()
    M['fns'] = [(r'^fields::fq::u(32|64)::wrapper::Fq::to_le_limbs$', lambda I, fr, fn, a: list(limbs))] + [m for m in M['fns'] if 'is_nonnegative' not in m[0]]
    def body(I, h):
        h.locals['x'] = FE.sym('Fq', 'x'); return I.call_item(it, [Ref(h, 'x', [])])
    recs = _run(items, M, body, name, obs)
    if not recs: return obs
    want = z3.Extract(0, 0, limbs[0]) == 0; t0 = time.time(); bad = False
    for r in recs:
        if 'panic' in r: obs.append(Ob(name, 'violated', 'panics: ' + r['panic'], 0, 'mirsym/BV', None, {'kind': 'sign', 'build': build})); bad = True; continue
        got = r['result']; got = z3.BoolVal(got) if isinstance(got, bool) else got
        sv = z3.Solver(); sv.set('timeout', 30000); sv.add(*[p for p in r['path'] if z3.is_expr(p)]); sv.add(got != want)
        v = sv.check()
        if v == z3.sat:
            m_ = sv.model(); obs.append(Ob(name, 'violated', f'answer differs from the parity of the canonical value for limbs {[m_.eval(l, model_completion=True).as_long() for l in limbs]}', time.time() - t0, 'mirsym + z3 QF_BV',
                                           None, {'kind': 'sign', 'build': build, 'limbs': [m_.eval(l, model_completion=True).as_long() for l in limbs]})); bad = True
        elif v != z3.unsat: obs.append(Ob(name, 'inconclusive', 'z3 unknown', time.time() - t0, 'z3')); bad = True
    if not bad: obs.append(Ob(name, 'proved', f'{len(recs)} path(s)', time.time() - t0, 'mirsym + z3 QF_BV'))
    return obs
