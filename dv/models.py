"""Models ("contracts") the MIR interpreter uses in place of code below the analysed layer, and of core/alloc/arkworks functions.

A model is  f(I, frame, fn_text, args) -> value | NotImplemented.   Lists are searched in order; first regex match wins."""
import re
import z3
from .mirsym import Agg, Enum, Ref, SliceRef, FnVal, Opaque, Panic, Unsupported, PathEnd, cp, INT_BITS, split_top, strip_lt
from .poly import FE, FIELDS, LIMBS64, centred

# ---------------------------------------------------------------------------------------------- helpers
def D(I, a): return I.deref(a) if isinstance(a, (Ref, SliceRef)) else a

def field_of(fn):
    m = re.search(r'fields::(f[pqr])::', fn)
    if m: return {'fq': 'Fq', 'fr': 'Fr', 'fp': 'Fp'}[m.group(1)]
    m = re.search(r'\b(Fq|Fr|Fp)\b', fn)
    return m.group(1) if m else None

def limbs_to_int(l, bits=64): return sum(int(x) << (bits * i) for i, x in enumerate(l))

def mont_to_fe(field, limbs, bits=64):
    p = FIELDS[field]; n = len(limbs) * bits
    return FE.const(field, limbs_to_int(limbs, bits) * pow(pow(2, n, p), -1, p) % p)

def some(v): return Enum('core::option::Option', 'Some', [v])
def none(): return Enum('core::option::Option', 'None', [])
def ok(v): return Enum('core::result::Result', 'Ok', [v])
def err(v): return Enum('core::result::Result', 'Err', [v])
UNIT = Agg('()', [])

NEG = {f: z3.Function('neg_' + f, z3.IntSort(), z3.BoolSort()) for f in FIELDS}

# ---------------------------------------------------------------------------------------------- POLY field contracts
def fe_is_zero(I, x):
    """decision  x == 0  (canonical key, sign-normalised)"""
    if x.is_zero_poly(): return True
    if x.is_const(): return x.const_value() == 0
    nz = getattr(I.ctx, 'nonzero', None)
    if nz: x = strip_nonzero(x, nz)
    if x.is_const(): return x.const_value() == 0
    sg = x.lead_sign(); xn = x if sg > 0 else x.neg()
    r = I.ctx.decide(xn.term == 0, key='zero:' + xn.key())
    if r:
        zh = I.ctx.__dict__.setdefault('zero_hyps', {})
        zh[xn.key()] = xn
    return r

def zero_key(x):
    """the decision key fe_is_zero uses for the polynomial x"""
    sg = x.lead_sign(); xn = x if sg > 0 else x.neg()
    return 'zero:' + xn.key()

def strip_nonzero(x, nz):
    """divide out powers of symbols known to be nonzero that are common to every monomial (a field has no zero divisors)"""
    for v in nz:
        k = min((dict(m).get(v, 0) for m in x.d), default=0)
        if k:
            d = {}
            for m, c in x.d.items():
                mm = dict(m); mm[v] -= k
                if mm[v] == 0: del mm[v]
                d[tuple(sorted(mm.items()))] = c
            t = z3.IntVal(0)
            for m, c in sorted(d.items()):
                mon = z3.IntVal(c)
                for vv, kk in m:
                    for _ in range(kk): mon = mon * z3.Int(vv)
                t = t + mon
            x = FE(x.field, d, t)
    return x

def fe_eq(I, a, b):
    return fe_is_zero(I, a.sub(b))

def fe_is_negative(I, x):
    """decision  'canonical value of x is odd'  through the uninterpreted sign predicate (facts: neg(0)=F, x!=0 -> neg(-x)=!neg(x))"""
    if x.is_const(): return (x.const_value() & 1) == 1
    sg = x.lead_sign()
    if sg > 0:
        if fe_is_zero(I, x): return False
        return I.ctx.decide(NEG[x.field](x.term), key='neg:' + x.key())
    xn = x.neg()
    if fe_is_zero(I, xn): return False
    return not I.ctx.decide(NEG[x.field](xn.term), key='neg:' + xn.key())

def m_fe_binop(op):
    def f(I, fr, fn, a):
        x, y = D(I, a[0]), D(I, a[1])
        if not (isinstance(x, FE) and isinstance(y, FE)): return NotImplemented
        return getattr(x, op)(y)
    return f
def m_fe_neg(I, fr, fn, a):
    x = D(I, a[0])
    return x.neg() if isinstance(x, FE) else NotImplemented
def m_fe_square(I, fr, fn, a):
    x = D(I, a[0])
    return x.square() if isinstance(x, FE) else NotImplemented

def m_fe_inverse(I, fr, fn, a):
    x = D(I, a[0])
    if not isinstance(x, FE): return NotImplemented
    if fe_is_zero(I, x): return none()
    if x.is_const(): return some(FE.const(x.field, pow(x.const_value(), -1, x.p)))
    key = 'inv:' + x.key()
    memo = I.ctx.__dict__.setdefault('inv_memo', {})
    if key not in memo:
        i = FE.sym(x.field, I.ctx.fresh('inv'))
        memo[key] = i
        I.ctx.side.append(('inv', x, i))
    return some(memo[key])

def m_fe_eq(I, fr, fn, a):
    x, y = D(I, a[0]), D(I, a[1])
    x, y = D(I, x), D(I, y)     # &&Fq
    if not (isinstance(x, FE) and isinstance(y, FE)): return NotImplemented
    return fe_eq(I, x, y)
def m_fe_ne(I, fr, fn, a):
    r = m_fe_eq(I, fr, fn, a)
    return r if r is NotImplemented else (not r)

def m_from_montgomery_limbs(I, fr, fn, a):
    l = a[0]
    if not all(isinstance(x, int) for x in l): raise Unsupported('symbolic Montgomery limbs')
    return mont_to_fe(field_of(fn), l)

def m_from_le_limbs(I, fr, fn, a):
    l = a[0]
    if not all(isinstance(x, int) for x in l): raise Unsupported('symbolic limbs in from_le_limbs (POLY)')
    return FE.const(field_of(fn), limbs_to_int(l))

def m_from_raw_bytes(I, fr, fn, a):
    b = I.deref(a[0])
    if not all(isinstance(x, int) for x in b): return NotImplemented
    return FE.const(field_of(fn), sum(x << (8 * i) for i, x in enumerate(b)))

def m_is_nonnegative(I, fr, fn, a):
    x = D(I, a[0])
    return (not fe_is_negative(I, x)) if isinstance(x, FE) else NotImplemented
def m_is_negative(I, fr, fn, a):
    x = D(I, a[0])
    return fe_is_negative(I, x) if isinstance(x, FE) else NotImplemented

def sqrt_ratio_contract(I, num, den):
    """four-case contract of sqrt_ratio_zeta, as a nondeterministic function of (num, den) (memoised per canonical arguments)"""
    f = num.field
    if fe_is_zero(I, num): return Agg('tuple', [True, FE.const(f, 0)])
    if fe_is_zero(I, den): return Agg('tuple', [False, FE.const(f, 0)])
    key = 'sqrt:' + num.key() + '/' + den.key()
    memo = I.ctx.__dict__.setdefault('sqrt_memo', {})
    if key not in memo:
        n = len(memo) + 1
        ws = I.ctx.decide(z3.Bool(f'was_square{n}'), key='ws:' + key)
        y = FE.sym(f, f'y{n}')
        memo[key] = (ws, y)
        I.ctx.side.append(('sqrt', num, den, ws, y))
    ws, y = memo[key]
    return Agg('tuple', [ws, y])

def m_sqrt_ratio_zeta(I, fr, fn, a):
    num, den = D(I, a[0]), D(I, a[1])
    return sqrt_ratio_contract(I, num, den)

def m_conditional_select_fe(I, fr, fn, a):
    x, y, c = D(I, a[0]), D(I, a[1]), a[2]
    if not isinstance(x, FE): return NotImplemented
    c = choice_bool(c)
    if isinstance(c, bool): return y if c else x
    return y if I.ctx.decide(c) else x

def choice_bool(c):
    if isinstance(c, Agg) and c.name.endswith('Choice'):
        v = c.fields[0]
        if isinstance(v, bool): return v
        if isinstance(v, int): return v != 0
        if z3.is_bv(v): return z3.simplify(v != 0)
        return v
    raise Unsupported(f'choice {c!r}')

def m_ct_eq_fe(I, fr, fn, a):
    x, y = D(I, a[0]), D(I, a[1])
    if not isinstance(x, FE): return NotImplemented
    return Agg('subtle::Choice', [fe_eq(I, x, y)])

# ---------------------------------------------------------------------------------------------- transparent newtypes
def adt_field_newtype(I, fr, path, fields):
    """`Fq(inner)` in the wrappers: a field element is represented by its value; Montgomery limb literals are converted."""
    if len(fields) != 1: return NotImplemented
    v = fields[0]
    if isinstance(v, FE): return v
    if isinstance(v, Agg) and 'MontgomeryDomainFieldElement' in v.name and 'Non' not in v.name:
        l = v.fields[0]
        if all(isinstance(x, int) for x in l): return mont_to_fe(field_of(path), l, 32)
    return NotImplemented

# ---------------------------------------------------------------------------------------------- core / alloc models
def m_try_branch(I, fr, fn, a):
    e = a[0]
    if e.variant in ('Ok', 'Some'): return Enum('core::ops::ControlFlow', 'Continue', [e.fields[0]])
    if e.variant == 'Err': return Enum('core::ops::ControlFlow', 'Break', [err(e.fields[0])])
    return Enum('core::ops::ControlFlow', 'Break', [none()])

def m_from_residual(I, fr, fn, a):
    r = a[0]
    if r.variant == 'None': return none()
    m = re.match(r'^<(.*) as core::ops::FromResidual<(.*)>>::from_residual$', fn)
    e = r.fields[0]
    # error conversion  From<E1> for E2
    if m:
        t_out = re.search(r'Result<.*, (.*)>$', m.group(1).strip())
        t_in = re.search(r'Result<core::convert::Infallible, (.*)>$', m.group(2).strip())
        if t_out and t_in and t_out.group(1).strip() != t_in.group(1).strip():
            e = I.call(fr, f'<{t_out.group(1).strip()} as core::convert::From<{t_in.group(1).strip()}>>::from', [e])
    return err(e)

def m_identity(I, fr, fn, a): return a[0]
def m_int_from(I, fr, fn, a):
    v = a[0]
    m = re.match(r'^<(\w+) as core::convert::From<(\w+)>>::from$', fn)
    bits = INT_BITS[m.group(1)]
    if isinstance(v, bool): return int(v)
    if z3.is_bool(v): return z3.If(v, z3.BitVecVal(1, bits), z3.BitVecVal(0, bits))
    if z3.is_bv(v) and v.size() < bits: return z3.ZeroExt(bits - v.size(), v)
    return v
def m_into(I, fr, fn, a):
    m = re.match(r'^<(.*) as core::convert::Into<(.*)>>::into$', fn)
    src, dst = m.group(1).strip(), m.group(2).strip()
    if src == dst: return a[0]
    return I.call(fr, f'<{dst} as core::convert::From<{src}>>::from', a)
def m_try_into(I, fr, fn, a):
    m = re.match(r'^<(.*) as core::convert::TryInto<(.*)>>::try_into$', fn)
    src, dst = m.group(1).strip(), m.group(2).strip()
    return I.call(fr, f'<{dst} as core::convert::TryFrom<{src}>>::try_from', a)
def m_slice_try_from_array(I, fr, fn, a):
    # <[u8; 32] as TryFrom<&[u8]>>::try_from
    m = re.match(r'^<\[(\w+); (\d+)\] as core::convert::TryFrom<&\[\w+\]>>::try_from$', fn)
    n = int(m.group(2)); sl = a[0]
    if sl.len != n: return err(Agg('core::array::TryFromSliceError', []))
    return ok(cp(I.deref(sl)))
def m_ref_slice_try_from_array(I, fr, fn, a):
    m = re.match(r'^<&\[(\w+); (\d+)\] as core::convert::TryFrom<&\[\w+\]>>::try_from$', fn)
    n = int(m.group(2)); sl = a[0]
    if sl.len != n: return err(Agg('core::array::TryFromSliceError', []))
    return ok(sl)

def m_option_unwrap(I, fr, fn, a):
    e = a[0]
    if e.variant in ('Some', 'Ok'): return e.fields[0]
    raise Panic('unwrap on ' + e.variant + ' in ' + (fr.item.name if fr else '?'))
def m_expect(I, fr, fn, a): return m_option_unwrap(I, fr, fn, a[:1])
def m_map_err(I, fr, fn, a):
    e, f = a
    if e.variant == 'Ok': return e
    return err(I.call_closure(fr, f, [e.fields[0]]))
def m_ok_or(I, fr, fn, a):
    e, d = a
    return ok(e.fields[0]) if e.variant == 'Some' else err(d)
def m_result_ok(I, fr, fn, a):
    e = a[0]
    return some(e.fields[0]) if e.variant == 'Ok' else none()
def m_option_map(I, fr, fn, a):
    e, f = a
    if e.variant in ('None',): return e
    if e.variant == 'Err': return e
    return Enum(e.name, e.variant, [I.call_closure(fr, f, [e.fields[0]])])
def m_is_ok(I, fr, fn, a): return D(I, a[0]).variant in ('Ok', 'Some')
def m_is_err(I, fr, fn, a): return D(I, a[0]).variant in ('Err', 'None')
def m_and_then(I, fr, fn, a):
    e, f = a
    if e.variant in ('None', 'Err'): return e
    return I.call_closure(fr, f, [e.fields[0]])
def m_unwrap_or(I, fr, fn, a):
    e, d = a
    return e.fields[0] if e.variant in ('Some', 'Ok') else d

def m_deref_id(I, fr, fn, a): return a[0]
def m_clone(I, fr, fn, a): return cp(D(I, a[0]))
def m_borrow(I, fr, fn, a):
    r = a[0]
    if isinstance(r, Ref):
        v = I.deref(r)
        if isinstance(v, (Ref, SliceRef)): return v      # <&T as Borrow<T>>::borrow(&&T) -> &T
    return r
def m_default_zero_sized(I, fr, fn, a): return UNIT

# iterators: eager python lists wrapped in an IterObj
class IterObj:
    def __init__(s, items, pos=0): s.items = items; s.pos = pos
    def __deepcopy__(s, memo): return s
    def __repr__(s): return f'Iter({len(s.items) - s.pos} left)'

def as_items(I, v):
    """elements of an iterable value as a python list (slices yield element references)"""
    if isinstance(v, IterObj): r = v.items[v.pos:]; v.pos = len(v.items); return r
    if isinstance(v, SliceRef):
        return [Ref(v.base.frame, v.base.local, list(v.base.path) + [v.start + i]) for i in range(v.len)]
    if isinstance(v, Ref):
        arr = I.deref(v)
        if isinstance(arr, list): return [Ref(v.frame, v.local, list(v.path) + [i]) for i in range(len(arr))]
        if isinstance(arr, (IterObj, Agg, SliceRef, Ref)): return as_items(I, arr)
    if isinstance(v, list): return list(v)
    if isinstance(v, Agg) and v.name.endswith('Range') and len(v.fields) == 2 and all(isinstance(x, int) for x in v.fields):
        return list(range(v.fields[0], v.fields[1]))
    if isinstance(v, Agg) and v.name == 'RangeInclusive': return list(range(v.fields[0], v.fields[1] + 1))
    if isinstance(v, Agg) and v.name.endswith('Vec'): return list(v.fields[0])
    raise Unsupported(f'iterate {v!r}')

def m_into_iter(I, fr, fn, a):
    v = a[0]
    if isinstance(v, Agg) and v.name.endswith('Range') and not isinstance(v, IterObj): return v      # Range is its own iterator
    if isinstance(v, IterObj): return v
    return IterObj(as_items(I, v))
def m_size_hint(I, fr, fn, a):
    """Iterator::size_hint of an arbitrary iterator: the lower bound is anything between 0 and the number of items left (adapters such
    as filter / flat_map / take_while report 0), the upper bound is None or at least that number: the lower bound forks"""
    it = a[0]
    while isinstance(it, Ref): it = I.deref(it)
    if not isinstance(it, IterObj): return NotImplemented
    n = len(it.items) - it.pos
    lo = n
    if n > 0 and I.ctx.decide(z3.Bool(I.ctx.fresh('size_hint_lower_bound_is_zero'))): lo = 0
    return Agg('tuple', [lo, some(n)])
def m_iter(I, fr, fn, a): return IterObj(as_items(I, a[0]))
def m_iter_next(I, fr, fn, a):
    it = D(I, a[0])
    if isinstance(it, IterObj):
        if it.pos >= len(it.items): return none()
        it.pos += 1; return some(it.items[it.pos - 1])
    if isinstance(it, Agg) and it.name.endswith('Range'):
        st, en = it.fields
        if not (isinstance(st, int) and isinstance(en, int)): raise Unsupported('symbolic range')
        if st >= en: return none()
        it.fields[0] = st + 1; return some(st)
    raise Unsupported(f'next on {it!r}')
def m_iter_rev(I, fr, fn, a): return IterObj(list(reversed(as_items(I, a[0]))))
def m_iter_map(I, fr, fn, a):
    items = as_items(I, a[0]); f = a[1]
    return IterObj([I.call_closure(fr, f, [x]) for x in items])
def m_iter_zip(I, fr, fn, a):
    x, y = as_items(I, a[0]), as_items(I, a[1])
    return IterObj([Agg('tuple', [p, q]) for p, q in zip(x, y)])
def m_iter_fold(I, fr, fn, a):
    items = as_items(I, a[0]); acc = a[1]; f = a[2]
    for x in items: acc = I.call_closure(fr, f, [acc, x])
    return acc
def m_iter_collect(I, fr, fn, a): return Agg('alloc::vec::Vec', [as_items(I, a[0])])
def m_iter_once(I, fr, fn, a): return IterObj([a[0]])
def m_iter_copied(I, fr, fn, a): return IterObj([cp(D(I, x)) for x in as_items(I, a[0])])
def m_iter_enumerate(I, fr, fn, a): return IterObj([Agg('tuple', [i, x]) for i, x in enumerate(as_items(I, a[0]))])
def m_iter_sum_product(I, fr, fn, a):
    # <I as Iterator>::sum::<T>  ->  <T as Sum<Item>>::sum(iter)   (resolved by item type of the first element)
    raise Unsupported('iterator sum/product dispatch')
def m_range_inclusive_new(I, fr, fn, a): return Agg('RangeInclusive', [a[0], a[1]])

def m_slice_chunks(I, fr, fn, a):
    sl, n = a
    if not isinstance(sl, SliceRef):
        arr = I.deref(sl); sl = SliceRef(sl, 0, len(arr))
    if n == 0: raise Panic('chunk size must be non-zero')
    out = []
    k = 0
    exact = fn.endswith('chunks_exact')
    while k < sl.len:
        ln = min(n, sl.len - k)
        if exact and ln < n: break
        out.append(SliceRef(sl.base, sl.start + k, ln)); k += n
    return IterObj(out)
def m_slice_len(I, fr, fn, a):
    sl = a[0]
    return sl.len if isinstance(sl, SliceRef) else len(I.deref(sl))
def m_copy_from_slice(I, fr, fn, a):
    dst, src = a
    dl = dst.len if isinstance(dst, SliceRef) else len(I.deref(dst)); sl = src.len if isinstance(src, SliceRef) else len(I.deref(src))
    if dl != sl: raise Panic('copy_from_slice: source slice length does not match destination')
    I.store(dst, cp(I.deref(src))); return UNIT
def m_slice_reverse(I, fr, fn, a):
    v = I.deref(a[0]); I.store(a[0], list(reversed(v))); return UNIT
def m_slice_to_vec(I, fr, fn, a): return Agg('alloc::vec::Vec', [cp(I.deref(a[0]))])
def m_vec_deref(I, fr, fn, a):
    r = a[0]; v = I.deref(r)
    return SliceRef(Ref(r.frame, r.local, list(r.path) + [0]), 0, len(v.fields[0]))
def m_index_range(I, fr, fn, a):
    base, rng = a
    if isinstance(base, SliceRef): b0, st0, ln0 = base.base, base.start, base.len
    else:
        arr = I.deref(base)
        if isinstance(arr, Agg) and arr.name.endswith('Vec'):
            b0, st0, ln0 = Ref(base.frame, base.local, list(base.path) + [0]), 0, len(arr.fields[0])
        else: b0, st0, ln0 = base, 0, len(arr)
    nm = rng.name.split('::')[-1] if isinstance(rng, Agg) else ''
    if nm == 'RangeTo': lo, hi = 0, rng.fields[0]
    elif nm == 'RangeFrom': lo, hi = rng.fields[0], ln0
    elif nm == 'Range': lo, hi = rng.fields
    elif nm == 'RangeFull': lo, hi = 0, ln0
    else: raise Unsupported(f'index by {rng!r}')
    if not (isinstance(lo, int) and isinstance(hi, int)): raise Unsupported('symbolic range index')
    if lo > hi: raise Panic('slice index starts after end')
    if hi > ln0: raise Panic(f'range end index {hi} out of range for slice of length {ln0}')
    return SliceRef(b0, st0 + lo, hi - lo)
def m_index_usize(I, fr, fn, a):
    base, i = a
    if hasattr(I.deref(base), 'mir_index'): return I.deref(base).mir_index(I, base, i)
    if isinstance(base, SliceRef):
        if i >= base.len: raise Panic('index out of bounds')
        return Ref(base.base.frame, base.base.local, list(base.base.path) + [base.start + i])
    arr = I.deref(base)
    if isinstance(arr, Agg) and len(arr.fields) == 1 and isinstance(arr.fields[0], list):     # newtype around an array (fiat field elements), Vec
        if i >= len(arr.fields[0]): raise Panic('index out of bounds')
        return Ref(base.frame, base.local, list(base.path) + [0, i])
    if i >= len(arr): raise Panic('index out of bounds')
    return Ref(base.frame, base.local, list(base.path) + [i])

def m_array_eq(I, fr, fn, a):
    x, y = D(I, a[0]), D(I, a[1])
    x, y = D(I, x), D(I, y)
    if len(x) != len(y): return False
    conds = []
    for p, q in zip(x, y):
        if isinstance(p, int) and isinstance(q, int):
            if p != q: return False
        else: conds.append(_bv_eq(p, q))
    if not conds: return True
    return I.ctx.decide(z3.simplify(z3.And(conds)))
def _bv_eq(p, q):
    if isinstance(p, int): p = z3.BitVecVal(p, q.size())
    if isinstance(q, int): q = z3.BitVecVal(q, p.size())
    return p == q

def m_to_le_bytes(I, fr, fn, a):
    m = re.search(r'<impl (\w+)>::to_le_bytes$', fn); bits = INT_BITS[m.group(1)]; v = a[0]
    if isinstance(v, int): return [(v >> (8 * i)) & 255 for i in range(bits // 8)]
    return [z3.simplify(z3.Extract(8 * i + 7, 8 * i, v)) for i in range(bits // 8)]
def m_from_le_bytes(I, fr, fn, a):
    b = a[0]
    if all(isinstance(x, int) for x in b): return sum(x << (8 * i) for i, x in enumerate(b))
    bs = [z3.BitVecVal(x, 8) if isinstance(x, int) else x for x in b]
    return z3.simplify(z3.Concat(*reversed(bs)))
def m_pow_int(I, fr, fn, a):
    m = re.search(r'<impl (\w+)>::pow$', fn); bits = INT_BITS[m.group(1)]
    r = a[0] ** a[1]
    if r >> bits: raise Panic('attempt to multiply with overflow (pow)')
    return r
def m_choice_from_u8(I, fr, fn, a): return Agg('subtle::Choice', [a[0]])
def m_choice_not(I, fr, fn, a):
    c = choice_bool(a[0])
    return Agg('subtle::Choice', [(not c) if isinstance(c, bool) else z3.Not(c)])
def m_bool_from_choice(I, fr, fn, a): return choice_bool(a[0])
def m_u_conditional_select(I, fr, fn, a):
    x, y, c = D(I, a[0]), D(I, a[1]), choice_bool(a[2])
    if isinstance(c, bool): return y if c else x
    w = (x if z3.is_bv(x) else y)
    if isinstance(x, int) and isinstance(y, int): raise Unsupported('symbolic choice over concrete ints: width unknown')
    bx = z3.BitVecVal(x, w.size()) if isinstance(x, int) else x; by = z3.BitVecVal(y, w.size()) if isinstance(y, int) else y
    return z3.simplify(z3.If(c, by, bx))
def m_shr_ref(I, fr, fn, a):
    x, k = D(I, a[0]), D(I, a[1])
    m = re.match(r'^<&?(\w+) as core::ops::Shr<&?(\w+)>>::shr$', fn)
    bits = INT_BITS[m.group(1)]
    if isinstance(k, int) and not (0 <= k < bits): raise Panic('attempt to shift right with overflow')
    if isinstance(x, int): return x >> k
    return z3.simplify(z3.LShR(x, z3.BitVecVal(k, x.size())))
def m_debug_nop(I, fr, fn, a): return UNIT
def m_mem_replace(I, fr, fn, a):
    old = cp(I.deref(a[0])); I.store(a[0], a[1]); return old
def m_box_new(I, fr, fn, a): return a[0]

def m_lazy_deref(I, fr, fn, a):
    """<once_cell::sync::Lazy<T> as Deref>::deref(&STATIC): run the static's initialiser closure (once per run)"""
    lz = a[0]
    v = I.deref(lz) if isinstance(lz, Ref) else lz
    if not (isinstance(v, Agg) and v.name == 'Lazy'): raise Unsupported(f'Lazy deref of {v!r}')
    if len(v.fields) == 1:
        v.fields.append(I.call_closure(fr, v.fields[0], []))
    holder = I.__dict__.setdefault('_lazy_frame', __import__('dv.mirsym', fromlist=['Frame']).Frame(__import__('dv.mirsym', fromlist=['Item']).Item('fn', '<lazy>', '')))
    k = 'lz%d' % id(v)
    holder.locals[k] = v
    return Ref(holder, k, [1])
def m_lazy_new(I, fr, fn, a): return Agg('Lazy', [a[0]])

def c_static(I, fr, path):
    """`const {alloc: &Lazy<..>}` style references to statics are printed as paths; evaluate the static's body once"""
    return NotImplemented

def m_first_chunk(I, fr, fn, a):
    n = int(re.search(r'::<(\d+)>$', fn).group(1)); sl = a[0]
    if not isinstance(sl, SliceRef): sl = SliceRef(sl, 0, len(I.deref(sl)))
    if sl.len < n: return none()
    last = 'last_chunk' in fn
    return some(SliceRef(sl.base, sl.start + (sl.len - n if last else 0), n))
def m_slice_get(I, fr, fn, a):
    sl, ix = a
    if not isinstance(sl, SliceRef): sl = SliceRef(sl, 0, len(I.deref(sl)))
    if isinstance(ix, int):
        return some(Ref(sl.base.frame, sl.base.local, list(sl.base.path) + [sl.start + ix])) if ix < sl.len else none()
    try: return some(m_index_range(I, fr, fn, [sl, ix]))
    except Panic: return none()
def m_slice_is_empty(I, fr, fn, a):
    sl = a[0]; return (sl.len if isinstance(sl, SliceRef) else len(I.deref(sl))) == 0
def m_slice_split_at(I, fr, fn, a):
    sl, k = a
    if not isinstance(sl, SliceRef): sl = SliceRef(sl, 0, len(I.deref(sl)))
    if k > sl.len: raise Panic('split_at: mid > len')
    return Agg('tuple', [SliceRef(sl.base, sl.start, k), SliceRef(sl.base, sl.start + k, sl.len - k)])
def m_slice_first_last(I, fr, fn, a):
    sl = a[0]
    if not isinstance(sl, SliceRef): sl = SliceRef(sl, 0, len(I.deref(sl)))
    if sl.len == 0: return none()
    i = 0 if fn.endswith('first') else sl.len - 1
    return some(Ref(sl.base.frame, sl.base.local, list(sl.base.path) + [sl.start + i]))
def m_iter_take(I, fr, fn, a): return IterObj(as_items(I, a[0])[:a[1]])
def m_iter_skip(I, fr, fn, a): return IterObj(as_items(I, a[0])[a[1]:])
def m_iter_filter(I, fr, fn, a):
    out = []
    for x in as_items(I, a[0]):
        h = _tmp_ref(I, x)
        if I.truth(I.call_closure(fr, a[1], [h])): out.append(x)
    return IterObj(out)
def m_iter_take_while(I, fr, fn, a):
    out = []
    for x in as_items(I, a[0]):
        if not I.truth(I.call_closure(fr, a[1], [_tmp_ref(I, x)])): break
        out.append(x)
    return IterObj(out)
def _tmp_ref(I, x):
    from .mirsym import Frame, Item
    f = Frame(Item('fn', '<tmp>', '')); f.locals['t'] = x; return Ref(f, 't', [])
def m_iter_reduce(I, fr, fn, a):
    items = as_items(I, a[0])
    if not items: return none()
    acc = items[0]
    for x in items[1:]: acc = I.call_closure(fr, a[1], [acc, x])
    return some(acc)
def m_iter_count(I, fr, fn, a): return len(as_items(I, a[0]))
def m_iter_last(I, fr, fn, a):
    items = as_items(I, a[0]); return some(items[-1]) if items else none()
def m_iter_chain(I, fr, fn, a): return IterObj(as_items(I, a[0]) + as_items(I, a[1]))
def m_iter_all_any(I, fr, fn, a):
    any_ = fn.split('::')[-2 if fn.endswith('>') else -1].startswith('any') or '::any::' in fn
    for x in as_items(I, a[0]):
        t = I.truth(I.call_closure(fr, a[1], [x]))
        if any_ and t: return True
        if not any_ and not t: return False
    return not any_
def m_iter_sum_dispatch(I, fr, fn, a):
    m = re.match(r'^<(.*) as core::iter::Iterator>::(sum|product)::<(.*)>$', fn)
    ity, which, out = m.groups()
    items = as_items(I, a[0]); a[0] = IterObj(items)
    # element type: references if the iterator yields references
    elem = '&' + out if (items and isinstance(items[0], (Ref, SliceRef))) or 'Iter<' in ity else out
    tr = 'Sum' if which == 'sum' else 'Product'
    return I.call(fr, f'<{out} as core::iter::{tr}<{elem}>>::{which}::<I>', [a[0]])
def m_unwrap_or_default(I, fr, fn, a):
    e = a[0]
    if e.variant in ('Some', 'Ok'): return e.fields[0]
    m = re.match(r'^core::(?:option::Option|result::Result)::<(.*?)(?:, .*)?>::unwrap_or_default$', fn)
    return I.call(fr, f'<{m.group(1)} as core::default::Default>::default', [])
def m_unwrap_or_else(I, fr, fn, a):
    e, f = a
    if e.variant in ('Some', 'Ok'): return e.fields[0]
    return I.call_closure(fr, f, [] if e.variant == 'None' else [e.fields[0]])
def m_ok_or_else(I, fr, fn, a):
    e, f = a
    return ok(e.fields[0]) if e.variant == 'Some' else err(I.call_closure(fr, f, []))
def m_bool_then(I, fr, fn, a):
    c = I.truth(a[0])
    if fn.endswith('then_some'): return some(a[1]) if c else none()
    return some(I.call_closure(fr, a[1], [])) if c else none()
def m_option_copied(I, fr, fn, a):
    e = a[0]
    return some(cp(D(I, e.fields[0]))) if e.variant == 'Some' else e
def m_option_filter(I, fr, fn, a):
    e, f = a
    if e.variant == 'None': return e
    return e if I.truth(I.call_closure(fr, f, [_tmp_ref(I, e.fields[0])])) else none()

def _ity(fn):
    m = re.search(r'<impl (\w+)>::\w+$', fn) or re.match(r'^<(\w+) as ', fn)
    return m.group(1) if m else None
def _wrapi(v, ty):
    bits = INT_BITS[ty]; v &= (1 << bits) - 1
    if ty.startswith('i') and v >> (bits - 1): v -= 1 << bits
    return v
def m_int_minmax(I, fr, fn, a):
    x, y = D(I, a[0]), D(I, a[1])
    if not (isinstance(x, int) and isinstance(y, int)): return NotImplemented
    return min(x, y) if fn.endswith('min') else max(x, y)
def m_int_cmp(I, fr, fn, a):
    x, y = D(I, a[0]), D(I, a[1])
    if not (isinstance(x, int) and isinstance(y, int)): return NotImplemented
    return Enum('core::cmp::Ordering', 'Less' if x < y else ('Equal' if x == y else 'Greater'), [])
def _bv2(x, y, ty):
    bits = INT_BITS[ty]
    bv = lambda v: z3.BitVecVal(v, bits) if isinstance(v, int) else v
    return bv(x), bv(y), bits
def m_int_wrapping(I, fr, fn, a):
    ty = _ity(fn); op = fn.split('::')[-1]
    x, y = a[0], a[1]
    if (z3.is_bv(x) or z3.is_bv(y)) and ty in INT_BITS:
        X, Y, bits = _bv2(x, y, ty)
        return z3.simplify({'wrapping_add': X + Y, 'wrapping_sub': X - Y, 'wrapping_mul': X * Y}[op])
    if not (isinstance(x, int) and isinstance(y, int)): return NotImplemented
    r = {'wrapping_add': x + y, 'wrapping_sub': x - y, 'wrapping_mul': x * y}[op]
    return _wrapi(r, ty)
def m_int_overflowing(I, fr, fn, a):
    ty = _ity(fn); op = fn.split('::')[-1]; x, y = a[0], a[1]
    sg = ty.startswith('i')
    if (z3.is_bv(x) or z3.is_bv(y)) and ty in INT_BITS:
        X, Y, bits = _bv2(x, y, ty)
        if op == 'overflowing_add': r = X + Y; o = z3.Not(z3.And(z3.BVAddNoOverflow(X, Y, sg), z3.BVAddNoUnderflow(X, Y))) if sg else z3.Not(z3.BVAddNoOverflow(X, Y, False))
        elif op == 'overflowing_sub': r = X - Y; o = z3.Not(z3.And(z3.BVSubNoOverflow(X, Y), z3.BVSubNoUnderflow(X, Y, True))) if sg else z3.ULT(X, Y)
        else: r = X * Y; o = z3.Not(z3.And(z3.BVMulNoOverflow(X, Y, sg), z3.BVMulNoUnderflow(X, Y))) if sg else z3.Not(z3.BVMulNoOverflow(X, Y, False))
        return Agg('tuple', [z3.simplify(r), z3.simplify(o)])
    if not (isinstance(x, int) and isinstance(y, int)): return NotImplemented
    r = {'overflowing_add': x + y, 'overflowing_sub': x - y, 'overflowing_mul': x * y}[op]
    w = _wrapi(r, ty)
    return Agg('tuple', [w, w != r])
def m_int_checked(I, fr, fn, a):
    ty = _ity(fn); op = fn.split('::')[-1]; x, y = a[0], a[1]
    if not (isinstance(x, int) and isinstance(y, int)): return NotImplemented
    if op in ('checked_div', 'checked_rem') and y == 0: return none()
    r = {'checked_add': x + y, 'checked_sub': x - y, 'checked_mul': x * y, 'checked_div': x // y if y else 0, 'checked_rem': x % y if y else 0}[op]
    return some(r) if _wrapi(r, ty) == r else none()
def m_int_saturating(I, fr, fn, a):
    ty = _ity(fn); op = fn.split('::')[-1]; x, y = a[0], a[1]
    if not (isinstance(x, int) and isinstance(y, int)): return NotImplemented
    bits = INT_BITS[ty]; lo, hi = (-(1 << (bits - 1)), (1 << (bits - 1)) - 1) if ty.startswith('i') else (0, (1 << bits) - 1)
    r = {'saturating_add': x + y, 'saturating_sub': x - y, 'saturating_mul': x * y}[op]
    return max(lo, min(hi, r))
def m_int_bits(I, fr, fn, a):
    ty = _ity(fn); op = fn.split('::')[-1]; x = a[0]; bits = INT_BITS[ty]
    if not isinstance(x, int): return NotImplemented
    u = x & ((1 << bits) - 1)
    if op == 'leading_zeros': return bits - u.bit_length()
    if op == 'trailing_zeros': return bits if u == 0 else (u & -u).bit_length() - 1
    if op == 'count_ones': return bin(u).count('1')
    if op == 'is_power_of_two': return u != 0 and u & (u - 1) == 0
    if op == 'swap_bytes': return int.from_bytes(u.to_bytes(bits // 8, 'little'), 'big')
    return NotImplemented
def m_to_be_bytes(I, fr, fn, a):
    bits = INT_BITS[_ity(fn)]; v = a[0]
    if isinstance(v, int): return [(v >> (8 * i)) & 255 for i in reversed(range(bits // 8))]
    return [z3.simplify(z3.Extract(8 * i + 7, 8 * i, v)) for i in reversed(range(bits // 8))]
def m_from_be_bytes(I, fr, fn, a): return m_from_le_bytes(I, fr, fn, [list(reversed(a[0]))])

def _cb(c):
    b = choice_bool(c)
    return z3.BoolVal(b) if isinstance(b, bool) else b
def _mk_choice(b):
    b = z3.simplify(b) if isinstance(b, z3.ExprRef) else b
    if isinstance(b, z3.ExprRef) and z3.is_true(b): b = True
    elif isinstance(b, z3.ExprRef) and z3.is_false(b): b = False
    return Agg('subtle::Choice', [b])
def m_int_cteq(I, fr, fn, a):
    x, y = D(I, a[0]), D(I, a[1])
    if isinstance(x, int) and isinstance(y, int): return _mk_choice(x == y)
    return _mk_choice(_bv_eq(x, y))
def m_choice_binop(I, fr, fn, a):
    x, y = _cb(D(I, a[0])), _cb(D(I, a[1]))
    op = 'and' if 'BitAnd' in fn else ('or' if 'BitOr' in fn else 'xor')
    r = {'and': z3.And(x, y), 'or': z3.Or(x, y), 'xor': z3.Xor(x, y)}[op]
    if fn.endswith('_assign'): I.store(a[0], _mk_choice(r)); return UNIT
    return _mk_choice(r)
def m_choice_unwrap_u8(I, fr, fn, a):
    b = choice_bool(D(I, a[0]))
    if isinstance(b, bool): return int(b)
    return z3.If(b, z3.BitVecVal(1, 8), z3.BitVecVal(0, 8))

STD_FNS = [
    (r'^<[ui](8|16|32|64|128|size) as subtle::ConstantTimeEq>::ct_eq$', m_int_cteq),
    (r'^<subtle::Choice as core::ops::(BitAnd|BitOr|BitXor)(Assign)?>::(bitand|bitor|bitxor)(_assign)?$', m_choice_binop),
    (r'^subtle::Choice::unwrap_u8$', m_choice_unwrap_u8),
    (r'^<[ui](8|16|32|64|128|size) as core::cmp::Ord>::(min|max)$', m_int_minmax), (r'^core::cmp::(min|max)::<[ui](8|16|32|64|128|size)>$', m_int_minmax),
    (r'^<[ui](8|16|32|64|128|size) as core::cmp::Ord>::cmp$', m_int_cmp),
    (r'^core::num::<impl \w+>::wrapping_(add|sub|mul)$', m_int_wrapping), (r'^core::num::<impl \w+>::checked_(add|sub|mul|div|rem)$', m_int_checked),
    (r'^core::num::<impl \w+>::saturating_(add|sub|mul)$', m_int_saturating), (r'^core::num::<impl \w+>::overflowing_(add|sub|mul)$', m_int_overflowing),
    (r'^core::num::<impl \w+>::(leading_zeros|trailing_zeros|count_ones|is_power_of_two|swap_bytes)$', m_int_bits),
    (r'^core::num::<impl \w+>::to_be_bytes$', m_to_be_bytes), (r'^core::num::<impl \w+>::from_be_bytes$', m_from_be_bytes),
    (r'^core::slice::<impl \[.*\]>::(first|last)_chunk::<\d+>$', m_first_chunk),
    (r'^core::slice::<impl \[.*\]>::get::', m_slice_get),
    (r'^core::slice::<impl \[.*\]>::is_empty$', m_slice_is_empty),
    (r'^core::slice::<impl \[.*\]>::split_at$', m_slice_split_at),
    (r'^core::slice::<impl \[.*\]>::(first|last)$', m_slice_first_last),
    (r'^<.* as core::iter::Iterator>::take$', m_iter_take), (r'^<.* as core::iter::Iterator>::skip$', m_iter_skip),
    (r'^<.* as core::iter::Iterator>::filter::', m_iter_filter), (r'^<.* as core::iter::Iterator>::take_while::', m_iter_take_while),
    (r'^<.* as core::iter::Iterator>::reduce::', m_iter_reduce), (r'^<.* as core::iter::Iterator>::count$', m_iter_count),
    (r'^<.* as core::iter::Iterator>::last$', m_iter_last), (r'^<.* as core::iter::Iterator>::chain::', m_iter_chain),
    (r'^<.* as core::iter::Iterator>::(all|any)::', m_iter_all_any),
    (r'^<.* as core::iter::Iterator>::(sum|product)::<.*>$', m_iter_sum_dispatch),
    (r'^core::(option::Option|result::Result)::<.*>::unwrap_or_default$', m_unwrap_or_default),
    (r'^core::(option::Option|result::Result)::<.*>::unwrap_or_else::', m_unwrap_or_else),
    (r'^core::option::Option::<.*>::ok_or_else::', m_ok_or_else),
    (r'^core::bool::<impl bool>::then(_some)?(::.*)?$', m_bool_then),
    (r'^core::option::Option::<&.*>::(copied|cloned)$', m_option_copied),
    (r'^core::option::Option::<.*>::filter::', m_option_filter),
    (r'^<.* as core::ops::Try>::branch$', m_try_branch),
    (r'^<.* as core::ops::FromResidual<.*>>::from_residual$', m_from_residual),
    (r'^<(u\d+|usize|i\d+) as core::convert::From<(u\d+|bool|usize)>>::from$', m_int_from),
    (r'^<\[\w+; \d+\] as core::convert::TryFrom<&\[\w+\]>>::try_from$', m_slice_try_from_array),
    (r'^<&\[\w+; \d+\] as core::convert::TryFrom<&\[\w+\]>>::try_from$', m_ref_slice_try_from_array),
    (r'^<.* as core::convert::Into<.*>>::into$', m_into),
    (r'^<.* as core::convert::TryInto<.*>>::try_into$', m_try_into),
    (r'^<.* as core::convert::From<.*>>::from$', lambda I, fr, fn, a: a[0] if re.match(r'^<(.*) as core::convert::From<\1>>::from$', fn) else NotImplemented),
    (r'^core::(option::Option|result::Result)::<.*>::unwrap$', m_option_unwrap),
    (r'^core::(option::Option|result::Result)::<.*>::expect$', m_expect),
    (r'^core::result::Result::<.*>::map_err::', m_map_err),
    (r'^core::option::Option::<.*>::ok_or::', m_ok_or),
    (r'^core::result::Result::<.*>::ok$', m_result_ok),
    (r'^core::(option::Option|result::Result)::<.*>::map::', m_option_map),
    (r'^core::(option::Option|result::Result)::<.*>::and_then::', m_and_then),
    (r'^core::(option::Option|result::Result)::<.*>::(is_ok|is_some)$', m_is_ok),
    (r'^core::(option::Option|result::Result)::<.*>::(is_err|is_none)$', m_is_err),
    (r'^core::(option::Option|result::Result)::<.*>::unwrap_or$', m_unwrap_or),
    (r'^<.* as core::clone::Clone>::clone$', m_clone),
    (r'^<.* as core::borrow::Borrow<.*>>::borrow$', m_borrow),
    (r'^<.* as core::convert::AsRef<.*>>::as_ref$', lambda I, fr, fn, a: I.deref(a[0]) if isinstance(a[0], Ref) and isinstance(I.deref(a[0]), (SliceRef, Ref)) else NotImplemented),
    (r'^<.* as core::convert::AsRef<.*>>::as_ref$', lambda I, fr, fn, a: m_vec_deref(I, fr, fn, a) if isinstance(I.deref(a[0]), Agg) and I.deref(a[0]).name.endswith('Vec') else (SliceRef(a[0], 0, len(I.deref(a[0]))) if isinstance(a[0], Ref) and isinstance(I.deref(a[0]), list) else a[0])),
    (r'^<once_cell::sync::Lazy<.*> as core::ops::Deref>::deref$', m_lazy_deref),
    (r'^once_cell::sync::Lazy::<.*>::new$', m_lazy_new),
    (r'^<(alloc|ark_ff|ark_std|std)::vec::Vec<.*> as core::ops::Deref(Mut)?>::deref(_mut)?$', m_vec_deref),
    (r'^<.* as core::iter::IntoIterator>::into_iter$', m_into_iter),
    (r'^core::slice::<impl \[.*\]>::iter(_mut)?$', m_iter),
    (r'^core::array::<impl \[.*\]>::iter(_mut)?$', m_iter),
    (r'^<.* as core::iter::Iterator>::next$', m_iter_next),
    (r'^<.* as core::iter::Iterator>::rev$', m_iter_rev),
    (r'^<.* as core::iter::Iterator>::map::', m_iter_map),
    (r'^<.* as core::iter::Iterator>::zip::', m_iter_zip),
    (r'^<.* as core::iter::Iterator>::fold::', m_iter_fold), (r'^<.* as core::iter::Iterator>::size_hint$', m_size_hint),
    (r'^<.* as core::iter::Iterator>::collect::', m_iter_collect),
    (r'^<.* as core::iter::Iterator>::copied::', m_iter_copied),
    (r'^<.* as core::iter::Iterator>::cloned::', m_iter_copied),
    (r'^<.* as core::iter::Iterator>::enumerate$', m_iter_enumerate),
    (r'^core::iter::once::', m_iter_once),
    (r'^core::ops::RangeInclusive::<.*>::new$', m_range_inclusive_new),
    (r'^core::slice::<impl \[.*\]>::chunks(_exact)?$', m_slice_chunks),
    (r'^core::slice::<impl \[.*\]>::len$', m_slice_len),
    (r'^core::slice::<impl \[.*\]>::copy_from_slice$', m_copy_from_slice),
    (r'^core::slice::<impl \[.*\]>::reverse$', m_slice_reverse),
    (r'^(alloc|ark_std|std|ark_ff)::slice::<impl \[.*\]>::to_vec$', m_slice_to_vec),
    (r'^<.* as core::ops::Index(Mut)?<core::ops::Range(To|From|Full)?(<usize>)?>>::index(_mut)?$', m_index_range),
    (r'^<.* as core::ops::Index(Mut)?<usize>>::index(_mut)?$', m_index_usize),
    (r'^<\[\w+; \d+\] as core::cmp::PartialEq>::eq$', m_array_eq),
    (r'^<\[\w+\] as core::cmp::PartialEq>::eq$', m_array_eq),
    (r'^core::num::<impl \w+>::to_le_bytes$', m_to_le_bytes),
    (r'^core::num::<impl \w+>::from_le_bytes$', m_from_le_bytes),
    (r'^core::num::<impl \w+>::pow$', m_pow_int),
    (r'^<subtle::Choice as core::convert::From<u8>>::from$', m_choice_from_u8),
    (r'^<subtle::Choice as core::ops::Not>::not$', m_choice_not),
    (r'^<bool as core::convert::From<subtle::Choice>>::from$', m_bool_from_choice),
    (r'^<u\d+ as subtle::ConditionallySelectable>::conditional_select$', m_u_conditional_select),
    (r'^<&?u\d+ as core::ops::Shr<&?\w+>>::shr$', m_shr_ref),
    (r'^core::mem::replace::', m_mem_replace),
    (r'^alloc::boxed::Box::<.*>::new$', m_box_new),
]

def field_poly_models():
    """W-level contracts for all three fields, both wrappers (u32 and u64), POLY domain"""
    W = r'fields::f[pqr]::u(32|64)::wrapper::F[pqr]'
    return [
        (rf'^{W}::add$', m_fe_binop('add')), (rf'^{W}::sub$', m_fe_binop('sub')), (rf'^{W}::mul$', m_fe_binop('mul')),
        (rf'^{W}::neg$', m_fe_neg), (rf'^{W}::square$', m_fe_square), (rf'^{W}::inverse$', m_fe_inverse),
        (rf'^{W}::from_montgomery_limbs$', m_from_montgomery_limbs), (rf'^{W}::from_le_limbs$', m_from_le_limbs), (rf'^{W}::from_raw_bytes$', m_from_raw_bytes),
        (rf'^<{W} as core::cmp::PartialEq>::eq$', m_fe_eq), (rf'^<{W} as core::cmp::PartialEq>::ne$', m_fe_ne),
        (rf'^<&{W} as core::cmp::PartialEq>::eq$', m_fe_eq), (rf'^<&{W} as core::cmp::PartialEq>::ne$', m_fe_ne),
        (rf'^<{W} as sign::Sign>::is_nonnegative$', m_is_nonnegative),
        (rf'^<{W} as subtle::ConditionallySelectable>::conditional_select$', m_conditional_select_fe),
        (rf'^<{W} as subtle::ConstantTimeEq>::ct_eq$', m_ct_eq_fe),
        (r'::(non_arkworks_)?sqrt_ratio_zeta$', m_sqrt_ratio_zeta),
    ]

ARK_CONFIG_FIELD = {'ark_bls12_377::FqConfig': 'Fp', 'ark_bls12_377::FrConfig': 'Fq', 'ark_ed_on_bls12_377::FrConfig': 'Fr', 'ark_ed_on_bls12_377::FqConfig': 'Fq'}
def ark_field(fn):
    m = re.search(r'MontBackend<([\w:]+), \d+>', fn)
    if not m or m.group(1) not in ARK_CONFIG_FIELD: raise Unsupported('unknown arkworks field config in ' + fn)
    return ARK_CONFIG_FIELD[m.group(1)]

def ark_ff_models():
    def m_fp_new(I, fr, fn, a):
        b = a[0]; l = b.fields[0] if isinstance(b, Agg) else b
        return FE.const(ark_field(fn), limbs_to_int(l))
    def m_fp_new_unchecked(I, fr, fn, a):
        b = a[0]; l = b.fields[0] if isinstance(b, Agg) else b
        return mont_to_fe(ark_field(fn), l)
    def m_from_sign_and_limbs(I, fr, fn, a):
        pos, l = a; l = I.deref(l)
        v = limbs_to_int(l)
        return FE.const(ark_field(fn), v if pos else -v)
    def m_bigint_from_fp(I, fr, fn, a):
        x = D(I, a[0])
        if not (isinstance(x, FE) and x.is_const()): return NotImplemented
        n = LIMBS64[x.field]; v = x.const_value()
        return Agg('ark_ff::BigInt', [[(v >> (64 * i)) & (2 ** 64 - 1) for i in range(n)]])
    def m_bigint_to_bytes_le(I, fr, fn, a):
        b = D(I, a[0]); l = b.fields[0]
        if not all(isinstance(x, int) for x in l): return NotImplemented
        v = limbs_to_int(l)
        return Agg('alloc::vec::Vec', [[(v >> (8 * i)) & 255 for i in range(8 * len(l))]])
    def m_field_pow(I, fr, fn, a):
        x = D(I, a[0]); e = D(I, a[1])
        if isinstance(e, (Ref, SliceRef)): e = I.deref(e)
        l = e.fields[0] if isinstance(e, Agg) else e
        if not (isinstance(x, FE) and all(isinstance(k, int) for k in l)): return NotImplemented
        ev = limbs_to_int(l)
        if x.is_const(): return FE.const(x.field, pow(x.const_value(), ev, x.p))
        return x.pow(ev)
    return [
        (r'^<ark_ff::BigInt<\d+> as core::convert::From<u(8|16|32|64)>>::from$', lambda I, fr, fn, a: Agg('ark_ff::BigInt', [[a[0]] + [0] * (int(re.search(r'BigInt<(\d+)>', fn).group(1)) - 1)]) if isinstance(a[0], int) else NotImplemented),
        (r'^<u(8|16|32|64) as core::convert::Into<ark_ff::BigInt<\d+>>>::into$', lambda I, fr, fn, a: Agg('ark_ff::BigInt', [[a[0]] + [0] * (int(re.search(r'BigInt<(\d+)>', fn).group(1)) - 1)]) if isinstance(a[0], int) else NotImplemented),
        (r'^ark_ff::fp::montgomery_backend::<impl ark_ff::Fp<.*>>::from_sign_and_limbs$', m_from_sign_and_limbs),
        (r'^<ark_ff::BigInt<\d+> as core::convert::From<ark_ff::Fp<.*>>>::from$', m_bigint_from_fp),
        (r'^<ark_ff::Fp<.*> as core::convert::Into<ark_ff::BigInt<\d+>>>::into$', m_bigint_from_fp),
        (r'^<ark_ff::BigInt<\d+> as ark_ff::BigInteger>::to_bytes_le$', m_bigint_to_bytes_le),
        (r'^<fields::f[pqr]::u64::wrapper::F[pqr] as ark_ff::Field>::pow::<.*>$', m_field_pow),
        (r'^ark_ff::BigInt::<\d+>::one$', lambda I, fr, fn, a: Agg('ark_ff::BigInt', [[1] + [0] * (int(re.search(r'<(\d+)>', fn).group(1)) - 1)])),
        (r'^ark_ff::BigInt::<\d+>::new$', lambda I, fr, fn, a: Agg('ark_ff::BigInt', [list(a[0])])),
        (r'^<ark_ff::BigInt<\d+> as core::default::Default>::default$', lambda I, fr, fn, a: Agg('ark_ff::BigInt', [[0] * int(re.search(r'BigInt<(\d+)>', fn).group(1))])),
        (r'^ark_ff::BigInt::<\d+>::zero$', lambda I, fr, fn, a: Agg('ark_ff::BigInt', [[0] * int(re.search(r'<(\d+)>', fn).group(1))])),
        (r'^ark_ff::fp::montgomery_backend::<impl ark_ff::Fp<.*>>::new$', m_fp_new),
        (r'^ark_ff::fp::montgomery_backend::<impl ark_ff::Fp<.*>>::new_unchecked$', m_fp_new_unchecked),
    ]

def base_models(extra_fns=(), extra_adts=(), extra_consts=()):
    return {
        'fns': list(extra_fns) + field_poly_models() + ark_ff_models() + STD_FNS,
        'adts': list(extra_adts) + [(r'fields::f[pqr]::u(32|64)::wrapper::F[pqr]$', adt_field_newtype)],
        'consts': list(extra_consts),
    }
