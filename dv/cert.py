"""Untrusted certificate search: ideal membership over F_p with cofactors (Buchberger's algorithm with cofactor tracking).
Nothing here is trusted: the caller has z3 check the resulting identity  goal = sum_i c_i * h_i  (coefficients mod p)."""
import time

class Timeout(Exception): pass

def _grevlex_key(m):
    return (sum(m), tuple(-e for e in reversed(m)))

class P:
    """sparse polynomial over F_p: dict exponent-vector -> coefficient in [1, p)"""
    __slots__ = ('d',)
    def __init__(s, d=None): s.d = d or {}
    def copy(s): return P(dict(s.d))
    def is_zero(s): return not s.d
    def lm(s): return max(s.d, key=_grevlex_key)

def p_add_scaled(a, b, coef, mono, p):
    """a += coef * x^mono * b   (in place)"""
    d = a.d
    for m, c in b.d.items():
        mm = tuple(x + y for x, y in zip(m, mono))
        v = (d.get(mm, 0) + coef * c) % p
        if v: d[mm] = v
        else: d.pop(mm, None)

def divides(m1, m2): return all(a <= b for a, b in zip(m1, m2))

def normal_form(f, cof, basis, p, deadline, full=True):
    """reduce f modulo basis [(g, cofs)], tracking cofactors w.r.t. the original generators.  Returns remainder P."""
    r = P()
    f = f.copy()
    while f.d:
        if time.time() > deadline: raise Timeout()
        m = f.lm(); c = f.d[m]
        hit = None
        for g, gc, glm in basis:
            if divides(glm, m): hit = (g, gc, glm); break
        if hit is None:
            if not full: return f
            r.d[m] = c; del f.d[m]; continue
        g, gc, glm = hit
        q = (c * pow(g.d[glm], -1, p)) % p
        mono = tuple(a - b for a, b in zip(m, glm))
        p_add_scaled(f, g, -q, mono, p)
        for i in range(len(cof)):
            if gc[i].d: p_add_scaled(cof[i], gc[i], -q, mono, p)
    return r

def membership(goal, hyps, nvars, p, timeout=60.0):
    """goal, hyps: dict exponent-vector -> int.  Returns list of cofactor dicts c_i with goal = sum c_i*hyps_i mod p, or None."""
    deadline = time.time() + timeout
    n = len(hyps)
    def mk(d): return P({m: c % p for m, c in d.items() if c % p})
    basis = []
    for i, h in enumerate(hyps):
        g = mk(h)
        if g.is_zero(): continue
        cofs = [P() for _ in range(n)]; cofs[i] = P({tuple([0] * nvars): 1})
        basis.append((g, cofs, g.lm()))
    zero = tuple([0] * nvars)
    def try_goal():
        f = mk(goal); cof = [P() for _ in range(n)]
        # cof tracks the NEGATED combination subtracted from f:  f_final = goal + sum cof_i h_i
        r = normal_form(f, cof, basis, p, deadline)
        if r.is_zero(): return [{m: (-c) % p for m, c in ci.d.items()} for ci in cof]
        return None
    try:
        res = try_goal()
        if res is not None: return res
        pairs = [(i, j) for i in range(len(basis)) for j in range(i)]
        while pairs:
            if time.time() > deadline: raise Timeout()
            # smallest lcm degree first
            pairs.sort(key=lambda ij: -sum(max(a, b) for a, b in zip(basis[ij[0]][2], basis[ij[1]][2])))
            i, j = pairs.pop()
            f, fc, flm = basis[i]; g, gc, glm = basis[j]
            l = tuple(max(a, b) for a, b in zip(flm, glm))
            if all(a + b == c for a, b, c in zip(flm, glm, l)): continue      # coprime leading monomials
            s = P(); sc = [P() for _ in range(n)]
            mf = tuple(a - b for a, b in zip(l, flm)); mg = tuple(a - b for a, b in zip(l, glm))
            cf = pow(f.d[flm], -1, p); cg = pow(g.d[glm], -1, p)
            p_add_scaled(s, f, cf, mf, p); p_add_scaled(s, g, -cg, mg, p)
            for k in range(n):
                if fc[k].d: p_add_scaled(sc[k], fc[k], cf, mf, p)
                if gc[k].d: p_add_scaled(sc[k], gc[k], -cg, mg, p)
            # reduce; normal_form subtracts multiples of basis elements from s and from sc consistently
            r = normal_form(s, sc, basis, p, deadline, full=True)
            if r.is_zero(): continue
            basis.append((r, sc, r.lm()))
            k = len(basis) - 1
            pairs += [(k, t) for t in range(k)]
            res = try_goal()
            if res is not None: return res
        return try_goal()
    except Timeout:
        return None
