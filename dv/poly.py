"""POLY value domain: a field element is a polynomial over F_p in the input symbols.

Every element carries (a) a canonical normal form (dict monomial -> centred coefficient) used to key decisions and to
propose verdicts, and (b) the structural z3 Int term of the computation that produced it; equalities are *decided* by z3 on
the structural terms (an identity over Z with coefficients reduced mod p is an identity over F_p)."""
import z3

FIELDS = {
    'Fq': 8444461749428370424248824938781546531375899335154063827935233455917409239041,
    'Fr': 2111115437357092606062206234695386632838870926408408195193685246394721360383,
    'Fp': 258664426012969094010652733694893533536393512754914660539884262666720468348340822774968888139573360124440321458177,
}
LIMBS64 = {'Fq': 4, 'Fr': 4, 'Fp': 6}

def centred(v, p):
    v %= p
    return v - p if v > p // 2 else v

class FE:
    __slots__ = ('field', 'd', 'term', '_key')
    def __init__(s, field, d, term):
        s.field, s.d, s.term, s._key = field, d, term, None
    # ---------------- constructors
    @staticmethod
    def const(field, v):
        c = centred(v, FIELDS[field])
        return FE(field, ({(): c} if c else {}), z3.IntVal(c))
    @staticmethod
    def sym(field, name):
        return FE(field, {((name, 1),): 1}, z3.Int(name))
    # ---------------- canonical helpers
    @property
    def p(s): return FIELDS[s.field]
    def key(s):
        if s._key is None: s._key = repr(sorted(s.d.items()))
        return s._key
    def is_const(s): return all(m == () for m in s.d)
    def const_value(s):
        return s.d.get((), 0) % s.p
    def is_zero_poly(s): return not s.d
    def lead_sign(s):
        """+1/-1: sign of the coefficient of the smallest monomial (for sign-normalised keys); 0 for the zero polynomial"""
        if not s.d: return 0
        m = min(s.d)
        return 1 if s.d[m] > 0 else -1
    # ---------------- arithmetic
    def _norm(s, d):
        p = s.p; out = {}
        for m, c in d.items():
            c = centred(c, p)
            if c: out[m] = c
        return out
    def add(s, o):
        d = dict(s.d)
        for m, c in o.d.items(): d[m] = d.get(m, 0) + c
        return FE(s.field, s._norm(d), _fold(s, o, lambda a, b: a + b, s.term + o.term))
    def sub(s, o):
        d = dict(s.d)
        for m, c in o.d.items(): d[m] = d.get(m, 0) - c
        return FE(s.field, s._norm(d), _fold(s, o, lambda a, b: a - b, s.term - o.term))
    def neg(s):
        return FE(s.field, {m: -c for m, c in s.d.items()}, _fold(s, None, lambda a, b: -a, -s.term))
    def mul(s, o):
        d = {}
        for m1, c1 in s.d.items():
            for m2, c2 in o.d.items():
                m = _mmul(m1, m2); d[m] = d.get(m, 0) + c1 * c2
        return FE(s.field, s._norm(d), _fold(s, o, lambda a, b: a * b, s.term * o.term))
    def square(s): return s.mul(s)
    def pow(s, e):
        r = FE.const(s.field, 1); b = s
        while e:
            if e & 1: r = r.mul(b)
            b = b.square(); e >>= 1
        return r
    def __repr__(s):
        if s.is_const(): return f'{s.field}({s.d.get((), 0)})'
        return f'{s.field}<{len(s.d)} terms>'
    def __deepcopy__(s, memo): return s

def _mmul(m1, m2):
    if not m1: return m2
    if not m2: return m1
    d = dict(m1)
    for v, e in m2: d[v] = d.get(v, 0) + e
    return tuple(sorted(d.items()))

def _fold(a, b, f, term):
    """keep constant terms folded (and reduced mod p, centred) so identities over Z are identities of the reduced coefficients"""
    if a.is_const() and (b is None or b.is_const()):
        va = a.d.get((), 0); vb = b.d.get((), 0) if b is not None else 0
        return z3.IntVal(centred(f(va, vb), a.p))
    return term

def to_sympy(fe, symtab):
    import sympy
    e = sympy.Integer(0)
    for m, c in fe.d.items():
        t = sympy.Integer(c)
        for v, k in m:
            t *= symtab.setdefault(v, sympy.Symbol(v)) ** k
        e += t
    return e

# ------------------------------------------------------------------ deciding identities
_TACTIC = None
def identity_solver():
    return z3.Then(z3.With('simplify', som=True, som_blowup=10**8, expand_power=True), 'smt').solver()

def prove_equal(pairs, timeout_ms=60000):
    """pairs: [(FE, FE)].  Ask z3 whether every pair is identical as integer polynomials.
    Returns ('unsat'|'sat'|'unknown', model_or_None, smt2_text)."""
    s = identity_solver(); s.set('timeout', timeout_ms)
    s.add(z3.Or([a.term != b.term for a, b in pairs]))
    r = s.check()
    txt = s.to_smt2()
    if r == z3.unsat: return 'unsat', None, txt
    if r == z3.sat:
        m = s.model()
        return 'sat', {str(d): str(m[d]) for d in m.decls()}, txt
    return 'unknown', None, txt
