"""C15 (decidable part): the circuit shape of every gadget is independent of the values it is synthesised with.

Every public function of src/ark_curve/r1cs/*.rs is executed on the MIR in the R1CS domain with symbolic operands, on every path
(every outcome of every value-dependent decision: zero tests, signs, squareness, hint branches, Boolean operands), in proving mode
and in setup mode (values absent: `value()` fails on variables, value closures are not evaluated).  Each call into ark-r1cs-std is
one event (function, kinds of the operands: variable / constant with its value / allocation mode).  Obligation: all event sequences of
a scenario are identical, and no constant handed to arkworks depends on a synthesis-time value.  That is: which arkworks gadget
calls are made, in which order, on which kinds of operands, never depends on input values or on the synthesis mode - so the
variables and constraint matrices arkworks emits are the same (its own gadgets being value-oblivious is the trusted base).

Second clause: an element allocated as public input contributes exactly one Fq input variable whose value is the element's
field encoding, and `ToConstraintField` reports exactly that one field element.

Third clause (pinned Groth16 keys): not decidable symbolically; the repository's own Groth16 tests are run natively against the
pinned keys as a ground oracle (outside the solver claim, see DESIGN)."""
import re, time, os, subprocess
import z3
from . import mirsym, models, common, spec, r1cs
from .mirsym import Agg, Enum, Ref, SliceRef, Unsupported, find_item
from .poly import FE, FIELDS
from .common import Ob
from .models import ok, err, UNIT
from .r1cs import FqVar, BoolVar, CSRef, run_r1cs, pathtag

OUTER = 'ark_curve::r1cs::element::ElementVar'
INNER = 'ark_curve::r1cs::inner::ElementVar'
SKIP = {'clone', 'fmt', 'cs', 'value'}
Q = FIELDS['Fq']

def _gen_affine():
    from .replay import ref_B
    B = ref_B(); zi = pow(B[2], -1, Q)
    return B[0] * zi % Q, B[1] * zi % Q

def _native_const_element():
    from . import curve
    x, y = _gen_affine()
    c = lambda v: FE.const('Fq', v)
    return curve.mk_element('ark', c(x), c(y), c(1), c(x * y % Q))

def _inner(tag, const=False):
    if const:
        x, y = _gen_affine()
        return Agg(INNER, [Agg('AffineVar', [FqVar(FE.const('Fq', x), True), FqVar(FE.const('Fq', y), True), Agg('PhantomData', [])])])
    return Agg(INNER, [Agg('AffineVar', [FqVar(FE.sym('Fq', tag + 'x')), FqVar(FE.sym('Fq', tag + 'y')), Agg('PhantomData', [])])])

def _outer(I, items, tag, state):
    L = r'^ark_curve::r1cs::lazy::<impl at [^>]*>::'
    if state == 'encoding':
        lz = I.call_item(find_item(items, L + 'new_from_encoding$'), [FqVar(FE.sym('Fq', tag + 's'))])
    else:
        lz = I.call_item(find_item(items, L + 'new_from_element$'), [_inner(tag)])
    return Agg(OUTER, [lz])

def _arg_plans(it):
    """argument plans for one fn item: list of lists of (kind, ...) per parameter; None if a parameter type is not understood"""
    hdr = it.impl_header() or ''
    plans = [[]]
    for i, (loc, ty) in enumerate(it.params):
        t = ty.strip(); ref = t.startswith('&'); mut = t.startswith('&mut')
        base = re.sub(r"^&(mut )?('\w+ )?", '', t)
        if base.startswith(OUTER): opts = [('outer', 'element', ref), ('outer', 'encoding', ref)]
        elif base.startswith(INNER): opts = [('inner', ref)]
        elif base.startswith('ark_r1cs_std::fields::fp::FpVar'): opts = [('fq', ref)]
        elif base.startswith('ark_r1cs_std::prelude::Boolean'): opts = [('bool', ref)]
        elif base.startswith('ark_curve::element::projective::Element'): opts = [('native', ref)]
        elif base.startswith('impl Into<ark_relations::r1cs::Namespace'): opts = [('cs',)]
        elif base.startswith('impl FnOnce()'): opts = [('closure',)]
        elif base.startswith('ark_r1cs_std::alloc::AllocationMode'):
            # the inner variable type is crate-private plumbing: its Input arm is `unreachable!()` by design (the outer type handles Input)
            opts = [('mode', 'Witness'), ('mode', 'Constant')] + ([('mode', 'Input')] if 'inner.rs' not in it.impl_at[0] else [])
        elif base.startswith('ark_curve::r1cs::lazy::LazyElementVar'): opts = [('lazy', 'element', ref), ('lazy', 'encoding', ref)]
        else: return None
        plans = [p + [o] for p in plans for o in opts]
    return plans

def _closure_type(it):
    m = re.search(r'AllocVar<(\w+), Fq>', it.impl_header() or '')
    if m: return m.group(1)
    return 'Element'

def scenarios(items):
    """(name, body, gadget key) for every public function of the r1cs modules and every operand-state combination"""
    out = []
    for k, it in sorted(items.items(), key=lambda kv: (kv[1].impl_at or ('', 0), kv[0])):
        if it.kind != 'fn' or not it.impl_at or '{closure' in k: continue
        f = it.impl_at[0]
        if not (f.startswith('src/ark_curve/r1cs/') and f.split('/')[-1] in ('element.rs', 'inner.rs', 'fqvar_ext.rs', 'ops.rs', 'lazy.rs')): continue
        fname = k.split('::')[-1]
        if fname in SKIP or 'verif_hooks' in k: continue
        plans = _arg_plans(it)
        if plans is None:
            out.append((f'{f}:{it.impl_at[1]} {fname}', None, it, None)); continue
        for plan in plans:
            tag = ','.join(p[1] if p[0] in ('outer', 'mode', 'lazy') else p[0] for p in plan)
            out.append((f'{f}:{it.impl_at[1]} `{(it.impl_header() or "")[:60]}`::{fname}({tag})', plan, it, fname))
    return out

def _run_scenario(it, plan, mode):
    ctype = _closure_type(it)
    def body(I, h, items):
        args = []; const_mode = any(p == ('mode', 'Constant') for p in plan)
        for i, p in enumerate(plan):
            nm = f'a{i}'
            if p[0] == 'outer': v = _outer(I, items, nm, p[1]); h.locals[nm] = v; args.append(Ref(h, nm, []) if p[2] else v)
            elif p[0] == 'lazy': v = _outer(I, items, nm, p[1]).fields[0]; h.locals[nm] = v; args.append(Ref(h, nm, []) if p[2] else v)
            elif p[0] == 'inner': v = _inner(nm); h.locals[nm] = v; args.append(Ref(h, nm, []) if p[1] else v)
            elif p[0] == 'fq': v = FqVar(FE.sym('Fq', nm)); h.locals[nm] = v; args.append(Ref(h, nm, []) if p[1] else v)
            elif p[0] == 'bool':
                # a Boolean operand is a circuit variable: its value must not matter either
                b = False if mode == 'setup' else I.ctx.decide(z3.Bool(nm + '_val'), key=nm + '_val')
                v = BoolVar(b); h.locals[nm] = v; args.append(Ref(h, nm, []) if p[1] else v)
            elif p[0] == 'native': v = _native_const_element(); h.locals[nm] = v; args.append(Ref(h, nm, []) if p[1] else v)
            elif p[0] == 'cs': args.append(CSRef())
            elif p[0] == 'mode': args.append(Enum('ark_r1cs_std::alloc::AllocationMode', p[1], []))
            elif p[0] == 'closure':
                from . import curve
                if ctype == 'Fq': val = FE.const('Fq', 5) if const_mode else FE.sym('Fq', 'cv')
                elif const_mode: val = _native_const_element()
                else: val = curve.mk_element('ark', *[FE.sym('Fq', n) for n in ('cX', 'cY', 'cZ', 'cT')])
                if ctype == 'AffinePoint' and not isinstance(val, FE):
                    pr = val.fields[0]
                    if const_mode: val = Agg('ark_curve::element::affine::AffinePoint', [Agg('Affine', [pr.fields[0], pr.fields[1]])])
                    else: val = Agg('ark_curve::element::affine::AffinePoint', [Agg('Affine', [FE.sym('Fq', 'cx'), FE.sym('Fq', 'cy')])])
                clo = Agg('{closure@harness}', [])
                def m_clo(I_, fr, fn, a, val=val):
                    f_ = a[0]
                    while isinstance(f_, Ref): f_ = I_.deref(f_)
                    if not (isinstance(f_, Agg) and f_.name == '{closure@harness}'): return NotImplemented
                    # the caller's value closure: the crate evaluates it eagerly in every mode (`let p = f()?;`), so a circuit
                    # has to hand over a (dummy) value in setup mode as well - as the repository's own test circuits do
                    return ok(val)
                I.models['fns'] = [(r'^<impl FnOnce.* as core::ops::FnOnce<\(\)>>::call_once$', m_clo)] + I.models['fns']
                args.append(clo)
        # native hint computations are opaque in shape runs: a fresh value, and a free outcome for the squareness flag (the gadget
        # code may branch on either - every such branch forks and the traces of both arms are compared)
        def m_sqrt(I_, fr, fn, a):
            st_ = I_.ctx.store; st_.nw += 1
            w = I_.ctx.decide(z3.Bool(f'hint_square{st_.nw}'), key=f'hint_square{st_.nw}')
            return Agg('tuple', [w, FE.sym('Fq', f'hint_y{st_.nw}')])
        def m_compress(I_, fr, fn, a):
            st_ = I_.ctx.store; st_.nw += 1
            return FE.sym('Fq', f'hint_enc{st_.nw}')
        def m_vec_passthrough(I_, fr, fn, a):
            # Vec<Boolean>::to_bits_le / Vec<UInt8>::to_bytes return (a copy of) the vector: no variables, no constraints
            I_.ctx.store.trace.append((fn.split(' as ')[-1][-50:], ('vec',)))
            return ok(mirsym.cp(I_.deref(a[0])) if isinstance(a[0], (Ref, SliceRef)) else a[0])
        I.models['fns'] = [(r'::sqrt_ratio_zeta$', m_sqrt), (r'^ark_curve::encoding::<impl[^>]*>::vartime_compress_to_field$', m_compress),
                           (r'^<(ark_ff|alloc|ark_std|std)::vec::Vec<ark_r1cs_std::prelude::(Boolean|UInt8)<.*>> as ark_r1cs_std::(ToBitsGadget|ToBytesGadget)<.*>>::(to_bits_le|to_bytes)$', m_vec_passthrough)] + I.models['fns']
        gen = None
        if any(p[0] == 'closure' for p in plan):
            gen = {'T': {'Element': 'ark_curve::element::projective::Element', 'AffinePoint': 'ark_curve::element::affine::AffinePoint', 'Fq': 'fields::fq::u64::wrapper::Fq'}[ctype]}
        r = I.call_item(it, args, generics=gen) if gen else I.call_item(it, args)
        return r
    return run_r1cs(body, mode)

def _first_diff(a, b):
    for i, (x, y) in enumerate(zip(a, b)):
        if x != y: return i, x, y
    if len(a) != len(b): return min(len(a), len(b)), (a[len(b)] if len(a) > len(b) else None), (b[len(a)] if len(b) > len(a) else None)
    return None

def check_shapes(part=None, nparts=1):
    from .curve import items_for
    items = items_for('ark'); obs = []
    scs = scenarios(items)
    for idx, (name, plan, it, fname) in enumerate(scs):
        if part is not None and idx % nparts != part: continue
        nm = 'r1cs-shape:' + name
        if plan is None:
            obs.append(Ob(nm, 'inconclusive', 'parameter types not understood by the harness: ' + ', '.join(p[1][:50] for p in it.params), 0, 'mirsym/R1CS')); continue
        t0 = time.time()
        traces = []; err_ = None
        for mode in ('shape', 'setup'):
            try: _, recs = _run_scenario(it, plan, mode)
            except Exception as e:
                err_ = f'{mode}: {type(e).__name__}: {e} :: ' + ' <- '.join(getattr(e, 'mir_stack', [])[:3]); break
            for r in recs:
                if 'pruned' in r: continue
                st = r['ctx'].store
                tr = list(st.trace)
                res_kind = 'panic' if 'panic' in r else (r['result'].variant if isinstance(r.get('result'), Enum) else 'value')
                traces.append((mode, pathtag(r), [str(c)[:80] for c in r['path']][:8], tr, res_kind, r.get('panic')))
        if err_ is not None:
            obs.append(Ob(nm, 'inconclusive', err_, time.time() - t0, 'mirsym/R1CS')); continue
        if not traces:
            obs.append(Ob(nm, 'inconclusive', 'no path', time.time() - t0, 'mirsym/R1CS')); continue
        bad = None
        # (a) value-dependent constants
        for mode, tag, path, tr, rk, pn in traces:
            for ev in tr:
                if any('<value-dependent' in d for d in ev[1]):
                    bad = f'a constant handed to `{ev[0]}` depends on a synthesis-time value ({[d for d in ev[1] if "<value" in d][0]}) [{mode} path {tag}: {path}]'; break
            if bad: break
        # (b) identical event sequences on all proving-mode paths that return Ok, and in setup mode
        if not bad:
            oks = [t for t in traces if t[4] in ('Ok', 'value')]
            ref = next((t for t in oks if t[0] == 'shape'), None)
            if ref is None and oks: ref = oks[0]
            if ref is not None:
                for t in oks:
                    d = _first_diff(ref[3], t[3])
                    if d is not None:
                        bad = (f'event {d[0]} differs: `{d[1]}` on [{ref[0]} path {ref[1]}: {ref[2]}] vs `{d[2]}` on [{t[0]} path {t[1]}: {t[2]}]'); break
            # a failing synthesis (Err / panic) in one mode or on one path only is value dependence as well, unless it is the documented
            # AssignmentMissing of an input-mode allocation whose value closure fails in setup mode
            if not bad:
                kinds = {(t[0], t[4]) for t in traces}
                hon = {k for m_, k in kinds if m_ == 'shape'}; su = {k for m_, k in kinds if m_ == 'setup'}
                if 'panic' in hon | su:
                    t = next(t for t in traces if t[4] == 'panic')
                    bad = f'synthesis panics on [{t[0]} path {t[1]}: {t[2]}]: {t[5]}'
                elif len(hon) > 1:
                    bad = f'synthesis succeeds on some proving-mode paths and fails on others: {sorted(hon)}'
                elif hon and su and hon != su and not (plan and ('mode', 'Input') in plan):
                    bad = f'synthesis result differs between proving mode ({sorted(hon)}) and setup mode ({sorted(su)})'
        npaths = len(traces); nev = len(traces[0][3])
        if bad: obs.append(Ob(nm, 'violated', bad, time.time() - t0, 'mirsym/R1CS path enumeration (shape trace)', None, {'kind': 'r1cs-shape', 'fn': fname, 'plan': [list(p) for p in plan], 'build': 'ark'}))
        else: obs.append(Ob(nm, 'proved', f'{npaths} paths (proving + setup), {nev} arkworks gadget calls each, identical', time.time() - t0, 'mirsym/R1CS path enumeration (shape trace)', {'paths': npaths, 'events': nev, 'first_events': [e[0] for e in traces[0][3][:6]]}))
    return obs

def check_public_input():
    """ElementVar::new_input allocates exactly one Fq input whose value is the field encoding; ToConstraintField agrees"""
    from .curve import items_for
    items = items_for('ark'); obs = []
    co = [FE.sym('Fq', n) for n in 'XYZT']
    for vt in ('Element', 'AffinePoint'):
        obs += _public_input_one(items, vt, co)
    return obs + _to_field_elements(items, co)

def _public_input_one(items, vt, co):
    from .curve import compare_fe, mk_element
    obs = []
    try: it = mirsym.find_item_hdr(items, r'^ark_curve::r1cs::element::.*::new_variable$', rf'AllocVar<{vt}, Fq> for ElementVar')
    except Unsupported as e: return [Ob(f'r1cs-shape:public input allocation from {vt}', 'inconclusive', str(e), 0, 'mirsym/R1CS')]
    def body(I, h, items_):
        if vt == 'Element': el = mk_element('ark', *co); gen = 'ark_curve::element::projective::Element'; sp = spec.encode(I, *co)
        else:
            el = Agg('ark_curve::element::affine::AffinePoint', [Agg('Affine', [co[0], co[1]])]); gen = 'ark_curve::element::affine::AffinePoint'
            sp = spec.encode(I, co[0], co[1], FE.const('Fq', 1), co[0].mul(co[1]))
        clo = Agg('{closure@harness}', [])
        I.models['fns'] = [(r'^<impl FnOnce.* as core::ops::FnOnce<\(\)>>::call_once$', r1cs.harness_closure(el))] + I.models['fns']
        r = I.call_item(it, [CSRef(), clo, Enum('ark_r1cs_std::alloc::AllocationMode', 'Input', [])], generics={'T': gen})
        return r, sp
    try: _, recs = run_r1cs(body, 'honest')
    except Exception as e:
        return [Ob(f'r1cs-shape:public input allocation from {vt}', 'inconclusive', f'{type(e).__name__}: {e} :: ' + ' <- '.join(getattr(e, 'mir_stack', [])[:3]), 0, 'mirsym/R1CS')]
    for r in recs:
        nm = f'r1cs-shape:ElementVar::new_input from {vt} contributes exactly one instance variable = field encoding [path {pathtag(r)}]'
        if 'pruned' in r: continue
        if 'panic' in r: obs.append(Ob(nm, 'violated', 'panics: ' + r['panic'], 0, 'mirsym/R1CS', None, {'kind': 'r1cs-pubinput', 'build': 'ark'})); continue
        res, sp = r['result']; st = r['ctx'].store
        inputs = [e for e in st.trace if 'new_input' in e[0] or ('new_variable' in e[0] and 'mode:Input' in e[1])]
        allocs = [e for e in st.trace if 'new_witness' in e[0] or 'new_variable' in e[0] or 'new_input' in e[0]]
        # instance variables contributed: a field/Boolean input is one, an AffineVar allocated in Input mode is two (x and y)
        n_inst = sum(2 if 'omit_' in e[0] else 1 for e in inputs)
        if n_inst != 1 or len(allocs) != 1:
            obs.append(Ob(nm, 'violated', f'{n_inst} instance variables from {len(inputs)} input allocation(s), {len(allocs)} allocations in total: {[e[0] for e in allocs]}', 0, 'mirsym/R1CS (shape trace)', None, {'kind': 'r1cs-pubinput', 'build': 'ark'})); continue
        vals = [x for x in st.log if x[0] == 'fq']
        if len(vals) != 1: obs.append(Ob(nm, 'inconclusive', f'{len(vals)} logged values', 0, 'mirsym/R1CS')); continue
        o = compare_fe(nm, vals[0][2], sp, {}, rec=r)
        if o.status == 'violated': o.model = {'kind': 'r1cs-pubinput', 'build': 'ark'}
        obs.append(o)
    return obs

def _to_field_elements(items, co):
    from .curve import compare_fe, mk_element
    obs = []
    # ToConstraintField
    it2 = find_item(items, r'^ark_curve::r1cs::<impl at [^>]*>::to_field_elements$')
    def body2(I, h, items_):
        h.locals['e'] = mk_element('ark', *co)
        return I.call_item(it2, [Ref(h, 'e', [])]), spec.encode(I, *co)
    try: _, recs = run_r1cs(body2, 'honest')
    except Exception as e:
        obs.append(Ob('r1cs-shape:ToConstraintField', 'inconclusive', f'{type(e).__name__}: {e} :: ' + ' <- '.join(getattr(e, 'mir_stack', [])[:3]), 0, 'mirsym/R1CS')); return obs
    for r in recs:
        nm = f'r1cs-shape:Element::to_field_elements is exactly [field encoding] [path {pathtag(r)}]'
        if 'pruned' in r: continue
        if 'panic' in r: obs.append(Ob(nm, 'violated', 'panics', 0, 'mirsym/R1CS', None, {'kind': 'r1cs-pubinput', 'build': 'ark'})); continue
        res, sp = r['result']
        v = res
        if isinstance(v, Enum) and v.variant == 'Some': v = v.fields[0]
        elif isinstance(v, Enum): obs.append(Ob(nm, 'violated', f'returns {v.variant}', 0, 'mirsym/R1CS', None, {'kind': 'r1cs-pubinput', 'build': 'ark'})); continue
        while isinstance(v, Agg) and len(v.fields) == 1 and not isinstance(v.fields[0], FE): v = v.fields[0]
        xs = v.fields[0] if isinstance(v, Agg) else v
        if isinstance(xs, FE): xs = [xs]
        if not isinstance(xs, list) or len(xs) != 1:
            obs.append(Ob(nm, 'violated', f'returns {len(xs) if isinstance(xs, list) else "?"} field elements', 0, 'mirsym/R1CS', None, {'kind': 'r1cs-pubinput', 'build': 'ark'})); continue
        o = compare_fe(nm, xs[0], sp, {}, rec=r)
        if o.status == 'violated': o.model = {'kind': 'r1cs-pubinput', 'build': 'ark'}
        obs.append(o)
    return obs


def check_groth16_native():
    """third clause, ground oracle (NOT a solver verdict): the repository's own Groth16 tests (tests/groth16_gadgets.rs: prove with the
    pinned proving keys, verify with the pinned verifying keys, happy and unhappy paths, 7 circuits) are run natively on a copy of
    the current tree.  A change of circuit shape that is the same for every input passes the shape-trace obligations and fails here."""
    import shutil
    src = os.path.join(common.WORK, 'groth16-src'); tgt = os.path.join(common.WORK, 'tgt-groth16')
    t0 = time.time()
    os.makedirs(src, exist_ok=True)
    r = subprocess.run(['rsync', '-a', '--delete', '--exclude', '.git', '--exclude', 'target', common.REPO + '/', src + '/'], capture_output=True, text=True)
    if r.returncode != 0: return [Ob('r1cs-shape:pinned Groth16 keys (native run)', 'inconclusive', 'rsync failed: ' + r.stderr[-300:], 0, 'native')]
    env = dict(os.environ, CARGO_NET_OFFLINE='true', CARGO_TARGET_DIR=tgt, RUSTFLAGS='-Awarnings')
    r = subprocess.run(['cargo', 'test', '--offline', '--release', '--features', 'r1cs', '--test', 'groth16_gadgets'], cwd=src, env=env, capture_output=True, text=True)
    out = r.stdout + r.stderr
    m = re.search(r'test result: (\w+)\. (\d+) passed; (\d+) failed', out)
    dt = time.time() - t0
    nm = 'r1cs-shape:proofs made with the pinned proving keys verify under the pinned verifying keys (repository Groth16 tests, native run on the current tree)'
    if m and m.group(1) == 'ok' and int(m.group(2)) >= 11: return [Ob(nm, 'proved', f'{m.group(2)} passed, 0 failed', dt, 'native cargo test (ground oracle, not a solver verdict)', {'tests_passed': int(m.group(2))})]
    if m:
        failed = re.findall(r'^test (\w+) \.\.\. FAILED', out, re.M)
        from . import replay
        path = replay.write_replay('C15', {'property': 'C15', 'build': 'ark', 'cmd': 'native:groth16', 'expected': 'all Groth16 tests of tests/groth16_gadgets.rs pass with the pinned keys',
                                           'got': f'{m.group(3)} failed: {failed[:8]}', 'what': 'cargo test --release --features r1cs --test groth16_gadgets on a copy of the current tree'})
        return [Ob(nm, 'violated', f'{m.group(3)} failed: {failed[:6]}', dt, 'native cargo test', None, {'kind': 'groth16-native', 'build': 'ark', 'replay': path, 'failed': failed})]
    return [Ob(nm, 'inconclusive', 'could not run: ' + out[-400:], dt, 'native cargo test')]
