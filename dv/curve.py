"""A-layer checks (curve algebra) on the MIR, POLY domain: decode, encode, Elligator, group law of the minimal backend, equality.
Each function returns a list of common.Ob."""
import re, time
import z3
from . import mirload, mirsym, models, poly, spec, common
from .mirsym import Agg, Enum, Ref, SliceRef, Panic, Unsupported, run_paths, find_item
from .poly import FE, prove_equal
from .common import Ob

Q = poly.FIELDS['Fq']
_items_cache = {}
def items_for(build):
    path = mirload.dump(build)
    if path not in _items_cache: _items_cache[path] = mirload.load(path)
    return _items_cache[path]

# ---------------------------------------------------------------------------------------------- arkworks curve types
def m_te_projective_new(I, fr, fn, a):
    """ark_ec twisted_edwards::Projective::new(x, y, t, z): normalises to affine and asserts on-curve; modelled as the same
    projective point plus an on-curve assertion that the caller's obligation list must discharge."""
    x, y, t, z = a
    I.ctx.__dict__.setdefault('oncurve_asserts', []).append((x, y, t, z))
    # second assertion of ark-ec's checked constructor: the curve configuration's subgroup predicate (crate code) on the affine point
    try:
        cand = [it for k, it in I.items.items() if it.kind == 'fn' and k.endswith('::is_in_correct_subgroup_assuming_on_curve') and k.startswith('ark_curve::edwards::')]
    except Exception: cand = []
    if len(cand) == 1 and all(isinstance(c, FE) for c in (x, y, z)):
        aff = m_te_projective_to_affine(I, fr, fn, [Agg('Projective', [x, y, t, z])])
        h = mirsym.Frame(mirsym.Item('fn', '<tmp>', '')); h.locals['p'] = aff
        r = I.call_item(cand[0], [Ref(h, 'p', [])])
        if r is False: raise Panic('ark_ec::twisted_edwards::Projective::new: assertion failed: p.is_in_correct_subgroup_assuming_on_curve()')
        if r is not True: raise Unsupported(f'subgroup predicate returned {r!r}')
    return Agg('Projective', [x, y, t, z])
def m_te_projective_new_unchecked(I, fr, fn, a): return Agg('Projective', list(a))
def m_te_affine_new_unchecked(I, fr, fn, a): return Agg('Affine', list(a))

def m_te_affine_to_projective(I, fr, fn, a):
    p = models.D(I, a[0])
    if not (isinstance(p, Agg) and p.name == 'Affine'): return NotImplemented
    x, y = p.fields
    return Agg('Projective', [x, y, x.mul(y), FE.const('Fq', 1)])
def m_te_projective_to_affine(I, fr, fn, a):
    p = models.D(I, a[0])
    if not (isinstance(p, Agg) and p.name == 'Projective'): return NotImplemented
    x, y, t, z = p.fields
    if z.is_const() and z.const_value() == 1: return Agg('Affine', [x, y])
    zi = models.m_fe_inverse(I, fr, fn, [z])
    if zi.variant == 'None': return Agg('Affine', [FE.const('Fq', 0), FE.const('Fq', 1)])
    zi = zi.fields[0]
    return Agg('Affine', [x.mul(zi), y.mul(zi)])

def ark_ec_models():
    PA = r'ark_ec::twisted_edwards::Affine<ark_curve::edwards::Decaf377EdwardsConfig>'
    PP = r'ark_ec::twisted_edwards::Projective<ark_curve::edwards::Decaf377EdwardsConfig>'
    return [
        (rf'^<{PA} as core::convert::Into<{PP}>>::into$', m_te_affine_to_projective), (rf'^<{PP} as core::convert::From<{PA}>>::from$', m_te_affine_to_projective),
        (rf'^<{PP} as ark_ec::CurveGroup>::into_affine$', m_te_projective_to_affine), (rf'^<{PA} as ark_ec::AffineRepr>::into_group$', m_te_affine_to_projective),
        (rf'^<{PP} as core::convert::Into<{PA}>>::into$', m_te_projective_to_affine), (rf'^<{PA} as core::convert::From<{PP}>>::from$', m_te_projective_to_affine),
        (r'^ark_ec::twisted_edwards::Projective::<.*>::new$', m_te_projective_new),
        (r'^ark_ec::twisted_edwards::Projective::<.*>::new_unchecked$', m_te_projective_new_unchecked),
        (r'^ark_ec::twisted_edwards::Affine::<.*>::new_unchecked$', m_te_affine_new_unchecked),
        # trait-default conversions of the crate's own wrapper types: AffineRepr::into_group is `self.into()`
        (r'^<ark_curve::element::affine::AffinePoint as ark_ec::AffineRepr>::into_group$', lambda I, fr, fn, a: I.call_item(mirsym.find_item_hdr(I.items, r'^ark_curve::element::.*::from$', r'From<AffinePoint> for Element'), [a[0]])),
        (r'^ark_ec::twisted_edwards::Affine::<.*>::is_zero$', lambda I, fr, fn, a: (lambda p: models.fe_is_zero(I, p.fields[0]) and models.fe_eq(I, p.fields[1], FE.const('Fq', 1)))(models.D(I, a[0]) if not isinstance(models.D(I, a[0]), Ref) else I.deref(models.D(I, a[0])))),
        (r'^ark_ec::twisted_edwards::Affine::<.*>::zero$', lambda I, fr, fn, a: Agg('Affine', [FE.const('Fq', 0), FE.const('Fq', 1)])),
        (rf'^<{PA} as ark_ec::AffineRepr>::zero$', lambda I, fr, fn, a: Agg('Affine', [FE.const('Fq', 0), FE.const('Fq', 1)])),
        (rf'^<{PP} as ark_ff::Zero>::zero$', lambda I, fr, fn, a: Agg('Projective', [FE.const('Fq', 0), FE.const('Fq', 1), FE.const('Fq', 0), FE.const('Fq', 1)])),
    ]

def canonical_parse_model(I, fr, fn, a):
    """contract of the canonical 32-byte parse (W layer; proved separately): Ok(s) with val(s) = int(bytes) iff int(bytes) < q.
    Also checks the wiring: the bytes handed over are exactly the 32 input bytes."""
    got = I.deref(a[0])
    inp = I.ctx.input_bytes
    same = len(got) == 32 and all((g is b) or (isinstance(g, z3.ExprRef) and isinstance(b, z3.ExprRef) and g.eq(b)) or (isinstance(g, int) and isinstance(b, int) and g == b) for g, b in zip(got, inp))
    if not same:
        I.ctx.notes.append('canonical parse called on something other than the 32 input bytes')
        sym = FE.sym('Fq', 's_other')
    else: sym = FE.sym('Fq', 's')
    bs = [z3.BitVecVal(b, 8) if isinstance(b, int) else b for b in got]
    val = z3.Concat(*reversed(bs))
    if I.ctx.decide(z3.ULT(val, z3.BitVecVal(Q, 256)), key='canonical'):
        if 'ark_serialize' in fn: return models.ok(sym)
        return models.ok(sym)
    if 'ark_serialize' in fn: return models.err(Enum('ark_serialize::SerializationError', 'InvalidData', []))
    return models.err(Enum('error::EncodingError', 'InvalidEncoding', []))

def curve_models(build, extra=()):
    fns = list(extra) + [
        (r'::from_bytes_checked$', canonical_parse_model),
        (r'^<fields::fq::u64::wrapper::Fq as ark_serialize::CanonicalDeserialize>::deserialize_compressed::<&\[u8\]>$', canonical_parse_model),
    ] + ark_ec_models()
    return models.base_models(extra_fns=fns)

def bv_feasible(path):
    """is the bit-vector part of a path condition satisfiable? (field atoms are left out: sound pruning only)"""
    bvs = [c for c in path if _is_bv_formula(c)]
    if not bvs: return True
    s = z3.Solver(); s.set('timeout', 20000); s.add(bvs)
    return s.check() != z3.unsat

def _is_bv_formula(e):
    seen = set(); st = [e]
    while st:
        x = st.pop()
        if x.get_id() in seen: continue
        seen.add(x.get_id())
        if z3.is_int(x) or (z3.is_app(x) and x.decl().kind() == z3.Z3_OP_UNINTERPRETED and x.num_args() > 0): return False
        if z3.is_const(x) and z3.is_bool(x) and x.decl().kind() == z3.Z3_OP_UNINTERPRETED: return False
        st.extend(x.children())
    return True

def element_coords(build, el):
    """(X, Y, Z, T) of an interpreted Element value"""
    if build == 'ark':
        inner = el.fields[0]
        x, y, t, z = inner.fields
        return x, y, z, t
    x, y, z, t = el.fields
    return x, y, z, t

def describe_path(rec):
    return [str(c).replace('\n', ' ')[:90] for c in rec['path']]

# ---------------------------------------------------------------------------------------------- C02 algebra
def check_decode_algebra(build):
    """decode (vartime_decompress) == spec.decode on every path; verdict and coordinates; no panic."""
    items = items_for(build)
    pat = r'^ark_curve::encoding::<impl at [^>]*>::vartime_decompress$' if build == 'ark' else r'^min_curve::element::<impl at [^>]*>::vartime_decompress$'
    entry = find_item(items, pat)
    M = curve_models(build)
    def body(I, h):
        bs = [z3.BitVec(f'b{i}', 8) for i in range(32)]
        I.ctx.input_bytes = bs
        h.locals['enc'] = Agg('Encoding', [list(bs)])
        try:
            code = ('ret', I.call_item(entry, [Ref(h, 'enc', [])]))
        except Panic as e:
            code = ('panic', e.msg)
        # specification on the same oracle
        val = z3.Concat(*reversed(bs))
        if I.ctx.decide(z3.ULT(val, z3.BitVecVal(Q, 256)), key='canonical'):
            sp = spec.decode(I, FE.sym('Fq', 's'))
        else: sp = None
        return code, sp
    t0 = time.time()
    recs = run_paths(items, M, body)
    obs = []
    npaths = 0
    for r in recs:
        if not bv_feasible(r['path']): continue
        npaths += 1
        code, sp = r['result']
        name = f'{build}:decode path {"".join("1" if d else "0" for d in r["decisions"])}'
        samp = {'path': describe_path(r)}
        if code[0] == 'panic':
            obs.append(Ob(name, 'violated', 'code panics: ' + code[1], 0, 'mirsym/POLY', samp, {'kind': 'panic'}, key=None)); continue
        res = code[1]
        if r['ctx'].notes:
            obs.append(Ob(name, 'violated', '; '.join(r['ctx'].notes), 0, 'mirsym/POLY', samp, {'kind': 'wiring'})); continue
        if res.variant == 'Err':
            ev = res.fields[0]
            if sp is not None:
                obs.append(Ob(name, 'violated', 'code rejects where the specification accepts', 0, 'mirsym/POLY', samp, {'kind': 'verdict'}))
            elif not (isinstance(ev, Enum) and ev.variant == 'InvalidEncoding'):
                obs.append(Ob(name, 'violated', f'rejection with {ev!r} instead of InvalidEncoding', 0, 'mirsym/POLY', samp, {'kind': 'errkind'}))
            else:
                obs.append(Ob(name, 'proved', 'both reject', 0, 'mirsym/path', samp))
            continue
        if sp is None:
            obs.append(Ob(name, 'violated', 'code accepts where the specification rejects', 0, 'mirsym/POLY', samp, {'kind': 'verdict'})); continue
        cx = element_coords(build, res.fields[0])
        t1 = time.time()
        ans, model, smt = prove_equal(list(zip(cx, sp)))
        dt = time.time() - t1
        samp['smt2_head'] = smt[:600]
        canon_equal = all(a.key() == b.key() for a, b in zip(cx, sp))
        if ans == 'unsat' and canon_equal: obs.append(Ob(name, 'proved', 'coordinates identical to spec (x,y,z,t)', dt, 'z3 identity', samp))
        elif ans == 'sat' and not canon_equal: obs.append(Ob(name, 'violated', 'coordinates differ from the specification', dt, 'z3 identity', samp, {'kind': 'coords', 'z3_model': model}))
        else: obs.append(Ob(name, 'inconclusive', f'z3 says {ans}, canonical forms equal={canon_equal}', dt, 'z3 identity', samp))
        # on-curve assertions executed on this path (arkworks Projective::new; debug assertion of the minimal backend)
        for k, (x, y, t, z) in enumerate(r['ctx'].__dict__.get('oncurve_asserts', [])):
            obs.append(oncurve_obligation(f'{name} on-curve assert #{k}', x, y, z, t, r['side']))
    if npaths < 4:
        obs.append(Ob(f'{build}:decode path count', 'inconclusive', f'only {npaths} feasible paths (vacuity guard: expected >= 4)', 0, 'mirsym'))
    return obs

# ---------------------------------------------------------------------------------------------- certificates
def side_polys(side):
    """side relations as polynomials that vanish: sqrt: y^2*den - num (ws) / y^2*den - zeta*num ; inv: x*i - 1"""
    out = []
    for s in side:
        if s[0] == 'sqrt':
            _, num, den, ws, y = s
            rhs = num if ws else FE.const('Fq', spec.ZETA).mul(num)
            out.append(y.square().mul(den).sub(rhs))
        elif s[0] == 'inv':
            _, x, i = s
            out.append(x.mul(i).sub(FE.const(x.field, 1)))
    return out

def certificate(goal, hyps, timeout_ms=120000):
    """Show goal ≡ 0 modulo the ideal (hyps) over F_p: an untrusted search (dv/cert.py, Buchberger with cofactor tracking)
    proposes cofactors c_i with goal = sum c_i h_i (mod p); z3 then checks that identity.  Returns (status, secs, info)."""
    from . import cert
    t0 = time.time()
    if goal.is_zero_poly(): return 'proved', 0.0, 'goal is identically zero'
    p = goal.p
    vars_ = sorted({v for f in [goal] + list(hyps) for m in f.d for v, _ in m})
    ix = {v: i for i, v in enumerate(vars_)}
    def vec(fe):
        out = {}
        for m, c in fe.d.items():
            e = [0] * len(vars_)
            for v, k in m: e[ix[v]] = k
            out[tuple(e)] = c % p
        return out
    cofs = cert.membership(vec(goal), [vec(h) for h in hyps], len(vars_), p, timeout=timeout_ms / 1000)
    if cofs is None: return 'inconclusive', time.time() - t0, 'no cofactor certificate found'
    acc = FE.const(goal.field, 0)
    for cd, h in zip(cofs, hyps):
        d = {}
        for e, c in cd.items():
            m = tuple(sorted((vars_[i], k) for i, k in enumerate(e) if k))
            d[m] = poly.centred(c, p)
        d = {m: c for m, c in d.items() if c}
        acc = acc.add(goal_reduced(FE(goal.field, d, None)).mul(goal_reduced(h)))
    ans, model, smt = prove_equal([(goal_reduced(goal), goal_reduced(acc))], timeout_ms)
    if ans == 'unsat' and goal.key() == acc.key(): return 'proved', time.time() - t0, f'cofactor certificate over {len(hyps)} relation(s) checked by z3'
    return 'inconclusive', time.time() - t0, f'certificate identity not confirmed (z3: {ans})'

def goal_reduced(fe):
    """rebuild the z3 term from the canonical form (coefficients reduced mod p) - used on both sides of certificate identities"""
    t = z3.IntVal(0)
    for m, c in sorted(fe.d.items()):
        mon = z3.IntVal(c)
        for v, k in m:
            for _ in range(k): mon = mon * z3.Int(v)
        t = t + mon
    return FE(fe.field, fe.d, t)

def sympy_to_fe(e, field):
    import sympy
    pl = sympy.Poly(e, *sorted(e.free_symbols, key=lambda x: x.name)) if e.free_symbols else None
    if pl is None: return FE.const(field, int(e))
    acc = FE.const(field, 0)
    gens = pl.gens
    for mon, c in pl.terms():
        t = FE.const(field, int(c))
        for g, k in zip(gens, mon):
            if k: t = t.mul(FE.sym(field, g.name).pow(k))
        acc = acc.add(t)
    return acc

def oncurve_obligation(name, X, Y, Z, T, side):
    """-X^2 + Y^2 = Z^2 + d T^2  and  T Z = X Y  modulo the side relations of the path"""
    d = FE.const('Fq', spec.Dd)
    g1 = Y.square().sub(X.square()).sub(Z.square()).sub(d.mul(T.square()))
    g2 = T.mul(Z).sub(X.mul(Y))
    hyps = side_polys(side)
    tot = 0; infos = []
    for g in (g1, g2):
        st, dt, info = certificate(g, hyps)
        tot += dt; infos.append(info)
        if st != 'proved': return Ob(name, 'inconclusive', info, tot, 'sympy cofactors + z3 identity')
    return Ob(name, 'proved', '; '.join(infos), tot, 'sympy cofactors + z3 identity', {'goal': 'Y^2 - X^2 - Z^2 - d T^2 in ideal(side relations); T Z - X Y likewise', 'relations': len(hyps)})

# ---------------------------------------------------------------------------------------------- C03 encode
def sym_element(build, names, neg_xy=False, scale=None):
    X, Y, Z, T = [FE.sym('Fq', n) for n in names]
    if neg_xy: X, Y = X.neg(), Y.neg()
    if scale is not None: X, Y, Z, T = [scale.mul(c) for c in (X, Y, Z, T)]
    return mk_element(build, X, Y, Z, T), (X, Y, Z, T)

def mk_element(build, X, Y, Z, T):
    if build == 'ark': return Agg('ark_curve::element::projective::Element', [Agg('Projective', [X, Y, T, Z])])
    return Agg('min_curve::element::Element', [X, Y, Z, T])

def pat_compress_to_field(build):
    return r'^ark_curve::encoding::<impl at [^>]*>::vartime_compress_to_field$' if build == 'ark' else r'^min_curve::element::<impl at [^>]*>::vartime_compress_to_field$'

def compare_fe(name, code, sp, samp, engine='z3 identity', rec=None):
    """code == sp as field elements on this path: identical polynomials (z3), or equal modulo the equalities assumed on the
    path (zero tests that were decided true) and the side relations (certificate)."""
    t1 = time.time()
    ans, model, smt = prove_equal([(code, sp)])
    dt = time.time() - t1
    samp = dict(samp); samp['smt2_head'] = smt[:500]
    ce = code.key() == sp.key()
    if ans == 'unsat' and ce: return Ob(name, 'proved', 'identical polynomials', dt, engine, samp)
    if ans == 'sat' and not ce:
        hyps = []
        if rec is not None:
            hyps = list(rec['ctx'].__dict__.get('zero_hyps', {}).values()) + side_polys(rec['side'])
        if hyps:
            st, dt2, info = certificate(code.sub(sp), hyps)
            if st == 'proved': return Ob(name, 'proved', 'equal modulo the path equalities: ' + info, dt + dt2, 'sympy cofactors + z3 identity', samp)
        return Ob(name, 'violated', 'result differs from the specification', dt, engine, samp, {'kind': 'value', 'z3_model': model})
    return Ob(name, 'inconclusive', f'z3 says {ans}, canonical forms equal={ce}', dt, engine, samp)

def compare_coords(name, a, b, samp, rec):
    """coordinate-wise compare_fe, folded into one obligation"""
    subs = [compare_fe(name, x, y, samp, rec=rec) for x, y in zip(a, b)]
    worst = next((o for o in subs if o.status == 'violated'), None) or next((o for o in subs if o.status == 'inconclusive'), None)
    if worst is not None: return worst
    o = subs[0]; o.secs = sum(x.secs for x in subs); o.detail = '; '.join(sorted({x.detail for x in subs})); return o

def check_encode_algebra(build):
    items = items_for(build); entry = find_item(items, pat_compress_to_field(build)); M = curve_models(build)
    def body(I, h):
        el, (X, Y, Z, T) = sym_element(build, ['X', 'Y', 'Z', 'T'])
        h.locals['e'] = el
        code = I.call_item(entry, [Ref(h, 'e', [])])
        return code, spec.encode(I, X, Y, Z, T)
    obs = []
    recs = run_paths(items, M, body)
    for r in recs:
        name = f'{build}:encode path {"".join("1" if d else "0" for d in r["decisions"])}'
        samp = {'path': describe_path(r)}
        if 'panic' in r: obs.append(Ob(name, 'violated', 'code panics: ' + r['panic'], 0, 'mirsym/POLY', samp, {'kind': 'panic'})); continue
        code, sp = r['result']
        obs.append(compare_fe(name, code, sp, samp, rec=r))
    if len(recs) < 4: obs.append(Ob(f'{build}:encode path count', 'inconclusive', f'only {len(recs)} paths', 0, 'mirsym'))
    return obs

def scaling_sqrt_model(lam):
    """Lemma L-scale (from contract S, zeta non-square, field axioms):  if sqrt_ratio(1, lam^4*D) may return (w, v') then
    sqrt_ratio(1, D) returns (w, +-v'*lam^2) for lam != 0.  Used to relate the two runs of representation-independence checks."""
    lam4 = lam.pow(4)
    def m(I, fr, fn, a):
        num, den = models.D(I, a[0]), models.D(I, a[1])
        memo = I.ctx.__dict__.setdefault('sqrt_memo', {})
        rel = I.ctx.__dict__.setdefault('sqrt_scaled', {})
        k = 'sqrt:' + num.key() + '/' + den.key()
        if k not in memo and not den.is_zero_poly():
            for k2, (ws2, y2) in list(memo.items()):
                num2k, den2k = k2[5:].split('/', 1)
                if num2k == num.key() and den2k == lam4.mul(den).key():
                    if models.fe_is_zero(I, num): break
                    if models.fe_is_zero(I, den): break
                    sigma = I.ctx.decide(z3.Bool('sigma_' + str(len(rel))), key='sigma:' + k)
                    y = y2.mul(lam.square()); y = y.neg() if sigma else y
                    rel[k] = k2
                    memo[k] = (ws2, y)
                    break
        return models.sqrt_ratio_contract(I, num, den)
    return m

def check_encode_invariance(build):
    """encode(P) is the same for: projective rescaling by lam != 0, the coset shift (-X,-Y,Z,T), and is 0 for both identity representatives"""
    items = items_for(build); entry = find_item(items, pat_compress_to_field(build))
    obs = []
    lam = FE.sym('Fq', 'lam')
    def enc(I, h, tag, coords):
        h.locals[tag] = mk_element(build, *coords)
        return I.call_item(entry, [Ref(h, tag, [])])
    # (1) rescaling: run the scaled point first, then the unscaled one under lemma L-scale
    M = curve_models(build, extra=[(r'::(non_arkworks_)?sqrt_ratio_zeta$', scaling_sqrt_model(lam))])
    def body_scale(I, h):
        I.ctx.nonzero = {'lam'}
        X, Y, Z, T = [FE.sym('Fq', n) for n in 'XYZT']
        s2 = enc(I, h, 'e2', [lam.mul(c) for c in (X, Y, Z, T)])
        s1 = enc(I, h, 'e1', (X, Y, Z, T))
        return s1, s2
    def body_shift(I, h):
        X, Y, Z, T = [FE.sym('Fq', n) for n in 'XYZT']
        return enc(I, h, 'e1', (X, Y, Z, T)), enc(I, h, 'e2', (X.neg(), Y.neg(), Z, T))
    def body_ident(I, h):
        I.ctx.nonzero = {'lam'}
        z = FE.const('Fq', 0)
        return enc(I, h, 'e1', (z, lam, lam, z)), enc(I, h, 'e2', (z, lam.neg(), lam, z)), z
    for tag, body, Mx in (('rescaling (lam X, lam Y, lam Z, lam T)', body_scale, M), ('coset shift (-X,-Y,Z,T)', body_shift, curve_models(build)), ('identity representatives (0,+-lam,lam,0)', body_ident, curve_models(build))):
        recs = run_paths(items, Mx, body)
        for r in recs:
            name = f'{build}:encode invariant under {tag} path {"".join("1" if d else "0" for d in r["decisions"])}'
            samp = {'path': describe_path(r)}
            if 'panic' in r: obs.append(Ob(name, 'violated', 'code panics: ' + r['panic'], 0, 'mirsym/POLY', samp, {'kind': 'panic'})); continue
            res = r['result']
            obs.append(compare_fe(name, res[0], res[1], samp, rec=r))
            if len(res) == 3: obs.append(compare_fe(name + ' (=0)', res[0], res[2], samp, rec=r))
    return obs

# ---------------------------------------------------------------------------------------------- C07 Elligator
def pat_elligator(build):
    return r'^ark_curve::elligator::<impl at [^>]*>::elligator_map$' if build == 'ark' else r'^min_curve::element::<impl at [^>]*>::elligator_map$'

def check_elligator(build):
    items = items_for(build); entry = find_item(items, pat_elligator(build)); M = curve_models(build)
    obs = []
    def body(I, h):
        r0 = FE.sym('Fq', 'r0')
        h.locals['r'] = r0; h.locals['rn'] = r0.neg()
        code = I.call_item(entry, [Ref(h, 'r', [])])
        sp = spec.elligator(I, r0)
        coden = I.call_item(entry, [Ref(h, 'rn', [])])
        return code, sp, coden
    recs = run_paths(items, M, body)
    for r in recs:
        name = f'{build}:elligator path {"".join("1" if d else "0" for d in r["decisions"])}'
        samp = {'path': describe_path(r)}
        if 'panic' in r: obs.append(Ob(name, 'violated', 'code panics: ' + r['panic'], 0, 'mirsym/POLY', samp, {'kind': 'panic'})); continue
        code, sp, coden = r['result']
        cx = element_coords(build, code); cn = element_coords(build, coden)
        obs.append(compare_coords(f'{name} == spec (X,Y,Z,T)', cx, sp, samp, r))
        obs.append(compare_coords(f'{name} invariant under r0 -> -r0', cn, cx, samp, r))
    if len(recs) < 4: obs.append(Ob(f'{build}:elligator path count', 'inconclusive', f'only {len(recs)} paths', 0, 'mirsym'))
    return obs

# ---------------------------------------------------------------------------------------------- C08 equality / hash / identity predicates
class LB:
    """byte i of the canonical little-endian form of a field value, possibly masked"""
    def __init__(s, fe, i, mask=0xff): s.fe, s.i, s.mask = fe, i, mask
    def __deepcopy__(s, memo): return s
    def mir_binop(s, op, x, y):
        o = y if x is s else x
        if op == 'BitAnd' and isinstance(o, int): return LB(s.fe, s.i, s.mask & o)
        raise Unsupported(f'byte op {op}')

class HashRec:
    """recording hasher"""
    def __init__(s): s.data = []
    def __deepcopy__(s, memo): return s

def c08_models(build):
    def m_proj_eq(I, fr, fn, a):
        p, q = models.D(I, a[0]), models.D(I, a[1])
        if not (isinstance(p, Agg) and p.name == 'Projective'): return NotImplemented
        x1, y1, t1, z1 = p.fields; x2, y2, t2, z2 = q.fields
        return models.fe_eq(I, x1.mul(z2), x2.mul(z1)) and models.fe_eq(I, y1.mul(z2), y2.mul(z1))
    def m_aff_eq(I, fr, fn, a):
        p, q = models.D(I, a[0]), models.D(I, a[1])
        if not (isinstance(p, Agg) and p.name == 'Affine'): return NotImplemented
        return models.fe_eq(I, p.fields[0], q.fields[0]) and models.fe_eq(I, p.fields[1], q.fields[1])
    def m_proj_is_zero(I, fr, fn, a):
        p = models.D(I, a[0])
        if not (isinstance(p, Agg) and p.name == 'Projective'): return NotImplemented
        x, y, t, z = p.fields
        return models.fe_is_zero(I, x) and models.fe_eq(I, y, z) and not models.fe_is_zero(I, y) and models.fe_is_zero(I, t)
    def m_aff_is_zero(I, fr, fn, a):
        p = models.D(I, a[0])
        if not (isinstance(p, Agg) and p.name == 'Affine'): return NotImplemented
        return models.fe_is_zero(I, p.fields[0]) and models.fe_eq(I, p.fields[1], FE.const('Fq', 1))
    def m_inner_hash(I, fr, fn, a):
        p = models.D(I, a[0]); h = a[1]
        while isinstance(h, Ref): h = I.deref(h)
        if isinstance(p, Agg) and p.name == 'Projective':
            aff = m_te_projective_to_affine(I, fr, fn, [p]); h.data.append(('inner-point', aff.fields[0], aff.fields[1]))
        elif isinstance(p, Agg) and p.name == 'Affine': h.data.append(('inner-point', p.fields[0], p.fields[1]))
        else: return NotImplemented
        return models.UNIT
    def m_bytes_hash(I, fr, fn, a):
        b = I.deref(a[0]); h = a[1]
        while isinstance(h, Ref): h = I.deref(h)
        h.data.append(('bytes', list(b))); return models.UNIT
    def m_hasher_write(I, fr, fn, a):
        h = a[0]
        while isinstance(h, Ref): h = I.deref(h)
        h.data.append(('bytes', list(I.deref(a[1])))); return models.UNIT
    def m_to_bytes_fe(I, fr, fn, a):
        v = models.D(I, a[0])
        if not isinstance(v, FE): return NotImplemented
        return [LB(v, i) for i in range(32)]
    def m_ser_fq(I, fr, fn, a):
        v = models.D(I, a[0])
        if not isinstance(v, FE): return NotImplemented
        tgt = a[1]; arr = I.deref(tgt.base)
        for i in range(32): arr[tgt.start + i] = LB(v, i)
        return models.ok(models.UNIT)
    def m_byte_and(I, fr, fn, a): return NotImplemented
    PA = r'ark_ec::twisted_edwards::Affine<ark_curve::edwards::Decaf377EdwardsConfig>'
    PP = r'ark_ec::twisted_edwards::Projective<ark_curve::edwards::Decaf377EdwardsConfig>'
    return curve_models(build, extra=[
        (rf'^<{PP} as core::cmp::PartialEq>::eq$', m_proj_eq), (rf'^<{PA} as core::cmp::PartialEq>::eq$', m_aff_eq),
        (rf'^<{PP} as ark_ff::Zero>::is_zero$', m_proj_is_zero), (rf'^<{PA} as ark_ec::AffineRepr>::is_zero$', m_aff_is_zero),
        (rf'^<{PP} as ark_ff::Zero>::zero$', lambda I, fr, fn, a: Agg('Projective', [FE.const('Fq', 0), FE.const('Fq', 1), FE.const('Fq', 0), FE.const('Fq', 1)])),
        (rf'^<{PA} as ark_ec::AffineRepr>::xy$', lambda I, fr, fn, a: NotImplemented),
        (rf'^<({PP}|{PA}) as core::hash::Hash>::hash::<.*>$', m_inner_hash),
        (r'^<\[u8; 32\] as core::hash::Hash>::hash::<.*>$', m_bytes_hash),
        (r' as core::hash::Hasher>::write$', m_hasher_write),
        (r'^fields::fq::u(32|64)::wrapper::Fq::to_bytes_le$', m_to_bytes_fe),
        (r'^<fields::fq::u64::wrapper::Fq as ark_serialize::CanonicalSerialize>::serialize_compressed::', m_ser_fq),
        (r'^<fields::fq::u64::wrapper::Fq as ark_serialize::CanonicalSerialize>::serialized_size$', lambda I, fr, fn, a: 32),
    ])

def check_equality_coherence(build):
    """== is the Decaf equality X1*Y2 == Y1*X2 (hence invariant under rescaling and the coset shift), hashing sees only the
    encoding, and every identity predicate is `X == 0` - for Element and (arkworks build) AffinePoint."""
    items = items_for(build); M = c08_models(build); obs = []
    lam = FE.sym('Fq', 'lam')
    E = 'ark_curve::element' if build == 'ark' else 'min_curve::element'
    def el(tag, names=None, coords=None):
        co = coords or tuple(FE.sym('Fq', tag + n) for n in 'XYZT'); return mk_element(build, *co), co
    def aff(tag, coords=None):
        co = coords or (FE.sym('Fq', tag + 'x'), FE.sym('Fq', tag + 'y')); return Agg(AFF_TY_, [Agg('Affine', list(co))]), co
    def spec_eq(I, p, q): return models.fe_is_zero(I, p[0].mul(q[1]).sub(p[1].mul(q[0])))
    def run(name, body, want_desc):
        try: recs = run_paths(items, M, body)
        except Exception as e:
            obs.append(Ob(name, 'inconclusive', f'{type(e).__name__}: {e} :: ' + ' <- '.join(getattr(e, 'mir_stack', [])[:3]), 0, 'mirsym/POLY')); return
        bad = 0
        for r in recs:
            if 'panic' in r: obs.append(Ob(name, 'violated', 'panics: ' + r['panic'], 0, 'mirsym/POLY', {'path': describe_path(r)}, {'kind': 'panic'})); bad += 1; continue
            got, want = r['result']
            if got != want:
                bad += 1
                obs.append(Ob(name + ' path ' + ''.join('1' if d else '0' for d in r['decisions']), 'violated', f'code answers {got}, {want_desc} is {want}', 0, 'mirsym path enumeration (POLY)', {'path': describe_path(r)}, {'kind': 'predicate'}))
        if not bad: obs.append(Ob(name, 'proved', f'{len(recs)} paths: answer always equals {want_desc}', 0, 'mirsym path enumeration (POLY)', {'paths': len(recs)}))
    # ---- equality
    eqs = [it for k, it in items.items() if it.kind == 'fn' and k.endswith('::eq') and it.impl_at and it.impl_at[0] in ('src/ark_curve/element/projective.rs', 'src/ark_curve/element/affine.rs', 'src/min_curve/element.rs')]
    for it in eqs:
        is_aff = 'AffinePoint' in it.impl_header()
        def body(I, h, it=it, is_aff=is_aff):
            if is_aff:
                p, pc = aff('p'); q, qc = aff('q')
            else:
                p, pc = el('p'); q, qc = el('q')
            h.locals['p'] = p; h.locals['q'] = q
            return I.call_item(it, [Ref(h, 'p', []), Ref(h, 'q', [])]), spec_eq(I, pc, qc)
        run(f'{build}:`{it.impl_header()}`::eq is X1*Y2 == Y1*X2', body, 'the Decaf equality')
        if not is_aff:
            def body2(I, h, it=it):
                I.ctx.nonzero = {'lam'}
                p, pc = el('p'); q, _ = el('q', coords=tuple(lam.mul(c) for c in pc))
                s_, _ = el('s', coords=(pc[0].neg(), pc[1].neg(), pc[2], pc[3]))
                h.locals['p'] = p; h.locals['q'] = q; h.locals['s'] = s_
                return (I.call_item(it, [Ref(h, 'p', []), Ref(h, 'q', [])]) and I.call_item(it, [Ref(h, 'p', []), Ref(h, 's', [])])), True
            run(f'{build}:`{it.impl_header()}`::eq holds between P, its rescaling and its coset shift', body2, 'true')
    if len(eqs) < (2 if build == 'ark' else 1): obs.append(Ob(f'{build}: PartialEq impls found', 'inconclusive', f'{len(eqs)}', 0, 'mirsym'))
    # ---- identity predicates
    preds = []
    if build == 'ark':
        preds += [(find_item(items, r'^ark_curve::element::projective::<impl at [^>]*>::is_identity$'), 'el'), (find_item(items, r'^ark_curve::element::projective::<impl at [^>]*>::is_zero$'), 'el'),
                  (find_item(items, r'^ark_curve::element::<impl at [^>]*>::is_zero$'), 'aff')]
    else: preds += [(find_item(items, r'^min_curve::element::<impl at [^>]*>::is_identity$'), 'el')]
    for it, kind in preds:
        def body(I, h, it=it, kind=kind):
            if kind == 'el': p, pc = el('p')
            else: p, pc = aff('p')
            h.locals['p'] = p
            return I.call_item(it, [Ref(h, 'p', [])]), models.fe_is_zero(I, pc[0])
        run(f'{build}:{it.name.split("::")[-1]} ({it.impl_header()}) is `X == 0`', body, 'X == 0')
    for it in eqs:
        if 'AffinePoint' in it.impl_header(): continue
        for cname, cpat in (('IDENTITY', rf'^{E}::(projective::)?<impl at [^>]*>::IDENTITY$'),) + ((('default()', r'^ark_curve::element::projective::<impl at [^>]*>::default$'),) if build == 'ark' else ()):
            def body(I, h, it=it, cpat=cpat, cname=cname):
                p, pc = el('p'); h.locals['p'] = p
                cands = [v for k, v in items.items() if re.search(cpat, k)]
                if cname == 'IDENTITY':
                    c = [x for x in cands if x.kind == 'const' and 'Element' in (x.ret or '')]
                    ident = I.eval_const_path(mirsym.Frame(mirsym.Item('fn', '<h>', '')), c[0].name)
                else: ident = I.call_item(cands[0], [])
                h.locals['i'] = ident
                return I.call_item(it, [Ref(h, 'p', []), Ref(h, 'i', [])]), models.fe_is_zero(I, pc[0])
            run(f'{build}:P == {cname} is `X == 0`', body, 'X == 0')
    # ---- hashing (arkworks build): the hasher sees only bytes of the field encoding, the same for all representatives
    if build == 'ark':
        for it in [v for k, v in items.items() if k.endswith('::hash') and v.impl_at and v.impl_at[0] in ('src/ark_curve/element/projective.rs', 'src/ark_curve/element/affine.rs')]:
            is_aff = 'AffinePoint' in it.impl_header()
            def body(I, h, it=it, is_aff=is_aff):
                outs = []
                if is_aff:
                    x, y = FE.sym('Fq', 'x'), FE.sym('Fq', 'y')
                    reps = [(x, y), (x.neg(), y.neg())]
                    vals = [Agg(AFF_TY_, [Agg('Affine', list(c))]) for c in reps]
                else:
                    I.ctx.nonzero = {'lam'}
                    X, Y, Z, T = [FE.sym('Fq', n) for n in 'XYZT']
                    reps = [tuple(lam.mul(c) for c in (X, Y, Z, T)), (X, Y, Z, T), (X.neg(), Y.neg(), Z, T)]
                    vals = [mk_element('ark', *c) for c in reps]
                for i, v in enumerate(vals):
                    hs = HashRec(); h.locals[f'v{i}'] = v; h.locals[f'h{i}'] = hs
                    I.call_item(it, [Ref(h, f'v{i}', []), Ref(h, f'h{i}', [])])
                    outs.append(hs.data)
                return outs
            Mh = c08_models('ark')
            if not is_aff: Mh['fns'] = [(r'::(non_arkworks_)?sqrt_ratio_zeta$', scaling_sqrt_model(lam))] + Mh['fns']
            name = f'ark:`{it.impl_header()}`: the hasher sees the same data for every representative'
            try: recs = run_paths(items, Mh, body)
            except Exception as e:
                obs.append(Ob(name, 'inconclusive', f'{type(e).__name__}: {e} :: ' + ' <- '.join(getattr(e, 'mir_stack', [])[:3]), 0, 'mirsym/POLY')); continue
            for r in recs:
                pn = name + ' path ' + ''.join('1' if d else '0' for d in r['decisions'])
                if 'panic' in r: obs.append(Ob(pn, 'violated', 'panics: ' + r['panic'], 0, 'mirsym/POLY', None, {'kind': 'panic'})); continue
                outs = r['result']; base = outs[0]; ok_ = True; why = ''
                for o in outs[1:]:
                    if len(o) != len(base): ok_ = False; why = 'different number of writes'; break
                    for (k1, *d1), (k2, *d2) in zip(base, o):
                        if k1 != k2: ok_ = False; why = 'different kind of data hashed'; break
                        fl1 = hash_flat(d1); fl2 = hash_flat(d2)
                        if len(fl1) != len(fl2): ok_ = False; why = 'different length'; break
                        for u, v in zip(fl1, fl2):
                            if isinstance(u, FE) and isinstance(v, FE):
                                c = compare_fe(pn, u, v, {}, rec=r)
                                if c.status != 'proved': ok_ = False; why = 'hashed values differ between representatives: ' + c.detail
                            elif u != v: ok_ = False; why = f'{u!r} vs {v!r}'
                            if not ok_: break
                        if not ok_: break
                    if not ok_: break
                if ok_ and base and all(k == 'bytes' for k, *_ in base): obs.append(Ob(pn, 'proved', 'identical encoding bytes hashed for the rescaled, the plain and the coset-shifted representative', 0, 'mirsym/POLY + z3 identity'))
                elif ok_: obs.append(Ob(pn, 'violated', 'the hasher is fed something else than encoding bytes', 0, 'mirsym/POLY', None, {'kind': 'hash'}))
                else: obs.append(Ob(pn, 'violated', why, 0, 'mirsym/POLY + z3 identity', {'path': describe_path(r)}, {'kind': 'hash'}))
    return obs

AFF_TY_ = 'ark_curve::element::affine::AffinePoint'
def hash_flat(d):
    out = []
    for x in d:
        if isinstance(x, list):
            for b in x:
                if isinstance(b, LB): out += [b.fe, (b.i, b.mask if b.i != 31 else (b.mask | 0xE0))]
                else: out.append(str(b))
        else: out.append(x)
    return out

def check_negate_poly():
    """Element::negate (arkworks build) at coordinate level: the result is (-X : Y : Z : -T) up to the inner point's own negation,
    in particular it keeps the representation invariant T*Z = X*Y that encoding relies on"""
    items = items_for('ark'); obs = []
    it = find_item(items, r'^ark_curve::encoding::<impl at [^>]*>::negate$')
    def m_neg(I, fr, fn, a):
        p = models.D(I, a[0])
        if not (isinstance(p, Agg) and p.name == 'Projective'): return NotImplemented
        x, y, t, z = p.fields
        return Agg('Projective', [x.neg(), y, t.neg(), z])
    PP = r'ark_ec::twisted_edwards::Projective<ark_curve::edwards::Decaf377EdwardsConfig>'
    M = curve_models('ark', extra=[(rf'^<{PP} as core::ops::Neg>::neg$', m_neg)])
    def body(I, h):
        el, co = sym_element('ark', ['X', 'Y', 'Z', 'T']); h.locals['e'] = el
        return I.call_item(it, [Ref(h, 'e', [])]), co
    try: recs = run_paths(items, M, body)
    except Exception as e:
        return [Ob('ark:Element::negate (coordinate level)', 'inconclusive', f'{type(e).__name__}: {e} :: ' + ' <- '.join(getattr(e, 'mir_stack', [])[:3]), 0, 'mirsym/POLY')]
    for r in recs:
        if 'panic' in r: obs.append(Ob('ark:Element::negate (coordinate level)', 'violated', 'panics', 0, 'mirsym/POLY', None, {'kind': 'negate'})); continue
        res, (X, Y, Z, T) = r['result']
        x2, y2, z2, t2 = element_coords('ark', res)
        inv = T.mul(Z).sub(X.mul(Y))
        goals = [('T\'Z\' = X\'Y\' (representation invariant kept)', t2.mul(z2).sub(x2.mul(y2))), ('x-coordinate negated (X\'Z = -X Z\')', x2.mul(Z).add(X.mul(z2))), ('y-coordinate kept (Y\'Z = Y Z\')', y2.mul(Z).sub(Y.mul(z2)))]
        for lbl, g in goals:
            st, dt, info = certificate(g, [inv])
            obs.append(Ob(f'ark:Element::negate: {lbl}', 'proved' if st == 'proved' else 'violated', info, dt, 'cofactor certificate + z3 identity', None, None if st == 'proved' else {'kind': 'negate'}))
    return obs

# ---------------------------------------------------------------------------------------------- C06: batch normalisation at coordinate level
def check_batch_poly(sizes=None, fns=('normalize_batch', 'batch_convert_to_mul_base')):
    """CurveGroup::normalize_batch / ScalarMul::batch_convert_to_mul_base of the arkworks build at coordinate level: for every
    batch of valid projective representatives (Z != 0, on the curve, T Z = X Y), on every path, output i is the
    affine point of input i up to the representative decaf identifies:  (x_i, y_i) = +-(X_i/Z_i, Y_i/Z_i).  (The provenance-domain check in group.check_constructors can only follow
    code that delegates to the inner group; this one follows code that touches coordinates, inverses and zero tests itself.)"""
    items = items_for('ark'); obs = []
    if sizes is None: sizes = (0, 1, 2, 3) if common.tier() == 'quick' else (0, 1, 2, 3, 4)
    PP = r'ark_ec::twisted_edwards::Projective<ark_curve::edwards::Decaf377EdwardsConfig>'
    E = r'^ark_curve::element::<impl at src/ark_curve/element.rs:\d+:1: \d+:\d+>::'
    def unvec(I, v):
        v = models.D(I, v)
        while isinstance(v, Agg) and len(v.fields) == 1 and not (v.name in ('Projective', 'Affine')): v = v.fields[0]
        return v
    def m_inner_batch(I, fr, fn, a):
        xs = I.deref(a[0])
        out = []
        for p in xs:
            r = m_te_projective_to_affine(I, fr, fn, [p])
            if r is NotImplemented: return NotImplemented
            out.append(r)
        return Agg('alloc::vec::Vec', [out])
    def m_batch_inversion(I, fr, fn, a):
        sl = a[0]; xs = I.deref(sl)
        for i, x in enumerate(list(xs)):
            x = models.D(I, x)
            if not isinstance(x, FE): return NotImplemented
            r = models.m_fe_inverse(I, fr, fn, [x])
            if r.variant == 'Some': xs[i] = r.fields[0]
        if isinstance(sl, SliceRef):
            arr = I.deref(sl.base)
            for i, x in enumerate(xs): arr[sl.start + i] = x
        return models.UNIT
    def m_inner_is_zero(I, fr, fn, a):
        p = models.D(I, a[0]); p = models.D(I, p)
        if not (isinstance(p, Agg) and p.name == 'Projective'): return NotImplemented
        x, y, t, z = p.fields
        return models.fe_is_zero(I, x) and models.fe_eq(I, y, z) and (not models.fe_is_zero(I, y)) and models.fe_is_zero(I, t)
    M = curve_models('ark', extra=[(rf'^<{PP} as ark_ec::CurveGroup>::normalize_batch$', m_inner_batch), (rf'^<{PP} as ark_ec::ScalarMul>::batch_convert_to_mul_base$', m_inner_batch),
                                   (r'^ark_ff::batch_inversion::<', m_batch_inversion), (rf'^<{PP} as ark_ff::Zero>::is_zero$', m_inner_is_zero)])
    d = FE.const('Fq', spec.Dd)
    for fnname in fns:
        try: it = find_item(items, E + fnname + '$')
        except Unsupported as e:
            obs.append(Ob(f'ark:{fnname} (coordinate level)', 'inconclusive', str(e), 0, 'mirsym/POLY')); continue
        for n in sizes:
            name = f'ark:{fnname} of {n} valid elements returns the same elements as affine points (coordinate level)'
            def body(I, h, it=it, n=n):
                els = []; cos = []
                for i in range(n):
                    el, co = sym_element('ark', [f'X{i}', f'Y{i}', f'Z{i}', f'T{i}']); els.append(el); cos.append(co)
                h.locals['v'] = els
                I.ctx.nonzero = [f'Z{i}' for i in range(n)]
                return I.call_item(it, [SliceRef(Ref(h, 'v', []), 0, n)]), cos
            t0 = time.time()
            try: recs = run_paths(items, M, body, max_paths=2000)
            except Exception as e:
                obs.append(Ob(name, 'inconclusive', f'{type(e).__name__}: {e} :: ' + ' <- '.join(getattr(e, 'mir_stack', [])[:3]), time.time() - t0, 'mirsym/POLY')); continue
            bad = None; npaths = 0; tot = 0; inconc = None
            for r in recs:
                if 'pruned' in r: continue
                zh = r['ctx'].__dict__.get('zero_hyps', {})
                # paths on which some Z_i = 0 was assumed contradict validity
                if any(h_.key() == FE.sym('Fq', f'Z{i}').key() for h_ in zh.values() for i in range(n)): continue
                npaths += 1
                if 'panic' in r: bad = f'panics on path {describe_path(r)}: ' + r['panic']; break
                res, cos = r['result']
                out = unvec(r['interp'], res)
                if not isinstance(out, list) or len(out) != n: bad = f'returns {len(out) if isinstance(out, list) else "?"} points for {n} inputs'; break
                hyps = list(zh.values()) + side_polys(r['side'])
                for i_, (X, Y, Z, T) in enumerate(cos):
                    hyps += [Y.square().sub(X.square()).sub(Z.square()).sub(d.mul(T.square())), T.mul(Z).sub(X.mul(Y))]
                    hyps.append(Z.mul(FE.sym('Fq', f'ZI{i_}')).sub(FE.const('Fq', 1)))      # Z_i != 0 (Rabinowitsch)
                for i, (pt, (X, Y, Z, T)) in enumerate(zip(out, cos)):
                    a_ = unvec(r['interp'], pt)
                    if not (isinstance(a_, Agg) and a_.name == 'Affine'): bad = f'output {i} is not an affine point: {a_!r}'[:200]; break
                    x, y = a_.fields
                    # the same element: (x, y) = +-(X/Z, Y/Z)  (P and P + (0,-1) are the two representatives decaf identifies;
                    # an identity given as (0 : -Z : 0 : Z) may come back as (0, 1))
                    for lbl, g in ((f'x_{i}^2 Z_{i}^2 = X_{i}^2', x.square().mul(Z.square()).sub(X.square())), (f'y_{i}^2 Z_{i}^2 = Y_{i}^2', y.square().mul(Z.square()).sub(Y.square())), (f'x_{i} Y_{i} = y_{i} X_{i}', x.mul(Y).sub(y.mul(X)))):
                        if g.is_zero_poly(): continue
                        st, dt, info = certificate(g, hyps); tot += dt
                        if st != 'proved':
                            bad = f'output {i} is not +-(affine point of input {i}) ({lbl} fails) on path {describe_path(r)}'; break
                    if bad: break
                if bad: break
            if bad: obs.append(Ob(name, 'violated', bad, time.time() - t0, 'mirsym/POLY + cofactor certificates', None, {'kind': 'constructor', 'which': fnname, 'build': 'ark'}))
            elif npaths == 0: obs.append(Ob(name, 'inconclusive', 'no feasible path', time.time() - t0, 'mirsym/POLY'))
            else: obs.append(Ob(name, 'proved', f'{npaths} paths', time.time() - t0, 'mirsym/POLY + cofactor certificates', {'paths': npaths}))
    return obs

# ---------------------------------------------------------------------------------------------- conversions / unary element functions at coordinate level
def check_unary_poly():
    """Every function of src/ark_curve/element*.rs that maps one Element / AffinePoint to an Element / AffinePoint (the four `From`
    conversions, into_affine, clear_cofactor, mul_by_cofactor_to_group, Clone, double_in_place), at coordinate level, on every path:
    the result is a well-formed representative (on the curve; T Z = X Y for extended coordinates) of the same element (of 2P for
    double_in_place) - compared as (x, y) = +-(X/Z, Y/Z), the two representatives decaf identifies.  (The free-group domain of
    group.py cannot follow code that touches coordinates; this check can.)"""
    items = items_for('ark'); obs = []
    PP = r'ark_ec::twisted_edwards::Projective<ark_curve::edwards::Decaf377EdwardsConfig>'
    d = FE.const('Fq', spec.Dd); one = FE.const('Fq', 1)
    def m_inner_double(I, fr, fn, a):
        p = I.deref(a[0])
        if not (isinstance(p, Agg) and p.name == 'Projective'): return NotImplemented
        x, y, t, z = p.fields
        X3, Y3, Z3, T3 = dbl_proj(x, y, z, t)
        I.store(a[0], Agg('Projective', [X3, Y3, T3, Z3])); return a[0]
    def dbl_proj(x, y, z, t):
        xn, xd, yn, yd = spec.edwards_add((x, y, z, t), (x, y, z, t))
        return xn.mul(yd), yn.mul(xd), xd.mul(yd), xn.mul(yn)
    extra = [(rf'^<{PP} as ark_ec::Group>::double_in_place$', m_inner_double)]
    M = curve_models('ark', extra=extra)
    cands = []
    for k, it in sorted(items.items(), key=lambda kv: (kv[1].impl_at or ('', 0), kv[0])):
        if it.kind != 'fn' or not it.impl_at or not it.impl_at[0].startswith('src/ark_curve/element') or '{closure' in k: continue
        ps = [p[1] for p in it.params]
        if len(ps) != 1 or not it.ret: continue
        pt = re.sub(r"^&(mut )?", '', ps[0].strip()); rt = re.sub(r"^&(mut )?", '', it.ret.strip())
        kinds = {'ark_curve::element::projective::Element': 'E', 'ark_curve::element::affine::AffinePoint': 'A'}
        if pt in kinds and rt in kinds: cands.append((it, kinds[pt], kinds[rt], ps[0].strip().startswith('&')))
    def coords_of(v, I):
        v = models.D(I, v)
        if isinstance(v, (Ref, SliceRef)): v = I.deref(v)
        while isinstance(v, Agg) and v.name not in ('Projective', 'Affine') and len(v.fields) >= 1: v = v.fields[0]
        if isinstance(v, Agg) and v.name == 'Projective': x, y, t, z = v.fields; return (x, y, z, t)
        if isinstance(v, Agg) and v.name == 'Affine': x, y = v.fields[:2]; return (x, y, None, None)
        raise Unsupported(f'not a point: {v!r}'[:120])
    for it, pk, rk, isref in cands:
        fname = it.name.split('::')[-1]
        name = f'ark:{it.impl_at[0]}:{it.impl_at[1]} `{(it.impl_header() or "")[:50]}`::{fname} returns a well-formed representative of the same element (coordinate level)'
        dbl = fname == 'double_in_place'
        def body(I, h, it=it, pk=pk, isref=isref):
            if pk == 'E':
                el, co = sym_element('ark', ['X', 'Y', 'Z', 'T'])
            else:
                x, y = FE.sym('Fq', 'X'), FE.sym('Fq', 'Y')
                el = Agg('ark_curve::element::affine::AffinePoint', [Agg('Affine', [x, y])]); co = (x, y, one, x.mul(y))
            h.locals['e'] = el
            if pk == 'E': I.ctx.nonzero = ['Z']
            r = I.call_item(it, [Ref(h, 'e', []) if isref else el])
            return r, co
        t0 = time.time()
        try: recs = run_paths(items, M, body, max_paths=500)
        except Exception as e:
            obs.append(Ob(name, 'inconclusive', f'{type(e).__name__}: {e} :: ' + ' <- '.join(getattr(e, 'mir_stack', [])[:3]), time.time() - t0, 'mirsym/POLY')); continue
        bad = None; npaths = 0
        for r in recs:
            if 'pruned' in r: continue
            zh = r['ctx'].__dict__.get('zero_hyps', {})
            if any(h_.key() == FE.sym('Fq', 'Z').key() for h_ in zh.values()): continue
            npaths += 1
            if 'panic' in r: bad = f'panics on path {describe_path(r)}: ' + r['panic']; break
            res, (X, Y, Z, T) = r['result']
            try: x2, y2, z2, t2 = coords_of(res, r['interp'])
            except Unsupported as e: bad = str(e); break
            hyps = list(zh.values()) + side_polys(r['side'])
            hyps += [Y.square().sub(X.square()).sub(Z.square()).sub(d.mul(T.square())), T.mul(Z).sub(X.mul(Y))]
            if pk == 'E': hyps.append(Z.mul(FE.sym('Fq', 'ZI')).sub(one))
            if dbl: X, Y, Z, T = dbl_proj(X, Y, Z, T)
            goals = []
            if z2 is None:
                z2e = one
                goals.append(('result on the curve', y2.square().sub(x2.square()).sub(one).sub(d.mul(x2.square()).mul(y2.square()))))
            else:
                z2e = z2
                goals.append(("T' Z' = X' Y'", t2.mul(z2).sub(x2.mul(y2))))
                goals.append(('result on the curve', y2.square().sub(x2.square()).mul(z2.square()).sub(z2.square().square()).sub(d.mul(x2.square()).mul(y2.square()))))
            goals += [("x'^2 Z^2 = X^2 z'^2", x2.square().mul(Z.square()).sub(X.square().mul(z2e.square()))), ("y'^2 Z^2 = Y^2 z'^2", y2.square().mul(Z.square()).sub(Y.square().mul(z2e.square()))),
                      ("x' Y = y' X", x2.mul(Y).sub(y2.mul(X)))]
            for lbl, g in goals:
                if g.is_zero_poly(): continue
                st, dt, info = certificate(g, hyps)
                if st != 'proved': bad = f'{lbl} fails on path {describe_path(r)}'; break
            if bad: break
        if bad: obs.append(Ob(name, 'violated', bad, time.time() - t0, 'mirsym/POLY + cofactor certificates', None, {'kind': 'conversion', 'which': fname, 'build': 'ark'}))
        elif npaths == 0: obs.append(Ob(name, 'inconclusive', 'no feasible path', time.time() - t0, 'mirsym/POLY'))
        else: obs.append(Ob(name, 'proved', f'{npaths} paths', time.time() - t0, 'mirsym/POLY + cofactor certificates', {'paths': npaths}))
    if len(cands) < 8: obs.append(Ob('ark: unary element functions found', 'inconclusive', f'only {len(cands)}', 0, 'mirsym'))
    return obs

def check_min_select():
    """`ConditionallySelectable for Element` of the minimal build (the constant-time ladder's only way of choosing between two
    elements; the ladder check models it as a merge): for both values of the choice the result has exactly the four coordinates
    of ONE operand - a when the choice is clear, b when it is set.  A mixed result (e.g. T taken from the other operand) is an
    off-variety point (T Z != X Y) that every later encode/compare/add silently accepts."""
    items = items_for('min'); M = curve_models('min'); obs = []
    if True:
        cands = [v for k, v in items.items() if k.endswith('::conditional_select') and v.impl_at and v.impl_at[0] == 'src/min_curve/element.rs']
        if not cands: return [Ob('min:Element::conditional_select found', 'inconclusive', 'item not found in the MIR', 0, 'mirsym')]
        it = cands[0]
    for ch in (0, 1):
        name = f'min:`ConditionallySelectable for Element`::conditional_select(a, b, {ch}) returns the four coordinates of {"b" if ch else "a"}'
        ac = tuple(FE.sym('Fq', 'a' + n) for n in 'XYZT'); bc = tuple(FE.sym('Fq', 'b' + n) for n in 'XYZT')
        def body(I, h, ch=ch, ac=ac, bc=bc):
            h.locals['a'] = mk_element('min', *ac); h.locals['b'] = mk_element('min', *bc)
            return I.call_item(it, [Ref(h, 'a', []), Ref(h, 'b', []), Agg('subtle::Choice', [ch])])
        try: recs = run_paths(items, M, body)
        except Exception as e:
            obs.append(Ob(name, 'inconclusive', f'{type(e).__name__}: {e} :: ' + ' <- '.join(getattr(e, 'mir_stack', [])[:3]), 0, 'mirsym/POLY')); continue
        want = bc if ch else ac; bad = False
        for r in recs:
            if 'panic' in r: obs.append(Ob(name, 'violated', 'panics: ' + r['panic'], 0, 'mirsym/POLY', None, {'kind': 'panic'})); bad = True; continue
            got = element_coords('min', r['result'])
            for nm, g, w in zip('XYZT', got, want):
                c = compare_fe(f'{name}: coordinate {nm}', g, w, {}, rec=r)
                if c.status != 'proved':
                    c.status = 'violated' if c.status == 'violated' else c.status
                    c.model = dict(c.model or {}, kind='min_select', build='min', choice=ch, coord=nm); obs.append(c); bad = True
        if not bad: obs.append(Ob(name, 'proved', f'{len(recs)} path(s), 4 coordinates each', 0, 'mirsym (POLY) + z3 identity'))
    return obs
