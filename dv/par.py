"""run independent obligation groups in worker processes"""
import multiprocessing as mp, traceback, os
from .common import Ob

def _run(job):
    name, fn, args = job
    try:
        if os.environ.get('DV_TIMING'):
            import time, sys
            t0 = time.time(); print(f'[start] {name} {time.strftime("%H:%M:%S")} pid {os.getpid()}', file=sys.stderr); r = fn(*args); print(f'[timing] {time.time() - t0:7.1f}s  {name}  (ended {time.strftime("%H:%M:%S")}, pid {os.getpid()})', file=sys.stderr); return r
        return fn(*args)
    except Exception as e:
        return [Ob(f'{name}', 'inconclusive', 'exception: ' + ''.join(traceback.format_exception_only(type(e), e)).strip() + ' @ ' + traceback.format_exc()[-600:], 0, 'driver')]

def run_groups(jobs, nproc=None):
    """jobs: [(name, function, args)] -> concatenated list of Ob (order of jobs preserved)"""
    nproc = nproc or min(len(jobs), int(os.environ.get('DV_NPROC', '14')))
    if nproc <= 1 or len(jobs) <= 1:
        out = []
        for j in jobs: out += _run(j)
        return out
    ctx = mp.get_context('fork')
    with ctx.Pool(nproc) as pool:
        res = pool.map(_run, jobs, chunksize=1)
    out = []
    for r in res: out += r
    return out
