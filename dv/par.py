"""run independent obligation groups in worker processes"""
import multiprocessing as mp, traceback, os
from .common import Ob

def _run(job):
    name, fn, args = job
    try:
        if os.environ.get('DV_TIMING'):
            import time, sys
            t0 = time.time(); print(f'[start] {name} {time.strftime("%H:%M:%S")} pid {os.getpid()}', file=sys.stderr); r = fn(*args); print(f'[timing] {time.time() - t0:7.1f}s  {name}  (ended {time.strftime("%H:%M:%S")}, pid {os.getpid()})', file=sys.stderr); return r
        return fn(*args)
    except Exception as e:
        return [Ob(f'{name}', 'inconclusive', 'exception: ' + ''.join(traceback.format_exception_only(type(e), e)).strip() + ' @ ' + traceback.format_exc()[-600:], 0, 'driver')]

def run_groups(jobs, nproc=None):
    """jobs: [(name, function, args)] -> concatenated list of Ob (order of jobs preserved)"""
    nproc = nproc or min(len(jobs), int(os.environ.get('DV_NPROC', '14')))
    if nproc <= 1 or len(jobs) <= 1:
        out = []
        for j in jobs: out += _run(j)
        return out
    ctx = mp.get_context('fork')
    # watchdog: a job that does not come back (an engine loop on unexpected code, a lost worker) ends as `inconclusive` instead of hanging
    # the check; the budget is per check, generous against the slowest clean-tree job
    import time
    budget = float(os.environ.get('DV_JOB_BUDGET', '1500' if os.environ.get('VERIF_TIER', 'quick') == 'quick' else '7200'))
    pool = ctx.Pool(nproc)
    try:
        handles = [pool.apply_async(_run, (j,)) for j in jobs]
        deadline = time.time() + budget
        out = []
        for j, h in zip(jobs, handles):
            try: out += h.get(timeout=max(1.0, deadline - time.time()))
            except mp.TimeoutError:
                out.append(Ob(f'{j[0]}', 'inconclusive', f'no result within the {int(budget)} s budget of this check (job abandoned)', 0, 'driver'))
            except Exception as e:
                out.append(Ob(f'{j[0]}', 'inconclusive', f'worker failed: {type(e).__name__}: {str(e)[:200]}', 0, 'driver'))
    finally:
        pool.terminate(); pool.join()
    return out
