"""Symbolic interpreter for rustc MIR text (see DESIGN §2.2 E3).

Values:  python int / z3 BitVecRef  machine integers;  python bool / z3 BoolRef  booleans;
         list  arrays;  Agg  structs/tuples/closures;  Enum  enum values;  Ref / SliceRef  references;
         domain objects (field elements, points) supplied by the models of a run;  FnVal  function items.
Control: forks on a symbolic switchInt are explored by re-execution under a decision list (run_paths).
"""
import re, copy, functools
import z3
from .mirload import Item, split_top

INT_BITS = {'u8': 8, 'u16': 16, 'u32': 32, 'u64': 64, 'u128': 128, 'usize': 64, 'i8': 8, 'i16': 16, 'i32': 32, 'i64': 64, 'i128': 128, 'isize': 64}
def is_signed(ty): return ty.startswith('i')

class Panic(Exception):
    def __init__(s, msg): super().__init__(msg); s.msg = msg
class Unsupported(Exception): pass
class PathEnd(Exception): pass

class Agg:
    __slots__ = ('name', 'fields')
    def __init__(s, name, fields): s.name, s.fields = name, list(fields)
    def __repr__(s): return f'{s.name.split("::")[-1]}{s.fields}'
    def __deepcopy__(s, memo): return Agg(s.name, [cp(f) for f in s.fields])
class Enum:
    __slots__ = ('name', 'variant', 'fields')
    def __init__(s, name, variant, fields): s.name, s.variant, s.fields = name, variant, list(fields)
    def __repr__(s): return f'{s.variant}{s.fields if s.fields else ""}'
    def __deepcopy__(s, memo): return Enum(s.name, s.variant, [cp(f) for f in s.fields])
class Ref:
    __slots__ = ('frame', 'local', 'path')
    def __init__(s, frame, local, path): s.frame, s.local, s.path = frame, local, tuple(path)
    def __repr__(s): return f'&{s.local}{list(s.path)}'
class SliceRef:
    """reference to elements [start, start+len) of the array stored at `base` (a Ref)"""
    __slots__ = ('base', 'start', 'len')
    def __init__(s, base, start, length): s.base, s.start, s.len = base, start, length
    def __repr__(s): return f'&[{s.start}..+{s.len}]'
class FnVal:
    __slots__ = ('path',)
    def __init__(s, path): s.path = path
    def __repr__(s): return f'fn {s.path}'
class BoxPtr:
    """Box<T> / Unique<T> / NonNull<T> / *const T pointing at a heap cell (a holder frame local)"""
    __slots__ = ('ref',)
    def __init__(s, ref): s.ref = ref
    def mir_field(s, k): return s
    def __deepcopy__(s, memo): return s
    def __repr__(s): return 'Box'

def box_new(v):
    f = Frame(Item('fn', '<heap>', '')); f.locals['b'] = v
    return BoxPtr(Ref(f, 'b', []))

class Opaque:
    """value the interpreter knows nothing about (result of an un-modelled external call)"""
    __slots__ = ('what', 'args')
    def __init__(s, what, args=()): s.what, s.args = what, tuple(args)
    def __repr__(s): return f'opaque<{s.what}>'

def cp(v):
    """copy semantics of MIR `copy`/`move`: aggregates by value, references and scalars shared"""
    if isinstance(v, list): return [cp(x) for x in v]
    if isinstance(v, (Agg, Enum)): return copy.deepcopy(v)
    return v

ENUM_DISCR = {
    'None': 0, 'Some': 1, 'Ok': 0, 'Err': 1, 'Continue': 0, 'Break': 1,
    'Less': -1, 'Equal': 0, 'Greater': 1,
    'InvalidEncoding': 0, 'InvalidSliceLength': 1,
    'Compress::Yes': 0, 'Compress::No': 1, 'Validate::Yes': 0, 'Validate::No': 1,
    'LegendreSymbol::Zero': 0, 'QuadraticResidue': 1, 'QuadraticNonResidue': -1,
    'Constant': 0, 'Input': 1, 'Witness': 2,
}

_crate_enums = None
def crate_enums():
    """enum Name { A, B(..), C {..} } declarations of /repo/src: 'Name::Variant' -> discriminant"""
    global _crate_enums
    if _crate_enums is None:
        import os
        from . import common
        out = {}
        for d, _, fs in os.walk(os.path.join(common.REPO, 'src')):
            for f in fs:
                if not f.endswith('.rs') or f == 'fiat.rs': continue
                txt = open(os.path.join(d, f)).read()
                for m in re.finditer(r'\benum\s+(\w+)\s*\{', txt):
                    i = m.end(); depth = 1; j = i
                    while j < len(txt) and depth:
                        if txt[j] == '{': depth += 1
                        elif txt[j] == '}': depth -= 1
                        j += 1
                    body = txt[i:j - 1]
                    # strip nested braces / parens
                    flat = ''; dd = 0
                    for ch in body:
                        if ch in '{(': dd += 1
                        elif ch in '})': dd -= 1
                        elif dd == 0: flat += ch
                    k = 0
                    for part in flat.split(','):
                        part = re.sub(r'//.*', '', part); part = re.sub(r'#\[.*?\]', '', part).strip()
                        mm = re.match(r'^(\w+)', part)
                        if mm: out[f'{m.group(1)}::{mm.group(1)}'] = k; k += 1
        _crate_enums = out
    return _crate_enums

class Frame:
    _n = 0
    def __init__(s, item, generics=None):
        s.item = item; s.locals = {}; s.generics = generics or {}
        Frame._n += 1; s.id = Frame._n
    def __deepcopy__(s, memo): return s   # frames are identities

class Ctx:
    """per-path bookkeeping shared by interpreter and models: decisions, path condition, side relations, fresh names"""
    def __init__(s, decisions=()):
        s.decisions = list(decisions); s.pos = 0; s.path = []; s.pathkeys = {}; s.side = []; s.nfresh = {}; s.opaque_calls = set(); s.notes = []
        s.panics_as_paths = True
    def decide(s, cond, key=None):
        """cond: python bool, or z3 BoolRef.  Forks (by replay) if undetermined.  `key` canonical identity of the atom."""
        if isinstance(cond, bool): return cond
        cs = z3.simplify(cond)
        if z3.is_true(cs): return True
        if z3.is_false(cs): return False
        k = key if key is not None else cs.sexpr()
        if k in s.pathkeys: return s.pathkeys[k]
        if s.pos < len(s.decisions): c = s.decisions[s.pos]
        else: c = False; s.decisions.append(False)
        s.pos += 1
        s.pathkeys[k] = c
        s.path.append(cond if c else z3.Not(cond))
        return c
    def fresh(s, base):
        n = s.nfresh.get(base, 0) + 1; s.nfresh[base] = n
        return f'{base}{n}'

def strip_lt(t):
    t = re.sub(r"'\w+ ", '', t)
    t = re.sub(r"<'\w+>", '', t); t = re.sub(r"'\w+, ", '', t)
    return t.strip()

@functools.lru_cache(maxsize=None)
def parse_place(s):
    """-> (local, (proj...)) ; proj: ('deref',) ('field',k,type) ('index',local) ('cindex',k,fromend) ('downcast',Variant) ('subslice',a,b,fromend)"""
    s = s.strip()
    pr = []
    if s.startswith('('):
        d = 0
        for j, ch in enumerate(s):
            if ch == '(': d += 1
            elif ch == ')':
                d -= 1
                if d == 0: break
        inner = s[1:j]; rest = s[j + 1:]
        if inner.startswith('*'):
            loc, p0 = parse_place(inner[1:]); pr = list(p0) + [('deref',)]
        else:
            m = re.match(r'^(.*) as (\w+)$', inner)
            if m and ': ' not in inner[len(m.group(1)):]:
                loc, p0 = parse_place(m.group(1)); pr = list(p0) + [('downcast', m.group(2))]
            else:
                # PLACE.FIELD: TYPE  -- the first ".<digits>: " after the end of the (balanced) base place
                base_end = None
                d = 0
                for idx, ch in enumerate(inner):
                    if ch in '([': d += 1
                    elif ch in ')]': d -= 1
                    elif ch == '.' and d == 0:
                        m2 = re.match(r'\.(\d+): ', inner[idx:])
                        if m2: base_end = idx; fld = int(m2.group(1)); fty = inner[idx + len(m2.group(0)):]; break
                if base_end is None: raise Unsupported('place ' + s)
                loc, p0 = parse_place(inner[:base_end]); pr = list(p0) + [('field', fld, fty)]
    else:
        m = re.match(r'^(_\d+)(.*)$', s)
        if not m: raise Unsupported('place ' + s)
        loc = m.group(1); rest = m.group(2)
    while rest:
        if rest.startswith('['):
            e = rest.index(']'); ix = rest[1:e]; rest = rest[e + 1:]
            m2 = re.match(r'^(-?)(\d+) of \d+$', ix)
            m3 = re.match(r'^(\d+):(-?)(\d+)$', ix)
            if m2: pr.append(('cindex', int(m2.group(2)), m2.group(1) == '-'))
            elif m3: pr.append(('subslice', int(m3.group(1)), int(m3.group(3)), m3.group(2) == '-'))
            else: pr.append(('index', ix))
        elif rest.startswith('.'):
            m2 = re.match(r'^\.(\d+)', rest)   # only inside a parenthesised form normally
            pr.append(('field', int(m2.group(1)), None)); rest = rest[len(m2.group(0)):]
        else:
            raise Unsupported('place ' + s)
    return loc, tuple(pr)

BINOPS = ('Lt', 'Le', 'Gt', 'Ge', 'Eq', 'Ne', 'Add', 'Sub', 'Mul', 'Div', 'Rem', 'Shr', 'Shl', 'BitAnd', 'BitOr', 'BitXor',
          'AddWithOverflow', 'SubWithOverflow', 'MulWithOverflow', 'AddUnchecked', 'SubUnchecked', 'MulUnchecked', 'ShlUnchecked', 'ShrUnchecked', 'Offset', 'Cmp')
UNOPS = ('Not', 'Neg', 'PtrMetadata')

def int_ty_of(tytext):
    t = (tytext or '').strip()
    return t if t in INT_BITS else None

class Interp:
    def __init__(s, items, ctx, models, enums=None, merge_fns=()):
        s.items = items; s.ctx = ctx; s.models = models; s.depth = 0; s.stack = []
        s.enum_discr = dict(ENUM_DISCR); s.enum_discr.update(crate_enums()); s.enum_discr.update(enums or {})
        s.merge_fns = set(merge_fns)
        s.steps = 0; s.max_steps = 5_000_000; s.assign_hooks = {}
        s._impl_index = None; s._closure_index = None; s._const_cache = {}

    def run_assign_hook(s, fr, loc, val):
        for (name_re, dbg), hook in s.assign_hooks.items():
            if loc in fr.item.debug.get(dbg, ()) and re.search(name_re, fr.item.name):
                return hook(s, fr, loc, val)
        return val

    # ------------------------------------------------------------------ item lookup
    def impl_index(s):
        if s._impl_index is None:
            idx = {}
            for k, it in s.items.items():
                if it.kind == 'fn' or it.kind in ('const', 'static'):
                    nm = k.split('::')[-1]
                    idx.setdefault(nm, []).append(it)
            s._impl_index = idx
        return s._impl_index

    def closure_item(s, closure_ty):
        if s._closure_index is None:
            ci = {}
            for k, it in s.items.items():
                if it.kind == 'fn' and re.search(r'\{closure#\d+\}$', k) and it.params:
                    m = re.search(r'\{closure@[^}]*\}', it.params[0][1])
                    if m: ci[m.group(0)] = it
            s._closure_index = ci
        m = re.search(r'\{closure@[^}]*\}', closure_ty)
        return s._closure_index.get(m.group(0)) if m else None

    @staticmethod
    def _hdr_parse(h):
        """'impl<..> Trait<A> for T' -> (trait_last_segment, trait_args_text, self_text) ; inherent -> (None, None, self_text)"""
        h = h.strip()
        m = re.match(r'^(?:unsafe )?impl(?:<.*?>)? (.*)$', h)
        if not m: return None, None, h
        body = m.group(1)
        # `impl<'a, 'b> Add<&'b Element> for &'a Element` : generics may contain '>' ; find ' for ' at depth 0
        d = 0; k = None
        for i, ch in enumerate(body):
            if ch == '<': d += 1
            elif ch == '>': d -= 1
            elif d == 0 and body[i:i + 5] == ' for ': k = i; break
        if k is None: return None, None, strip_lt(body)
        tr = body[:k]; selfty = strip_lt(body[k + 5:])
        m2 = re.match(r'^([\w:]+)(?:<(.*)>)?$', tr.strip())
        if not m2: return tr, None, selfty
        return m2.group(1).split('::')[-1], (strip_lt(m2.group(2)) if m2.group(2) else None), selfty

    @staticmethod
    def _shape(t):
        """type text -> comparable shape: reference markers + last path segments, lifetimes and generic paths trimmed"""
        t = strip_lt(t).replace('&mut ', '&mut~')
        t = re.sub(r'(\w+::)+', '', t)
        return t.replace(' ', '').replace('&mut~', '&mut ')

    def resolve_fn(s, fn, nargs=None):
        """callee path text at a call site -> Item (or None).  Handles <T as Trait<A>>::m, Type::m, plain paths, default trait methods."""
        if fn in s.items: return s.items[fn], None
        fn0 = fn
        # strip turbofish generic args at the end:  path::<A, B>
        generics_txt = None
        m = re.match(r'^(.*?)::<(.*)>$', fn)
        if m and not fn.startswith('<'):
            fn = m.group(1); generics_txt = m.group(2)
            if fn in s.items: return s.items[fn], generics_txt
        elif fn.startswith('<'):
            # <T as Trait>::m::<G>
            d = 0
            for i, ch in enumerate(fn):
                if ch == '<': d += 1
                elif ch == '>' and fn[i - 1] not in '-=':
                    d -= 1
                    if d == 0: break
            tail = fn[i + 1:]
            m = re.match(r'^::(\w+)::<(.*)>$', tail)
            if m: generics_txt = m.group(2); fn = fn[:i + 1] + '::' + m.group(1)
        mt = re.match(r'^<(.*) as ([^>]*?(?:<.*>)?)>::(\w+)$', fn)
        idx = s.impl_index()
        if mt:
            ty, tr, meth = mt.group(1), mt.group(2), mt.group(3)
            trm = re.match(r'^([\w:]+)(?:<(.*)>)?$', tr)
            trname = trm.group(1).split('::')[-1]; trargs = strip_lt(trm.group(2)) if trm.group(2) else None
            cands = [it for it in idx.get(meth, []) if it.impl_at]
            good = []
            for it in cands:
                htr, hargs, hself = s._hdr_parse(it.impl_header())
                if htr != trname: continue
                if s._shape(hself) != s._shape(ty) and s._shape(hself) != 'Self': continue
                if (trargs is None) != (hargs is None):
                    # `Add` vs `Add<Self>` are the same impl
                    a = hargs if hargs is not None else trargs
                    if s._shape(a) not in ('Self', s._shape(ty)): continue
                elif trargs is not None:
                    ha = s._shape(hargs).replace('Self', s._shape(ty)); ta = s._shape(trargs)
                    if ha != ta: continue
                good.append(it)
            if len(good) > 1:
                # same-named types in different modules (u32 / u64 wrappers): the full path of T must occur in the item's types
                base = strip_lt(ty).lstrip('&').replace('mut ', '')
                g2 = [it for it in good if base in it.header]
                if not g2: g2 = [it for it in good if any(base in t for t in it.locals.values())]
                if g2: good = g2
            if len(good) > 1:
                g2 = [it for it in good if it.kind == 'fn'] if nargs is not None else good
                good = g2 or good
            if len(good) == 1: return good[0], generics_txt
            if len(good) > 1: raise Unsupported(f'ambiguous callee {fn0}: ' + ', '.join(g.name for g in good))
            # the impl may be written against a type alias (`impl FqVarExtension for FqVar`): a unique impl of that trait method
            alias = [it for it in cands if s._hdr_parse(it.impl_header())[0] == trname and it.kind == 'fn']
            if len(alias) == 1 and re.fullmatch(r'\w+', s._hdr_parse(alias[0].impl_header())[2] or ''): return alias[0], generics_txt
            # provided (default) trait method, generic over Self
            k = trm.group(1) + '::' + meth
            if k in s.items:
                it = s.items[k]
                return it, ('Self=' + ty + ((';' + generics_txt) if generics_txt else ''))
            return None, generics_txt
        # inherent:  path::Type::method  or  path::<impl Type>::method  or free fn
        m2 = re.match(r'^(.*)::<impl (.*)>::(\w+)$', fn)
        if m2: tytxt = m2.group(2); meth = m2.group(3)
        else:
            segs = fn.split('::'); meth = segs[-1]; tytxt = '::'.join(segs[:-1])
        tyl = re.sub(r'::<.*>$', '', tytxt)
        cands = [it for it in idx.get(meth, []) if it.impl_at]
        good = []
        for it in cands:
            htr, hargs, hself = s._hdr_parse(it.impl_header())
            if htr is not None: continue
            if s._shape(hself).split('<')[0] != s._shape(tyl).split('<')[0]: continue
            good.append(it)
        if len(good) > 1:
            base = strip_lt(tyl)
            def mod_of(it):
                return it.name.split('::<impl at')[0]
            # an inherent impl of a type defined in the same module tree as the type's path
            g2 = [it for it in good if base in it.header or any(base == t.lstrip('&').replace('mut ', '') for _, t in it.params) or base in (it.ret or '')]
            if g2: good = g2
        if len(good) > 1:
            tmod = '::'.join(strip_lt(tyl).split('::')[:-1])
            g2 = [it for it in good if it.name.startswith(tmod + '::')]
            if g2: good = g2
        if len(good) == 1: return good[0], generics_txt
        if len(good) > 1: raise Unsupported(f'ambiguous callee {fn0}: ' + ', '.join(g.name for g in good))
        return None, generics_txt

    # ------------------------------------------------------------------ memory
    def resolve(s, frame, loc, proj):
        f, l, p = frame, loc, []
        for pr in proj:
            k = pr[0]
            if k == 'deref':
                r = s.read(f, l, p)
                if isinstance(r, SliceRef):
                    f, l, p = r.base.frame, r.base.local, list(r.base.path) + [('slice', r.start, r.len)]
                elif isinstance(r, Ref): f, l, p = r.frame, r.local, list(r.path)
                elif isinstance(r, BoxPtr): f, l, p = r.ref.frame, r.ref.local, list(r.ref.path)
                elif isinstance(r, Agg) and r.name == 'Box': f, l, p = r.fields[0].frame, r.fields[0].local, list(r.fields[0].path)
                else: raise Unsupported(f'deref of {r!r} at {loc}{proj}')
            elif k == 'field': p.append(pr[1])
            elif k == 'cindex': p.append(('cidx', pr[1], pr[2]))
            elif k == 'index':
                iv = frame.locals[pr[1]]
                if isinstance(iv, int): p.append(iv)
                elif z3.is_bv(iv): p.append(('symidx', iv))
                else: raise Unsupported('symbolic index')
            elif k == 'downcast': p.append(('variant', pr[1]))
            elif k == 'subslice': p.append(('subslice', pr[1], pr[2], pr[3]))
        return f, l, p

    def _walk(s, v, k, write=False):
        if isinstance(k, tuple):
            if k[0] == 'variant': return v
            if k[0] == 'symidx':
                if write: raise Unsupported('write through a symbolic index')
                arr = v[1][v[2]:v[2] + v[3]] if (isinstance(v, tuple) and v and v[0] == 'view') else v
                if arr and hasattr(arr[0], 'mir_table_read'):
                    r = arr[0].mir_table_read(arr, k[1])
                    if r is not None: return r
                try:
                    out = arr[-1]
                    for i in range(len(arr) - 2, -1, -1):
                        out = merge_values(k[1] == z3.BitVecVal(i, k[1].size()), arr[i], out)
                    return out
                except Unsupported:
                    if len(arr) > 8: raise
                    for i in range(len(arr) - 1):          # entries that cannot be merged: fork on the index value
                        if s.ctx.decide(k[1] == z3.BitVecVal(i, k[1].size())): return arr[i]
                    return arr[-1]
            if k[0] == 'slice': return ('view', v, k[1], k[2])
            if k[0] == 'cidx':
                if isinstance(v, tuple) and v[0] == 'view': _, arr, st, ln = v; return arr[st + (ln - k[1] if k[2] else k[1])]
                return v[len(v) - k[1] if k[2] else k[1]]
            raise Unsupported(str(k))
        if isinstance(v, tuple) and v[0] == 'view':
            _, arr, st, ln = v
            if not (0 <= k < ln): raise Panic('index out of bounds (slice view)')
            return arr[st + k]
        if isinstance(v, (Agg, Enum)): return v.fields[k]
        if hasattr(v, 'mir_field'): return v.mir_field(k)
        return v[k]

    def read(s, f, l, p):
        if l not in f.locals: raise Unsupported(f'read of unset {l} in {f.item.name}')
        v = f.locals[l]
        for k in p: v = s._walk(v, k)
        if isinstance(v, tuple) and v and v[0] == 'view': return v[1][v[2]:v[2] + v[3]]
        return v

    def write(s, f, l, p, val):
        if not p: f.locals[l] = val; return
        v = f.locals.get(l)
        if v is None and isinstance(p[0], int):
            # field-by-field initialisation of an aggregate local
            v = Agg(f.item.locals.get(l, '?'), []); f.locals[l] = v
        for k in p[:-1]: v = s._walk(v, k)
        k = p[-1]
        if isinstance(k, tuple):
            if k[0] == 'cidx':
                if isinstance(v, tuple): _, arr, st, ln = v; arr[st + (ln - k[1] if k[2] else k[1])] = val
                else: v[len(v) - k[1] if k[2] else k[1]] = val
                return
            if k[0] == 'slice':
                for i in range(k[2]): v[k[1] + i] = val[i]
                return
            if k[0] == 'variant': raise Unsupported('write to variant')
        if isinstance(v, tuple) and v[0] == 'view':
            _, arr, st, ln = v
            if not (0 <= k < ln): raise Panic('index out of bounds (slice view)')
            arr[st + k] = val; return
        if isinstance(v, (Agg, Enum)):
            while len(v.fields) <= k: v.fields.append(None)
            v.fields[k] = val
        elif hasattr(v, 'mir_set_field'): v.mir_set_field(k, val)
        else: v[k] = val

    def deref(s, r):
        if isinstance(r, BoxPtr): r = r.ref
        if isinstance(r, Ref): return s.read(r.frame, r.local, list(r.path))
        if isinstance(r, SliceRef):
            arr = s.read(r.base.frame, r.base.local, list(r.base.path))
            return arr[r.start:r.start + r.len]
        return r
    def store(s, r, val):
        if isinstance(r, SliceRef):
            arr = s.read(r.base.frame, r.base.local, list(r.base.path))
            assert len(val) == r.len
            for i in range(r.len): arr[r.start + i] = val[i]
            return
        s.write(r.frame, r.local, list(r.path), val)

    # ------------------------------------------------------------------ constants & operands
    def const(s, frame, txt):
        txt = txt.strip()
        m = re.match(r'^(-?\d+)_(u8|u16|u32|u64|u128|usize|i8|i16|i32|i64|i128|isize)$', txt)
        if m: return int(m.group(1))
        if txt in ('true', 'false'): return txt == 'true'
        if txt == '()': return Agg('()', [])
        if txt in frame.generics: return frame.generics[txt]
        m = re.match(r'^(?:core::num::<impl )?([ui](?:8|16|32|64|128|size))>?::(MAX|MIN|BITS)$', txt)
        if m:
            bits = INT_BITS[m.group(1)]; sg = is_signed(m.group(1))
            return {'MAX': (1 << (bits - 1)) - 1 if sg else (1 << bits) - 1, 'MIN': -(1 << (bits - 1)) if sg else 0, 'BITS': bits}[m.group(2)]
        m = re.match(r'^"(.*)"$', txt)
        if m: return Opaque('str', (m.group(1),))
        if txt.startswith('b"'): return list(eval(txt))
        m = re.match(r'^\{(alloc\d+): &', txt)
        if m: return s.static_ref(m.group(1))
        if txt.startswith('ZeroSized: {closure@'): return Agg(re.search(r'\{closure@[^}]*\}', txt).group(0), [])
        if txt.startswith('ZeroSized: ') or txt.startswith('{') or txt.startswith('('): return Opaque('zst', (txt,))
        return s.eval_const_path(frame, txt)

    def eval_const_path(s, frame, path):
        path0 = path
        if frame is not None and 'Self' in frame.generics: path = re.sub(r'\bSelf\b', frame.generics['Self'], path)
        if frame is not None:
            for g, v in frame.generics.items():
                if isinstance(v, str) and re.fullmatch(r'[A-Z]\w*', g) and g != 'Self': path = re.sub(r'\b' + g + r'\b', v, path)
        m = re.match(r'^(.*)::promoted\[(\d+)\]$', path)
        if m:
            # promoted of the current function: named after the (untrimmed) item
            base = re.sub(r'::promoted\[\d+\]$', '', frame.item.name)
            k = f'{base}::promoted[{m.group(2)}]'
            it = s.items.get(k) or s.items.get(path)
            if it is None: raise Unsupported('promoted ' + path)
            key = (k, tuple(sorted((a, str(b)) for a, b in frame.generics.items())))
            if key not in s._const_cache:
                s._const_cache[key] = s.call_item(it, [], generics=dict(frame.generics))
            return s.promoted_ref(key)
        for pat, model in s.models.get('consts', []):
            if re.search(pat, path):
                return model(s, frame, path)
        it, gen = s.resolve_fn(path)
        if it is None and '::' in path and not path.startswith('<'):
            # item nested in a function body:  Type::method::NAME
            pre, last = path.rsplit('::', 1)
            try: pit, _ = s.resolve_fn(pre)
            except Unsupported: pit = None
            if pit is not None and (pit.name + '::' + last) in s.items: it = s.items[pit.name + '::' + last]
        if it is None:
            it2 = s.items.get(path)
            if it2 is None:
                # unit struct constant (e.g. `core::ops::RangeFull`) or a function item used as a value (e.g. `<Fq as Add>::add`)
                last = path.split('::')[-1]
                if re.fullmatch(r'[A-Z]\w*', last) and not path.startswith('<'): return s.make_adt(frame, path, [])
                return FnVal(path)
            it = it2
        if it.kind == 'fn': return FnVal(path)
        key = (it.name, gen)
        if key not in s._const_cache:
            if it.value_text is not None: s._const_cache[key] = s.const(Frame(it), it.value_text)
            else: s._const_cache[key] = s.call_item(it, [], generics=s.parse_generics(it, gen))
        return cp(s._const_cache[key])

    def static_ref(s, alloc):
        it = s.items.get('@' + alloc)
        if it is None: raise Unsupported('unknown alloc ' + alloc)
        name = it.value_text
        if '__CALLSITE' in name: return Opaque('tracing-callsite')
        fr = s.__dict__.setdefault('_statics_frame', Frame(Item('fn', '<statics>', '')))
        if name not in fr.locals:
            st = s.items.get(name)
            if st is None: raise Unsupported('static ' + name)
            fr.locals[name] = s.call_item(st, []) if st.value_text is None else s.const(Frame(st), st.value_text)
        return Ref(fr, name, [])

    def promoted_ref(s, key):
        fr = s.__dict__.setdefault('_promoted_frame', Frame(Item('fn', '<promoted>', '')))
        k = 'p%d' % (hash(key) & 0xffffffff)
        if k not in fr.locals:
            v = s._const_cache[key]
            fr.locals[k] = v
        v = fr.locals[k]
        # promoted bodies return a reference to their temporary
        if isinstance(v, (Ref, SliceRef)): return v
        return Ref(fr, k, [])

    def parse_generics(s, it, gen):
        g = {}
        if not gen: return g
        for part in gen.split(';'):
            if part.startswith('Self='): g['Self'] = part[5:]
            else: g['_turbofish'] = part
        return g

    def operand(s, frame, txt):
        txt = txt.strip()
        if txt.startswith('const '): return s.const(frame, txt[6:])
        if txt.startswith('copy ') or txt.startswith('move '):
            loc, pr = parse_place(txt[5:]); f, l, p = s.resolve(frame, loc, pr); return cp(s.read(f, l, p))
        # bare function path operand
        return FnVal(txt)

    # ------------------------------------------------------------------ rvalues
    def place_type(s, frame, loc, pr):
        if not pr: return frame.item.locals.get(loc)
        last = pr[-1]
        if last[0] == 'field' and last[2]: return last[2]
        if last[0] in ('index', 'cindex'):
            base = s.place_type(frame, loc, pr[:-1]) or ''
            m = re.match(r'^&?(?:mut )?\[(.*?)(?:; .*)?\]$', base.strip())
            return m.group(1) if m else None
        return None

    def rvalue(s, frame, txt, dst_ty=None):
        txt = txt.strip()
        if txt.startswith('no_retag '): txt = txt[9:]
        if txt.startswith(('copy ', 'move ', 'const ')):
            m = re.match(r'^((?:copy|move|const) .*) as (.*?) \((\w+)(?:\(.*\))?(?:, \w+)?\)$', txt)
            if not m: return s.operand(frame, txt)
            v = s.operand(frame, m.group(1)); ty = m.group(2).strip(); kind = m.group(3)
            return s.cast(frame, v, ty, kind, m.group(1))
        m = re.match(r'^&(mut |raw const |raw mut |fake shallow |fake )?(.*)$', txt)
        if m:
            loc, pr = parse_place(m.group(2)); f, l, p = s.resolve(frame, loc, pr)
            if p and isinstance(p[-1], tuple) and p[-1][0] == 'slice': return SliceRef(Ref(f, l, p[:-1]), p[-1][1], p[-1][2])
            if p and isinstance(p[-1], tuple) and p[-1][0] == 'subslice': raise Unsupported('subslice ref')
            return Ref(f, l, p)
        m = re.match(r'^discriminant\((.*)\)$', txt)
        if m:
            loc, pr = parse_place(m.group(1)); f, l, p = s.resolve(frame, loc, pr); v = s.read(f, l, p)
            return s.discriminant(v)
        m = re.match(r'^(?:Len|PtrMetadata)\((?:copy |move )?(.*)\)$', txt)
        if m:
            loc, pr = parse_place(m.group(1)); f, l, p = s.resolve(frame, loc, pr); v = s.read(f, l, p)
            if isinstance(v, SliceRef): return v.len
            if isinstance(v, Ref): v = s.deref(v)
            return len(v)
        m = re.match(r'^CopyForDeref\((.*)\)$', txt)
        if m:
            loc, pr = parse_place(m.group(1)); f, l, p = s.resolve(frame, loc, pr); return s.read(f, l, p)
        m = re.match(r'^(\w+)\((.*)\)$', txt)
        if m and m.group(1) in BINOPS + UNOPS:
            args = [s.operand(frame, a) for a in split_top(m.group(2))]
            return s.binop(m.group(1), args, dst_ty, frame, split_top(m.group(2)))
        if txt.startswith('['):
            inner = txt[1:-1]
            mm = re.match(r'^(.*); (\w+)$', inner)
            if mm and len(split_top(inner, ';')) == 2:
                v = s.operand(frame, mm.group(1)); n = mm.group(2)
                n = int(n) if n.isdigit() else s.const(frame, n)
                return [cp(v) for _ in range(n)]
            return [s.operand(frame, a) for a in split_top(inner)]
        if txt.startswith('('):
            return Agg('tuple', [s.operand(frame, a) for a in split_top(txt[1:-1])])
        if txt.startswith('{closure@') or txt.startswith('{coroutine'):
            m = re.match(r'^(\{closure@[^}]*\})(?: \{ (.*) \})?$', txt)
            fields = [a.split(': ', 1)[1] for a in split_top(m.group(2))] if m.group(2) else []
            return Agg(m.group(1), [s.operand(frame, a) for a in fields])
        # ADT aggregates:  Path { f: op, .. } | Path::Variant(args) | Path(args) | Path::Variant | Path
        m = re.match(r'^([^{]+?) \{ (.*) \}$', txt)
        if m:
            fields = [a.split(': ', 1)[1] for a in split_top(m.group(2))]
            return s.make_adt(frame, m.group(1).strip(), [s.operand(frame, a) for a in fields], braces=True)
        if txt.endswith(')') and not txt.startswith('ShallowInitBox'):
            d = 0; k = None
            for i in range(len(txt) - 1, -1, -1):
                ch = txt[i]
                if ch == ')': d += 1
                elif ch == '(':
                    d -= 1
                    if d == 0: k = i; break
            if k:
                return s.make_adt(frame, txt[:k].strip(), [s.operand(frame, a) for a in split_top(txt[k + 1:-1])])
        m = re.match(r'^ShallowInitBox\((.*), .*\)$', txt)
        if m: return s.operand(frame, m.group(1))
        if re.match(r'^[\w:<>, &\[\];\']+$', txt):
            return s.make_adt(frame, txt, [])
        raise Unsupported('rvalue ' + txt)

    def make_adt(s, frame, path, fields, braces=False):
        p = re.sub(r'::<.*?>(?=::|$)', '', path)      # drop generic args
        p = strip_lt(p)
        last = p.split('::')[-1]
        for pat, model in s.models.get('adts', []):
            if re.search(pat, p):
                r = model(s, frame, p, fields)
                if r is not NotImplemented: return r
        # enum variant: `path::Type::Variant` (both capitalised); everything else is a struct
        segs = p.split('::')
        full2 = '::'.join(segs[-2:])
        if len(segs) >= 2 and re.match(r'^[A-Z]', segs[-2]) and re.match(r'^[A-Z]', last):
            return Enum('::'.join(segs[:-1]), full2 if full2 in ENUM_DISCR else last, fields)
        if last in ('Some', 'None', 'Ok', 'Err'):
            return Enum('::'.join(segs[:-1]), last, fields)
        return Agg(p, fields)

    def discriminant(s, v):
        if isinstance(v, Enum):
            if v.variant in s.enum_discr: return s.enum_discr[v.variant]
            k = v.name.split('::')[-1] + '::' + v.variant
            if k in s.enum_discr: return s.enum_discr[k]
            raise Unsupported('discriminant of ' + repr(v))
        if hasattr(v, 'mir_discriminant'): return v.mir_discriminant(s)
        raise Unsupported('discriminant of ' + repr(v))

    def cast(s, frame, v, ty, kind, srctxt=''):
        if kind in ('IntToInt',):
            bits = INT_BITS.get(ty)
            if bits is None: raise Unsupported('cast to ' + ty)
            if isinstance(v, bool): v = int(v)
            if isinstance(v, int):
                v &= (1 << bits) - 1
                if is_signed(ty) and v >> (bits - 1): v -= 1 << bits
                return v
            if z3.is_bool(v): return z3.If(v, z3.BitVecVal(1, bits), z3.BitVecVal(0, bits))
            if z3.is_bv(v):
                w = v.size()
                if bits == w: return v
                if bits < w: return z3.simplify(z3.Extract(bits - 1, 0, v))
                sty = None
                m_ = re.match(r'^(?:copy|move) (.*)$', srctxt.strip())
                if m_ and frame is not None:
                    try:
                        loc_, pr_ = parse_place(m_.group(1)); sty = int_ty_of(s.place_type(frame, loc_, pr_))
                    except Exception: sty = None
                if sty is not None and is_signed(sty): return z3.simplify(z3.SignExt(bits - w, v))
                return z3.simplify(z3.ZeroExt(bits - w, v))
            raise Unsupported(f'cast {v!r} to {ty}')
        if kind == 'PointerCoercion' or kind.startswith('Pointer') or kind in ('Transmute', 'PtrToPtr', 'Subtype'):
            if 'Unsize' in srctxt or True:
                if isinstance(v, Ref) and re.match(r'^&(?:mut )?\[[^;\]]*\]$', strip_lt(ty)):
                    arr = s.deref(v)
                    if isinstance(arr, list): return SliceRef(v, 0, len(arr))
            return v
        raise Unsupported(f'cast kind {kind}')

    def binop(s, op, a, dst_ty, frame, argtxt):
        op0 = op
        if op.endswith('Unchecked'): op = op[:-9]
        x = a[0]; y = a[1] if len(a) > 1 else None
        def ty_of_operand(i):
            t = argtxt[i].strip()
            m = re.match(r'^const -?\d+_(\w+)$', t)
            if m: return m.group(1)
            m = re.match(r'^(?:copy|move) (.*)$', t)
            if m:
                loc, pr = parse_place(m.group(1))
                return int_ty_of(s.place_type(frame, loc, pr))
            return None
        if op in UNOPS:
            if op == 'Not':
                if isinstance(x, bool): return not x
                if z3.is_bool(x): return z3.Not(x)
                ty = ty_of_operand(0) or int_ty_of(dst_ty)
                if isinstance(x, int):
                    bits = INT_BITS[ty]; r = (~x) & ((1 << bits) - 1)
                    if is_signed(ty) and r >> (bits - 1): r -= 1 << bits
                    return r
                if z3.is_bv(x): return ~x
                if hasattr(x, 'mir_not'): return x.mir_not()
            if op == 'Neg' and isinstance(x, int): return -x
            raise Unsupported(f'unop {op} {x!r}')
        if isinstance(x, bool) and isinstance(y, bool):
            return {'Eq': x == y, 'Ne': x != y, 'BitAnd': x and y, 'BitOr': x or y, 'BitXor': x != y, 'Lt': x < y, 'Le': x <= y, 'Gt': x > y, 'Ge': x >= y}[op]
        if (isinstance(x, bool) or z3.is_bool(x)) and (isinstance(y, bool) or z3.is_bool(y)):
            bx = z3.BoolVal(x) if isinstance(x, bool) else x; by = z3.BoolVal(y) if isinstance(y, bool) else y
            r = {'Eq': lambda: bx == by, 'Ne': lambda: z3.Xor(bx, by), 'BitAnd': lambda: z3.And(bx, by), 'BitOr': lambda: z3.Or(bx, by), 'BitXor': lambda: z3.Xor(bx, by)}[op]()
            return z3.simplify(r)
        ty = ty_of_operand(0) or ty_of_operand(1)
        if ty is None and dst_ty:
            m = re.match(r'^\((\w+), bool\)$', dst_ty.strip())
            ty = int_ty_of(dst_ty) or (m.group(1) if m else None)
        if isinstance(x, int) and isinstance(y, int) and not isinstance(x, bool) and not isinstance(y, bool):
            if op in ('Lt', 'Le', 'Gt', 'Ge', 'Eq', 'Ne'):
                return {'Lt': x < y, 'Le': x <= y, 'Gt': x > y, 'Ge': x >= y, 'Eq': x == y, 'Ne': x != y}[op]
            if op == 'Cmp': return Enum('core::cmp::Ordering', 'Less' if x < y else ('Equal' if x == y else 'Greater'), [])
            if ty is None: raise Unsupported(f'untyped int binop {op0} {argtxt}')
            bits = INT_BITS[ty]; sg = is_signed(ty)
            lo, hi = (-(1 << (bits - 1)), (1 << (bits - 1)) - 1) if sg else (0, (1 << bits) - 1)
            def wrap(r):
                r &= (1 << bits) - 1
                if sg and r >> (bits - 1): r -= 1 << bits
                return r
            if op in ('Add', 'Sub', 'Mul'):
                r = {'Add': x + y, 'Sub': x - y, 'Mul': x * y}[op]; return wrap(r)
            if op in ('AddWithOverflow', 'SubWithOverflow', 'MulWithOverflow'):
                r = {'A': x + y, 'S': x - y, 'M': x * y}[op[0]]
                return Agg('tuple', [wrap(r), not (lo <= r <= hi)])
            if op == 'Div':
                if y == 0: raise Panic('division by zero')
                return wrap(int(x / y) if sg else x // y)
            if op == 'Rem':
                if y == 0: raise Panic('remainder by zero')
                return wrap(x - y * int(x / y) if sg else x % y)
            if op == 'Shl': return wrap(x << (y % bits))
            if op == 'Shr': return wrap(x >> (y % bits))
            if op == 'BitAnd': return wrap(x & y)
            if op == 'BitOr': return wrap(x | y)
            if op == 'BitXor': return wrap(x ^ y)
        # symbolic machine integers
        if z3.is_bv(x) or z3.is_bv(y):
            w = x.size() if z3.is_bv(x) else y.size()
            def bv(v, width=w):
                if isinstance(v, bool): v = int(v)
                if isinstance(v, int): return z3.BitVecVal(v, width)
                if v.size() != width:
                    return z3.ZeroExt(width - v.size(), v) if v.size() < width else z3.Extract(width - 1, 0, v)
                return v
            if op in ('Shl', 'Shr'):
                if not z3.is_bv(x):
                    if ty is None: raise Unsupported('untyped shift')
                    w = INT_BITS[ty]
                X = bv(x, w); Y = bv(y, w)
                sty = ty_of_operand(0) or int_ty_of(dst_ty)
                if op == 'Shr' and sty is not None and is_signed(sty): return z3.simplify(X >> Y)
                return z3.simplify(X << Y if op == 'Shl' else z3.LShR(X, Y))
            X, Y = bv(x), bv(y)
            if ty is not None and is_signed(ty) and op in ('Lt', 'Le', 'Gt', 'Ge', 'AddWithOverflow', 'SubWithOverflow', 'MulWithOverflow'):
                r = {'Lt': lambda: X < Y, 'Le': lambda: X <= Y, 'Gt': lambda: X > Y, 'Ge': lambda: X >= Y,
                     'AddWithOverflow': lambda: Agg('tuple', [z3.simplify(X + Y), z3.simplify(z3.Not(z3.And(z3.BVAddNoOverflow(X, Y, True), z3.BVAddNoUnderflow(X, Y))))]),
                     'SubWithOverflow': lambda: Agg('tuple', [z3.simplify(X - Y), z3.simplify(z3.Not(z3.And(z3.BVSubNoOverflow(X, Y), z3.BVSubNoUnderflow(X, Y, True))))]),
                     'MulWithOverflow': lambda: Agg('tuple', [z3.simplify(X * Y), z3.simplify(z3.Not(z3.And(z3.BVMulNoOverflow(X, Y, True), z3.BVMulNoUnderflow(X, Y))))])}[op]()
                return z3.simplify(r) if isinstance(r, z3.ExprRef) else r
            r = {'Lt': lambda: z3.ULT(X, Y), 'Le': lambda: z3.ULE(X, Y), 'Gt': lambda: z3.UGT(X, Y), 'Ge': lambda: z3.UGE(X, Y), 'Eq': lambda: X == Y, 'Ne': lambda: X != Y,
                 'Add': lambda: X + Y, 'Sub': lambda: X - Y, 'Mul': lambda: X * Y, 'BitAnd': lambda: X & Y, 'BitOr': lambda: X | Y, 'BitXor': lambda: X ^ Y,
                 'AddWithOverflow': lambda: Agg('tuple', [z3.simplify(X + Y), z3.simplify(z3.Not(z3.BVAddNoOverflow(X, Y, False)))]),
                 'SubWithOverflow': lambda: Agg('tuple', [z3.simplify(X - Y), z3.simplify(z3.ULT(X, Y))]),
                 'MulWithOverflow': lambda: Agg('tuple', [z3.simplify(X * Y), z3.simplify(z3.Not(z3.BVMulNoOverflow(X, Y, False)))]),
                 }.get(op)
            if r is None: raise Unsupported(f'bv binop {op}')
            r = r()
            return z3.simplify(r) if isinstance(r, z3.ExprRef) else r
        for v in (x, y):
            if hasattr(v, 'mir_binop'): return v.mir_binop(op, x, y)
        if isinstance(x, Enum) and isinstance(y, Enum) and op in ('Eq', 'Ne'):
            return (x.variant == y.variant) == (op == 'Eq')
        raise Unsupported(f'binop {op0} {x!r} {y!r}')

    # ------------------------------------------------------------------ calls
    def call(s, frame, fn, args, dst_ty=None):
        fn = strip_lt(fn)
        if frame is not None and frame.generics:
            if 'Self' in frame.generics: fn = re.sub(r'\bSelf\b', frame.generics['Self'], fn)
            for g, v in frame.generics.items():
                if isinstance(v, str) and g not in ('Self', '_turbofish') and re.fullmatch(r'[A-Z]\w*', g):
                    fn = re.sub(r'(?<![\w:])' + g + r'(?![\w:])', v, fn)
        for pat, model in s.models.get('fns', []):
            if re.search(pat, fn):
                r = model(s, frame, fn, args)
                if r is not NotImplemented: return r
        it, gen = s.resolve_fn(fn, len(args))
        if it is None or it.kind != 'fn':
            s.ctx.opaque_calls.add(fn)
            raise Unsupported('no body/model for ' + fn)
        return s.call_item(it, args, generics=s.generics_for(it, gen, fn))

    def generics_for(s, it, gen, fn):
        g = {}
        if gen:
            for part in gen.split(';'):
                if part.startswith('Self='): g['Self'] = part[5:]
                else:
                    # map turbofish args onto the item's declared generic parameter names (from the source signature)
                    names = s.generic_param_names(it)
                    vals = split_top(part)
                    for n, v in zip(names, vals):
                        v = v.strip()
                        if v in ('true', 'false'): g[n] = (v == 'true')
                        elif re.fullmatch(r'-?\d+(_\w+)?', v): g[n] = int(v.split('_')[0])
                        else: g[n] = v
        return g

    def generic_param_names(s, it):
        """names of the fn's own generic parameters (types and consts), read from the source line of the fn"""
        nm = it.name.split('::')[-1]
        if not it.impl_at and '::' not in it.name: return []
        f = None
        if it.impl_at: f = it.impl_at[0]
        if f is None: return []
        from . import common
        src = common.src(f)
        m = re.search(r'fn ' + re.escape(nm) + r'\s*<([^>]*)>', src)
        if not m: return []
        out = []
        for p in split_top(m.group(1)):
            p = p.strip()
            if p.startswith("'"): continue
            p = p.replace('const ', '')
            out.append(re.split(r'[:\s]', p)[0])
        return out

    def call_item(s, item, args, generics=None):
        fr = Frame(item, generics)
        for (loc, _), a in zip(item.params, args): fr.locals[loc] = a
        if len(args) != len(item.params): raise Unsupported(f'arity {item.name}: {len(args)} vs {len(item.params)}')
        s.depth += 1
        if s.depth > 200: raise Unsupported('call depth')
        s.stack.append(fr)
        try:
            return s.run_frame(fr, 'bb0')
        except (Panic, PathEnd):
            raise
        except Exception as e:
            st = getattr(e, 'mir_stack', None)
            if st is None:
                try: e.mir_stack = st = []
                except Exception: st = []
            st.append(item.name + ' @ ' + str(getattr(fr, 'cur', '?')))
            raise
        finally:
            s.depth -= 1; s.stack.pop()

    def run_frame(s, fr, bb, stop_at=None):
        blocks = fr.item.blocks
        while True:
            if bb == stop_at: return ('stopped', bb)
            nxt = None
            for st in blocks[bb]:
                s.steps += 1; fr.cur = st
                if s.steps > s.max_steps: raise Unsupported('step budget exhausted')
                if st[-1] == ';': st = st[:-1]
                c0 = st[0]
                if c0 == 'S' and (st.startswith('StorageLive') or st.startswith('StorageDead')): continue
                if st.startswith(('ConstEvalCounter', 'nop', 'FakeRead', 'PlaceMention', 'Retag', 'AscribeUserType', 'Coverage', '//', 'Deinit', 'BackwardIncompatibleDropHint')): continue
                if st == 'return': return fr.locals.get('_0', Agg('()', []))
                if st == 'unreachable': raise Unsupported('unreachable reached in ' + fr.item.name)
                if st.startswith('resume') or st.startswith('abort'): raise Panic('unwind')
                if st.startswith('goto -> '): nxt = st[8:]; break
                if st.startswith('switchInt('):
                    m = re.match(r'^switchInt\((.*)\) -> \[(.*)\]$', st)
                    v = s.operand(fr, m.group(1)); arms = [a.split(': ') for a in split_top(m.group(2))]
                    nxt = s.switch(fr, bb, v, arms); break
                if st.startswith('assert('):
                    m = re.match(r'^assert\((!?)(.*?), (".*) -> \[success: (bb\d+), unwind.*\]$', st)
                    v = s.operand(fr, m.group(2))
                    s._in_assert = True
                    try: ok = s.truth(v, negate=bool(m.group(1)))
                    finally: s._in_assert = False
                    if not ok: raise Panic('assert failed: ' + m.group(3)[:80] + ' in ' + fr.item.name)
                    nxt = m.group(4); break
                if st.startswith('drop('):
                    m = re.match(r'^drop\(.*\) -> \[return: (bb\d+), unwind.*\]$', st); nxt = m.group(1); break
                if st.startswith('falseEdge') or st.startswith('falseUnwind'):
                    m = re.match(r'^false\w+ -> \[real: (bb\d+),.*\]$', st); nxt = m.group(1); break
                m = re.match(r'^(.*?) = (.*)\) -> \[return: (bb\d+), unwind[^\]]*\]$', st)
                if m and '(' in m.group(2):
                    dst, calltxt, ret = m.groups()
                    # split callee and args at the matching '(' of the final ')'
                    d = 0; k = None
                    for i in range(len(calltxt) - 1, -1, -1):
                        ch = calltxt[i]
                        if ch == ')': d += 1
                        elif ch == '(':
                            if d == 0: k = i; break
                            d -= 1
                    fn = calltxt[:k].strip(); argtxt = calltxt[k + 1:]
                    loc, pr = parse_place(dst)
                    if fn.startswith(('move ', 'copy ')):
                        callee = s.operand(fr, fn)
                        args2 = [s.operand(fr, a) for a in split_top(argtxt)]
                        val = s.call_value(fr, callee, args2)
                    else:
                        args2 = [s.operand(fr, a) for a in split_top(argtxt)]
                        val = s.call(fr, fn, args2, s.place_type(fr, loc, pr))
                    if s.assign_hooks and not pr: val = s.run_assign_hook(fr, loc, val)
                    f, l, p = s.resolve(fr, loc, pr); s.write(f, l, p, val)
                    nxt = ret; break
                m = re.match(r'^(.*?) = (.*)\) -> (?:unwind .*|bb\d+|\[.*\])$', st)
                if m and 'return:' not in st:
                    # diverging call (panic helpers)
                    raise Panic('diverging call: ' + m.group(2)[:120])
                m = re.match(r'^(.*?) = (.*)$', st)
                if m:
                    loc, pr = parse_place(m.group(1))
                    val = s.rvalue(fr, m.group(2), s.place_type(fr, loc, pr))
                    if s.assign_hooks and not pr: val = s.run_assign_hook(fr, loc, val)
                    f, l, p = s.resolve(fr, loc, pr); s.write(f, l, p, val)
                    continue
                raise Unsupported('stmt ' + st)
            bb = nxt

    def call_value(s, frame, callee, args):
        if isinstance(callee, FnVal): return s.call(frame, callee.path, args)
        if isinstance(callee, Agg) and callee.name.startswith('{closure@'):
            it = s.closure_item(callee.name)
            holder = Frame(it); holder.locals['c'] = callee
            return s.call_item(it, [Ref(holder, 'c', [])] + list(args), generics=dict(frame.generics) if frame else None)
        raise Unsupported(f'call of {callee!r}')

    def call_closure(s, frame, f, args):
        """call a closure / fn item / fn pointer value with a python list of arguments"""
        if isinstance(f, Ref): f = s.deref(f)
        if isinstance(f, FnVal): return s.call(frame, f.path, list(args))
        if isinstance(f, Agg) and f.name.startswith('{closure@'):
            it = s.closure_item(f.name)
            if it is None: raise Unsupported('closure body ' + f.name)
            holder = Frame(it); holder.locals['c'] = f
            selfarg = Ref(holder, 'c', []) if it.params[0][1].startswith('&') else f
            if len(it.params) == len(args) + 1:
                return s.call_item(it, [selfarg] + list(args), generics=dict(frame.generics) if frame else None)
            return s.call_item(it, [selfarg, Agg('tuple', list(args))], generics=dict(frame.generics) if frame else None)
        raise Unsupported(f'closure call of {f!r}')

    def truth(s, v, negate=False):
        if isinstance(v, bool): return (not v) if negate else v
        if z3.is_bool(v):
            pr = getattr(s.ctx, 'assert_prover', None)
            if pr is not None and getattr(s, '_in_assert', False):
                return pr(z3.Not(v) if negate else v)
            c = s.ctx.decide(v)
            return (not c) if negate else c
        raise Unsupported(f'truth of {v!r}')

    def merge_branch(s, fr, bb, cond, arms):
        """execute both arms of a symbolic two-way branch up to their join block and merge the frame state with If"""
        j = ipdom_of(fr.item, bb)
        if j is None: raise Unsupported('merge: branch without a join block in ' + fr.item.name)
        d = dict(arms)
        t_true = d.get('1', d.get('otherwise')); t_false = d.get('0', d.get('otherwise'))
        if '0' in d and 'otherwise' in d and '1' not in d: t_true = d['otherwise']; t_false = d['0']
        base = {k: cp(v) for k, v in fr.locals.items()}
        outs = []
        for tgt in (t_true, t_false):
            fr.locals = {k: cp(v) for k, v in base.items()}
            if tgt != j:
                r = s.run_frame(fr, tgt, stop_at=j)
                if not (isinstance(r, tuple) and r and r[0] == 'stopped'): raise Unsupported('merge: arm returned before the join block')
            outs.append(fr.locals)
        la, lb = outs
        merged = {}
        for k in set(la) | set(lb):
            if k in la and k in lb:
                try: merged[k] = merge_values(cond, la[k], lb[k])
                except Unsupported:
                    if k in base and False: raise
                    # a temporary that differs between the arms and cannot be merged: leave it unset (a later read is an error)
                    continue
            # locals set in only one arm are dead after the join
        fr.locals = merged
        return j

    def switch(s, fr, bb, v, arms):
        if isinstance(v, bool): v = int(v)
        if hasattr(v, 'mir_switch'): v = v.mir_switch(s)
        if isinstance(v, int):
            for k, t in arms:
                if k != 'otherwise' and int(k) == v: return t
            d = dict(arms)
            if 'otherwise' not in d: raise Unsupported(f'switch value {v} has no arm')
            return d['otherwise']
        if z3.is_bool(v) and fr.item.name in s.merge_fns and not z3.is_true(z3.simplify(v)) and not z3.is_false(z3.simplify(v)):
            return s.merge_branch(fr, bb, z3.simplify(v), arms)
        if z3.is_bool(v):
            c = s.ctx.decide(v)
            want = 1 if c else 0
            for k, t in arms:
                if k != 'otherwise' and int(k) == want: return t
            return dict(arms)['otherwise']
        if z3.is_bv(v):
            # enumerate listed arms, then otherwise
            for k, t in arms:
                if k == 'otherwise': continue
                if s.ctx.decide(v == z3.BitVecVal(int(k), v.size())): return t
            return dict(arms)['otherwise']
        raise Unsupported(f'switch on {v!r}')


def _succs(item):
    out = {}
    for bb, sts in item.blocks.items():
        t = sts[-1] if sts else ''
        su = []
        for m in re.finditer(r'(?:return: |success: |real: |otherwise: |\d+: |goto -> |-> )(bb\d+)', t):
            # skip unwind targets:  `unwind: bbN`
            su.append(m.group(1))
        for m in re.finditer(r'unwind: (bb\d+)', t):
            if m.group(1) in su: su.remove(m.group(1))
        out[bb] = su
    dead = {bb for bb, sts in item.blocks.items() if sts and sts[-1].rstrip(';') == 'unreachable'}
    for bb in out: out[bb] = [x for x in out[bb] if x not in dead]
    return out

def ipdom_of(item, bb):
    """immediate post-dominator of block bb (ignoring unwind edges); None if it is the exit"""
    cache = item.__dict__.setdefault('_ipdom', None) if hasattr(item, '__dict__') else None
    succ = _succs(item)
    nodes = list(succ)
    EXIT = '<exit>'
    for n in nodes:
        if not succ[n]: succ[n] = [EXIT]
    pd = {n: set(nodes) | {EXIT} for n in nodes}; pd[EXIT] = {EXIT}
    changed = True
    while changed:
        changed = False
        for n in nodes:
            new = set.intersection(*[pd[x] for x in succ[n]]) | {n}
            if new != pd[n]: pd[n] = new; changed = True
    cands = pd[bb] - {bb}
    # the immediate one: the candidate post-dominated by all other candidates... i.e. whose own pd set is the largest
    best = None
    for c in cands:
        if all((o in pd[c]) for o in cands): best = c
    return None if best in (None, EXIT) else best

def merge_values(c, a, b):
    """If(c, a, b) on interpreter values"""
    if a is b: return a
    if isinstance(a, (int, bool)) and isinstance(b, (int, bool)) and type(a) == type(b) and a == b: return a
    if hasattr(a, 'mir_merge'): return a.mir_merge(c, a, b)
    if hasattr(b, 'mir_merge'): return b.mir_merge(c, a, b)
    if isinstance(a, Agg) and isinstance(b, Agg) and a.name == b.name and len(a.fields) == len(b.fields):
        return Agg(a.name, [merge_values(c, x, y) for x, y in zip(a.fields, b.fields)])
    if isinstance(a, Enum) and isinstance(b, Enum) and a.variant == b.variant and len(a.fields) == len(b.fields):
        return Enum(a.name, a.variant, [merge_values(c, x, y) for x, y in zip(a.fields, b.fields)])
    if isinstance(a, list) and isinstance(b, list) and len(a) == len(b): return [merge_values(c, x, y) for x, y in zip(a, b)]
    if isinstance(a, bool) or isinstance(b, bool) or z3.is_bool(a) or z3.is_bool(b):
        A = z3.BoolVal(a) if isinstance(a, bool) else a; B = z3.BoolVal(b) if isinstance(b, bool) else b
        return z3.simplify(z3.If(c, A, B))
    if z3.is_bv(a) or z3.is_bv(b):
        w = a.size() if z3.is_bv(a) else b.size()
        A = z3.BitVecVal(a, w) if isinstance(a, int) else a; B = z3.BitVecVal(b, w) if isinstance(b, int) else b
        return z3.simplify(z3.If(c, A, B))
    if isinstance(a, Ref) and isinstance(b, Ref) and a.frame is b.frame and a.local == b.local and a.path == b.path: return a
    if isinstance(a, Agg) and not a.fields and isinstance(b, Agg) and not b.fields: return a
    raise Unsupported(f'cannot merge {a!r} and {b!r}')

def run_paths(items, models, body, enums=None, max_paths=4096, merge_fns=(), ctx_hook=None):
    """Enumerate all paths of `body(I, holder_frame)` by replay (body typically calls the code under analysis, then the
    specification on the same Ctx, and returns what is to be compared).  Returns a list of dicts:
    decisions, path (z3 conds), side, ctx, interp, and result | panic | pruned."""
    results = []; stack = [[]]
    while stack:
        dec = stack.pop()
        ctx = Ctx(dec)
        if ctx_hook: ctx_hook(ctx)
        I = Interp(items, ctx, models, enums=enums, merge_fns=merge_fns)
        holder = Frame(Item('fn', '<harness>', ''))
        rec = {'ctx': ctx, 'interp': I}
        try:
            rec['result'] = body(I, holder)
        except Panic as e:
            rec['panic'] = e.msg
        except PathEnd as e:
            rec['pruned'] = str(e)
        rec['decisions'] = list(ctx.decisions); rec['path'] = list(ctx.path); rec['side'] = list(ctx.side)
        results.append(rec)
        if len(results) > max_paths: raise Unsupported('too many paths')
        for i in range(len(dec), len(ctx.decisions)):
            stack.append(ctx.decisions[:i] + [True])
    return results

def find_item(items, pattern):
    """unique item whose name matches the regex `pattern`"""
    c = [it for k, it in items.items() if re.search(pattern, k)]
    if len(c) != 1: raise Unsupported(f'item pattern {pattern!r} matches {len(c)} items: ' + ', '.join(x.name for x in c[:5]))
    return c[0]


def find_item_hdr(items, name_re, header_re, kind=None):
    """unique item whose name matches `name_re` and whose impl header (source text) matches `header_re`"""
    c = [it for k, it in items.items() if re.search(name_re, k) and it.impl_at and re.search(header_re, it.impl_header()) and (kind is None or it.kind == kind)]
    if len(c) != 1: raise Unsupported(f'item {name_re!r} with header {header_re!r} matches {len(c)} items: ' + ', '.join(x.name for x in c[:5]))
    return c[0]
