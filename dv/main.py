import sys, os, time, traceback, argparse
from . import common

def main():
    ap = argparse.ArgumentParser()
    ap.add_argument('prop')
    ap.add_argument('--tier', default=None)
    ap.add_argument('--replay', default=None)
    a = ap.parse_args()
    if a.tier: os.environ['VERIF_TIER'] = a.tier
    os.environ.setdefault('VERIF_TIER', 'quick')
    from . import props
    if a.replay:
        from . import replay
        sys.exit(replay.replay_file(a.replay))
    fn = getattr(props, a.prop, None)
    if fn is None:
        print(f'unknown property {a.prop}'); sys.exit(2)
    t0 = time.time()
    try:
        rc = fn(t0)
    except Exception:
        traceback.print_exc()
        print(f'[{a.prop}] check crashed: inconclusive')
        rc = 2
    sys.exit(rc)

if __name__ == '__main__':
    main()
