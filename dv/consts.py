"""E4: ground obligations about published constants (C17) and the BLS12-377 configuration (C16).

Every literal is obtained by evaluating the constant's MIR body with the interpreter (so `const X: T = <expr>` wiring, trait
associated constants and Lazy initialisers are the real code), then each defining equation becomes a closed SMT formula
(modular powers as chains of `x_{i+1} = x_i^2 [* b] mod p` equalities) that z3 decides.  There is no input space."""
import re, time
import z3
from . import mirsym, models, poly, common, spec
from .mirsym import Agg, Enum, Ref, SliceRef, Panic, Unsupported, Ctx, Interp, Frame, Item
from .poly import FE, FIELDS
from .common import Ob

SMALL_GEN = {'Fq': 22, 'Fr': 5, 'Fp': 15}     # multiplicative generators documented for the three fields (arkworks FqConfig/FrConfig)
NBYTES = {'Fq': 32, 'Fr': 32, 'Fp': 48}

def interp_for(build):
    from .curve import items_for, curve_models
    items = items_for(build)
    M = curve_models(build)
    def m_montfp(I, fr, fn, a):
        # ark_ff::MontFp!("decimal") expands to a const evaluation inside arkworks; the dump shows the resulting call/consts
        raise Unsupported('MontFp')
    return items, Interp(items, Ctx(), M)

def val(v):
    """python integer value of an evaluated constant (field element -> canonical value, limb array / BigInt -> integer)"""
    if isinstance(v, FE):
        assert v.is_const(); return v.const_value()
    if isinstance(v, Agg) and len(v.fields) == 1: return val(v.fields[0])
    if isinstance(v, list) and all(isinstance(x, int) for x in v): return sum(x << (64 * i) for i, x in enumerate(v))
    if isinstance(v, int): return v
    raise Unsupported(f'value of {v!r}')

class Ground:
    """accumulates closed formulas; each is decided separately by z3 (negation unsat)"""
    def __init__(s, build): s.build = build; s.obs = []; s.n = 0
    def powchain(s, base, e, p):
        """returns (z3 Int constant standing for base^e mod p, defining equations)"""
        eqs = []; s.n += 1
        acc = z3.IntVal(1); first = True
        bits = bin(e)[2:] if e > 0 else ''
        for i, b in enumerate(bits):
            x = z3.Int(f'pw{s.n}_{i}')
            t = acc * acc
            if b == '1': t = t * base
            eqs.append(x == t % p); acc = x
        return acc, eqs
    def check(s, name, formula, defs=(), sample=None, key=None, kind='const'):
        sv = z3.Solver(); sv.set('timeout', 120000)
        for d in defs: sv.add(d)
        sv.add(z3.Not(formula))
        t0 = time.time(); r = sv.check(); dt = time.time() - t0
        nm = f'{s.build}:{name}'
        samp = {'formula': str(formula)[:300]}
        if sample: samp.update(sample)
        if r == z3.unsat: s.obs.append(Ob(nm, 'proved', '', dt, 'z3 ground', samp))
        elif r == z3.sat: s.obs.append(Ob(nm, 'violated', 'defining equation does not hold: ' + str(formula)[:200], dt, 'z3 ground', samp, {'kind': kind, 'build': s.build, 'const': name}, key=key))
        else: s.obs.append(Ob(nm, 'inconclusive', 'z3 unknown', dt, 'z3 ground', samp))
    def eq(s, name, got, want, **kw):
        s.check(name, z3.IntVal(got) == z3.IntVal(want), sample={'value': hex(got)[:80], 'expected': hex(want)[:80]}, **kw)

def find_consts(items, pattern):
    return sorted([it for k, it in items.items() if it.kind in ('const', 'static') and re.search(pattern, k)], key=lambda i: i.name)

def ev(I, it):
    """evaluate a const/static item; Lazy statics are forced"""
    fr = Frame(Item('fn', '<consts>', ''))
    v = I.eval_const_path(fr, it.name) if it.kind == 'const' else None
    if it.kind == 'static':
        v = I.call_item(it, []) if it.value_text is None else I.const(Frame(it), it.value_text)
        if isinstance(v, Agg) and v.name == 'Lazy': v = I.call_closure(fr, v.fields[0], [])
    return v

def check_field_constants(build):
    items, I = interp_for(build)
    G = Ground(build)
    for F in ('Fq', 'Fr', 'Fp'):
        f = F.lower(); p = FIELDS[F]
        s2 = (p - 1 & -(p - 1)).bit_length() - 1; trace = (p - 1) >> s2
        def get(name, where=None):
            pat = rf'^fields::{f}::<impl at src/fields/{f}\.rs[^>]*>::{name}$' if where is None else where
            c = find_consts(items, pat)
            if len(c) != 1: raise Unsupported(f'{F}::{name}: {len(c)} items match')
            return ev(I, c[0])
        def guard(name, fn):
            try: fn()
            except (Unsupported, Panic, AssertionError, KeyError, IndexError, TypeError, AttributeError) as e:
                G.obs.append(Ob(f'{build}:{F}::{name}', 'inconclusive', f'{type(e).__name__}: {e} ' + ' <- '.join(getattr(e, 'mir_stack', [])[:2]), 0, 'mirsym const eval'))
        guard('MODULUS_LIMBS', lambda: G.eq(f'{F}::MODULUS_LIMBS is the field prime', val(get('MODULUS_LIMBS')), p))
        guard('MODULUS_MINUS_ONE_DIV_TWO_LIMBS', lambda: G.check(f'{F}::MODULUS_MINUS_ONE_DIV_TWO_LIMBS * 2 + 1 = p', z3.IntVal(val(get('MODULUS_MINUS_ONE_DIV_TWO_LIMBS'))) * 2 + 1 == p))
        guard('MODULUS_BIT_SIZE', lambda: G.check(f'{F}::MODULUS_BIT_SIZE', z3.And(z3.IntVal(2 ** (val(get('MODULUS_BIT_SIZE')) - 1)) <= p, p < z3.IntVal(2 ** val(get('MODULUS_BIT_SIZE'))))))
        guard('TWO_ADICITY', lambda: G.check(f'{F}::TWO_ADICITY', z3.And(z3.IntVal(p - 1) % z3.IntVal(2 ** val(get('TWO_ADICITY'))) == 0, (z3.IntVal(p - 1) / z3.IntVal(2 ** val(get('TWO_ADICITY')))) % 2 == 1)))
        guard('TRACE_LIMBS', lambda: G.check(f'{F}::TRACE_LIMBS * 2^s = p - 1, odd', z3.And(z3.IntVal(val(get('TRACE_LIMBS'))) * (2 ** s2) == p - 1, z3.IntVal(val(get('TRACE_LIMBS'))) % 2 == 1)))
        guard('TRACE_MINUS_ONE_DIV_TWO_LIMBS', lambda: G.check(f'{F}::TRACE_MINUS_ONE_DIV_TWO_LIMBS * 2 + 1 = trace', z3.IntVal(val(get('TRACE_MINUS_ONE_DIV_TWO_LIMBS'))) * 2 + 1 == trace))
        def gen():
            g = val(get('MULTIPLICATIVE_GENERATOR'))
            G.eq(f'{F}::MULTIPLICATIVE_GENERATOR is the documented generator {SMALL_GEN[F]}', g, SMALL_GEN[F])
            x, eqs = G.powchain(z3.IntVal(g), (p - 1) // 2, p)
            G.check(f'{F}::MULTIPLICATIVE_GENERATOR is a quadratic non-residue (g^((p-1)/2) = -1)', x == p - 1, eqs)
        guard('MULTIPLICATIVE_GENERATOR', gen)
        def root():
            g = val(get('MULTIPLICATIVE_GENERATOR')); w = val(get('TWO_ADIC_ROOT_OF_UNITY'))
            x, eqs = G.powchain(z3.IntVal(g), trace, p)
            G.check(f'{F}::TWO_ADIC_ROOT_OF_UNITY = generator^trace', x == w, eqs)
            y, eqs2 = G.powchain(z3.IntVal(w), 2 ** (s2 - 1), p)
            G.check(f'{F}::TWO_ADIC_ROOT_OF_UNITY has exact order 2^s', y == p - 1, eqs2)
        guard('TWO_ADIC_ROOT_OF_UNITY', root)
        if F != 'Fr':
            def qnr():
                w = val(get('QUADRATIC_NON_RESIDUE_TO_TRACE'))
                y, eqs = G.powchain(z3.IntVal(w), 2 ** (s2 - 1), p)
                G.check(f'{F}::QUADRATIC_NON_RESIDUE_TO_TRACE has exact order 2^s (a non-residue raised to the trace)', y == p - 1, eqs)
            guard('QUADRATIC_NON_RESIDUE_TO_TRACE', qnr)
        guard('FIELD_SIZE_POWER_OF_TWO', lambda: G.check(f'{F}::FIELD_SIZE_POWER_OF_TWO = 2^(8*{NBYTES[F]}) mod p', z3.IntVal(val(get('FIELD_SIZE_POWER_OF_TWO'))) == z3.IntVal(2 ** (8 * NBYTES[F])) % p))
        # wrapper constants of both wrappers that are compiled in this build
        for w in (('u64',) if build == 'ark' else ('u32',)):   # the wrapper that is observable in this build
            def wget(name): return get(name, rf'^fields::{f}::{w}::wrapper::<impl at [^>]*>::{name}$')
            guard(f'{w} ONE', lambda: G.eq(f'{F} ({w} wrapper) ONE', val(wget('ONE')), 1))
            guard(f'{w} ZERO', lambda: G.eq(f'{F} ({w} wrapper) ZERO', val(wget('ZERO')), 0))
            if F == 'Fp':
                guard(f'{w} MINUS_ONE', lambda: G.eq(f'Fp ({w} wrapper) MINUS_ONE', val(wget('MINUS_ONE')), p - 1))
                def fqnr():
                    v = val(wget('QUADRATIC_NON_RESIDUE'))
                    G.eq(f'Fp ({w} wrapper) QUADRATIC_NON_RESIDUE = -5 (the Fp2 non-residue of BLS12-377)', v, p - 5)
                    x, eqs = G.powchain(z3.IntVal(v), (p - 1) // 2, p)
                    G.check(f'Fp ({w} wrapper) QUADRATIC_NON_RESIDUE is a non-residue', x == p - 1, eqs)
                guard(f'{w} QUADRATIC_NON_RESIDUE', fqnr)
        if build == 'ark':
            # trait-level constants must be the inherent ones (wiring through fields/*/arkworks.rs)
            A = rf'^fields::{f}::arkworks::<impl at [^>]*>::'
            def tget(name): return get(name, A + name + '$')
            guard('PrimeField::MODULUS', lambda: G.eq(f'<{F} as PrimeField>::MODULUS', val(tget('MODULUS')), p))
            guard('PrimeField::MODULUS_MINUS_ONE_DIV_TWO', lambda: G.eq(f'<{F} as PrimeField>::MODULUS_MINUS_ONE_DIV_TWO', val(tget('MODULUS_MINUS_ONE_DIV_TWO')), (p - 1) // 2))
            guard('PrimeField::MODULUS_BIT_SIZE', lambda: G.eq(f'<{F} as PrimeField>::MODULUS_BIT_SIZE', val(tget('MODULUS_BIT_SIZE')), p.bit_length()))
            guard('PrimeField::TRACE', lambda: G.eq(f'<{F} as PrimeField>::TRACE', val(tget('TRACE')), trace))
            guard('PrimeField::TRACE_MINUS_ONE_DIV_TWO', lambda: G.eq(f'<{F} as PrimeField>::TRACE_MINUS_ONE_DIV_TWO', val(tget('TRACE_MINUS_ONE_DIV_TWO')), (trace - 1) // 2))
            guard('FftField::GENERATOR', lambda: G.eq(f'<{F} as FftField>::GENERATOR', val(tget('GENERATOR')), SMALL_GEN[F]))
            guard('FftField::TWO_ADICITY', lambda: G.eq(f'<{F} as FftField>::TWO_ADICITY', val(tget('TWO_ADICITY')), s2))
            guard('FftField::TWO_ADIC_ROOT_OF_UNITY', lambda: G.eq(f'<{F} as FftField>::TWO_ADIC_ROOT_OF_UNITY = generator^trace', val(tget('TWO_ADIC_ROOT_OF_UNITY')), pow(SMALL_GEN[F], trace, p)))
            guard('Field::ONE', lambda: G.eq(f'<{F} as Field>::ONE', val(tget('ONE')), 1))
            guard('Field::ZERO', lambda: G.eq(f'<{F} as Field>::ZERO', val(tget('ZERO')), 0))
            def sqrtp():
                v = tget('SQRT_PRECOMP')
                if not (isinstance(v, Enum) and v.variant == 'Some'): raise Unsupported('SQRT_PRECOMP is not Some')
                sp = v.fields[0]
                flds = [I.deref(x) if isinstance(x, (Ref, SliceRef)) else x for x in sp.fields]
                if sp.variant.endswith('TonelliShanks'):
                    ta, qn, tm = flds
                    G.eq(f'<{F} as Field>::SQRT_PRECOMP.two_adicity', val(ta), s2)
                    y, eqs = G.powchain(z3.IntVal(val(qn)), 2 ** (s2 - 1), p)
                    G.check(f'<{F} as Field>::SQRT_PRECOMP.quadratic_nonresidue_to_trace has exact order 2^s', y == p - 1, eqs)
                    G.eq(f'<{F} as Field>::SQRT_PRECOMP.trace_of_modulus_minus_one_div_two', val(tm), (trace - 1) // 2)
                elif sp.variant.endswith('Case3Mod4'):
                    G.check(f'<{F} as Field>::SQRT_PRECOMP: p = 3 mod 4 and the exponent is (p+1)/4', z3.And(z3.IntVal(p) % 4 == 3, z3.IntVal(val(flds[0])) * 4 == p + 1))
                else: raise Unsupported('SQRT_PRECOMP variant ' + sp.variant)
            guard('Field::SQRT_PRECOMP', sqrtp)
    return G.obs

def check_curve_constants(build):
    items, I = interp_for(build)
    G = Ground(build); q = FIELDS['Fq']; r = FIELDS['Fr']
    a, d = q - 1, spec.Dd
    def get(pat):
        c = find_consts(items, pat)
        if len(c) != 1: raise Unsupported(f'{pat}: {len(c)} items match')
        return ev(I, c[0])
    def guard(name, fn):
        try: fn()
        except (Unsupported, Panic, AssertionError, KeyError, IndexError, TypeError, AttributeError) as e:
            G.obs.append(Ob(f'{build}:{name}', 'inconclusive', f'{type(e).__name__}: {e} ' + ' <- '.join(getattr(e, 'mir_stack', [])[:2]), 0, 'mirsym const eval'))
    def zeta_checks(tag, z):
        G.eq(f'{tag} equals the specification value of zeta', z, spec.ZETA)
        x, eqs = G.powchain(z3.IntVal(z), (q - 1) // 2, q)
        G.check(f'{tag} is a non-square (Euler)', x == q - 1, eqs)
    # generator = decode(8): square root supplied as a hint and checked
    def gen_checks(tag, X, Y, Z, T):
        from . import replay
        bx, by = replay.ref_decode((8).to_bytes(32, 'little'))
        G.check(f'{tag} is on the curve -x^2 + y^2 = 1 + d x^2 y^2 and T Z = X Y',
                z3.And((z3.IntVal(Y) * Y - z3.IntVal(X) * X - z3.IntVal(Z) * Z - d * z3.IntVal(T) * T) % q == 0, (z3.IntVal(T) * Z - z3.IntVal(X) * Y) % q == 0))
        # decode(8): s = 8; u1 = 1 - 64; u2 = u1^2 - 4 d 64; v with v^2 u2 u1^2 = 1 (hint), sign fixed; x = 2 s v^2 u1 u2, y = (1 + ss) v u1
        s_ = 8; ss = 64; u1 = (1 - ss) % q; u2 = (u1 * u1 - 4 * d * ss) % q
        v = z3.Int('v_hint')
        hint = replay.ref_sqrt_ratio(1, u2 * u1 * u1 % q)[1]
        if (2 * s_ * u1 * hint % q) & 1: hint = q - hint
        defs = [v == hint]
        G.check(f'{tag} = decode(8) (square root supplied as a checked hint)',
                z3.And((v * v * u2 * u1 * u1) % q == 1, ((2 * s_ * u1 * v) % q) % 2 == 0,
                       (z3.IntVal(X) * pow(Z, -1, q) - 2 * s_ * v * v * u1 * u2) % q == 0, (z3.IntVal(Y) * pow(Z, -1, q) - (1 + ss) * v * u1) % q == 0), defs)
    if build == 'ark':
        C = r'^ark_curve::constants::'
        guard('ZETA', lambda: zeta_checks('ark_curve::constants::ZETA', val(get(C + 'ZETA$'))))
        guard('TE COEFF_A', lambda: G.eq('TECurveConfig::COEFF_A = -1', val(ev(I, mirsym.find_item_hdr(items, r'::COEFF_A$', r'TECurveConfig for'))), a))
        guard('TE COEFF_D', lambda: G.eq('TECurveConfig::COEFF_D = 3021', val(ev(I, mirsym.find_item_hdr(items, r'::COEFF_D$', r'TECurveConfig for'))), d))
        def mont():
            its = [it for it in find_consts(items, r'^ark_curve::edwards::<impl at [^>]*>::COEFF_[AB]$') if 'MontCurveConfig' in it.impl_header()]
            mA = val(ev(I, [i for i in its if i.name.endswith('COEFF_A')][0])); mB = val(ev(I, [i for i in its if i.name.endswith('COEFF_B')][0]))
            G.check('MontCurveConfig::COEFF_A * (a - d) = 2 (a + d)', (z3.IntVal(mA) * (a - d) - 2 * (a + d)) % q == 0)
            G.check('MontCurveConfig::COEFF_B * (a - d) = 4', (z3.IntVal(mB) * (a - d) - 4) % q == 0)
        guard('Mont coefficients', mont)
        guard('COFACTOR', lambda: G.eq('CurveConfig::COFACTOR = 1 (decaf quotient has prime order)', val(I.deref(get(r'^ark_curve::edwards::<impl at [^>]*>::COFACTOR$'))), 1))
        guard('COFACTOR_INV', lambda: G.eq('CurveConfig::COFACTOR_INV = 1', val(get(r'^ark_curve::edwards::<impl at [^>]*>::COFACTOR_INV$')), 1))
        def basepoint():
            X, Y, T, Z = [val(get(C + n + '$')) for n in ('B_X', 'B_Y', 'B_T', 'B_Z')]
            gen_checks('basepoint (B_X, B_Y, B_Z, B_T)', X, Y, Z, T)
            G.eq('GENERATOR_X = B_X', val(get(C + 'GENERATOR_X$')), X); G.eq('GENERATOR_Y = B_Y', val(get(C + 'GENERATOR_Y$')), Y)
            g = get(r'^ark_curve::element::projective::<impl at [^>]*>::GENERATOR$')
            gx, gy, gt, gz = [val(x) for x in g.fields[0].fields]
            gen_checks('Element::GENERATOR', gx, gy, gz, gt)
            i_ = get(r'^ark_curve::element::projective::<impl at [^>]*>::IDENTITY$')
            ix, iy, it_, iz = [val(x) for x in i_.fields[0].fields]
            G.check('Element::IDENTITY = (0 : 1 : 1 : 0)', z3.And(z3.IntVal(ix) == 0, z3.IntVal(iy) == iz, z3.IntVal(iz) != 0, z3.IntVal(it_) == 0))
            te = get(r'^ark_curve::edwards::<impl at [^>]*>::GENERATOR$')
            tx, ty = [val(x) for x in te.fields]
            G.check('TECurveConfig::GENERATOR = (B_X, B_Y)', z3.And(z3.IntVal(tx) == X, z3.IntVal(ty) == Y))
        guard('basepoint', basepoint)
        M = (q - 1) >> 47
        guard('N', lambda: G.eq('constants::N = 2-adicity of q - 1', val(get(C + 'N$')), 47))
        guard('SQRT_W', lambda: G.eq('constants::SQRT_W = 8', val(get(C + 'SQRT_W$')), 8))
        guard('M', lambda: G.check('constants::M * 2^47 = q - 1', z3.IntVal(val(get(C + 'M$'))) * 2 ** 47 == q - 1))
        guard('M_MINUS_ONE_DIV_TWO', lambda: G.check('constants::M_MINUS_ONE_DIV_TWO * 2 + 1 = M', z3.IntVal(val(get(C + 'M_MINUS_ONE_DIV_TWO$'))) * 2 + 1 == M))
        def z1m():
            v = val(get(C + 'ZETA_TO_ONE_MINUS_M_DIV_TWO$'))
            x, eqs = G.powchain(z3.IntVal(spec.ZETA), (M - 1) // 2, q)
            G.check('constants::ZETA_TO_ONE_MINUS_M_DIV_TWO * zeta^((M-1)/2) = 1', (z3.IntVal(v) * x) % q == 1, eqs)
        guard('ZETA_TO_ONE_MINUS_M_DIV_TWO', z1m)
        def gg():
            v = val(get(C + 'G$'))
            x, eqs = G.powchain(z3.IntVal(spec.ZETA), M, q)
            G.check('constants::G = zeta^M', x == v, eqs)
        guard('G', gg)
        guard('R', lambda: G.check('constants::R (group order, as an Fr element) is r mod r = 0', z3.IntVal(val(get(C + 'R$'))) == 0))
        guard('ONE', lambda: G.eq('constants::ONE', val(get(C + 'ONE$')), 1))
        guard('TWO', lambda: G.eq('constants::TWO', val(get(C + 'TWO$')), 2))
    else:
        C = r'^min_curve::constants::'
        guard('ZETA', lambda: zeta_checks('min_curve::constants::ZETA', val(get(C + 'ZETA$'))))
        def zt():
            v = val(get(C + 'ZETA_TO_TRACE$'))
            x, eqs = G.powchain(z3.IntVal(spec.ZETA), (q - 1) >> 47, q)
            G.check('min_curve::constants::ZETA_TO_TRACE = zeta^trace', x == v, eqs)
        guard('ZETA_TO_TRACE', zt)
        guard('COEFF_A', lambda: G.eq('min_curve COEFF_A = -1', val(get(C + 'COEFF_A$')), a))
        guard('COEFF_D', lambda: G.eq('min_curve COEFF_D = 3021', val(get(C + 'COEFF_D$')), d))
        guard('COEFF_K', lambda: G.check('min_curve COEFF_K * a = -2 d', (z3.IntVal(val(get(C + 'COEFF_K$'))) * a + 2 * d) % q == 0))
        def basepoint():
            g = get(r'^min_curve::element::<impl at [^>]*>::GENERATOR$')
            gx, gy, gz, gt = [val(x) for x in g.fields]
            gen_checks('Element::GENERATOR', gx, gy, gz, gt)
            i_ = ev(I, [c for c in find_consts(items, r'^min_curve::element::<impl at [^>]*>::IDENTITY$') if 'Element' in (c.ret or '') and 'AffinePoint' not in c.impl_header()][0])
            ix, iy, iz, it_ = [val(x) for x in i_.fields]
            G.check('Element::IDENTITY = (0 : 1 : 1 : 0)', z3.And(z3.IntVal(ix) == 0, z3.IntVal(iy) == iz, z3.IntVal(iz) != 0, z3.IntVal(it_) == 0))
        guard('basepoint', basepoint)
    # group order facts: [r]B = identity and B != identity, by the python reference law (ground arithmetic; r prime is trusted)
    return G.obs

def check_group_order(build):
    """[r] GENERATOR is the identity element (X = 0) and GENERATOR is not: the double-and-add chain over the generator literal
    obtained from the MIR, every step a ground formula with the step's result supplied as a hint and checked by z3."""
    items, I = interp_for(build)
    G = Ground(build); q = FIELDS['Fq']; r = FIELDS['Fr']; d = spec.Dd
    pat = r'^ark_curve::element::projective::<impl at [^>]*>::GENERATOR$' if build == 'ark' else r'^min_curve::element::<impl at [^>]*>::GENERATOR$'
    try:
        g = ev(I, find_consts(items, pat)[0])
        if build == 'ark': gx, gy, gt, gz = [val(x) for x in g.fields[0].fields]
        else: gx, gy, gz, gt = [val(x) for x in g.fields]
    except Exception as e:
        return [Ob(f'{build}:group order', 'inconclusive', f'{type(e).__name__}: {e}', 0, 'mirsym const eval')]
    zi = pow(gz, -1, q); P = (gx * zi % q, gy * zi % q)
    def add(p1, p2):
        x1, y1 = p1; x2, y2 = p2
        dd = d * x1 * x2 * y1 * y2 % q
        return ((x1 * y2 + y1 * x2) * pow(1 + dd, -1, q) % q, (y1 * y2 + x1 * x2) * pow(1 - dd, -1, q) % q)
    steps = []     # (p1, p2, p3)
    acc = (0, 1); ins = P
    k = r
    while k:
        if k & 1:
            n = add(acc, ins); steps.append((acc, ins, n)); acc = n
        k >>= 1
        if k:
            n = add(ins, ins); steps.append((ins, ins, n)); ins = n
    sv = z3.Solver(); sv.set('timeout', 300000)
    conj = []
    for (x1, y1), (x2, y2), (x3, y3) in steps:
        X1, Y1, X2, Y2, X3, Y3 = [z3.IntVal(v) for v in (x1, y1, x2, y2, x3, y3)]
        dd = d * X1 * X2 * Y1 * Y2
        conj.append(z3.And((X3 * (1 + dd) - (X1 * Y2 + Y1 * X2)) % q == 0, (Y3 * (1 - dd) - (Y1 * Y2 + X1 * X2)) % q == 0, (1 + dd) % q != 0, (1 - dd) % q != 0))
    t0 = time.time()
    sv.add(z3.Not(z3.And(conj + [z3.IntVal(acc[0]) == 0, z3.IntVal(P[0]) != 0])))
    res = sv.check(); dt = time.time() - t0
    nm = f'{build}:[r]*GENERATOR has X = 0 (identity) and GENERATOR has X != 0; {len(steps)} affine addition steps checked'
    if res == z3.unsat: return [Ob(nm, 'proved', 'each step satisfies the Edwards addition law; final X = 0', dt, 'z3 ground', {'steps': len(steps), 'final': [hex(acc[0]), hex(acc[1])]})]
    if res == z3.sat: return [Ob(nm, 'violated', f'[r]*GENERATOR = {acc}', dt, 'z3 ground', None, {'kind': 'order', 'build': build})]
    return [Ob(nm, 'inconclusive', 'z3 unknown', dt, 'z3 ground')]

# ============================================================================================== C16: BLS12-377 configuration
def _bls_models():
    def m_quad_new(I, fr, fn, a): return Agg('Fp2', [a[0], a[1]])
    def m_cubic_new(I, fr, fn, a): return Agg('Fp6', [a[0], a[1], a[2]])
    def c_ext_const(I, fr, path):
        m = re.match(r'^<ark_ff::(Quad|Cubic)ExtField<.*> as ark_ff::Field>::(ZERO|ONE)$', path)
        one = m.group(2) == 'ONE'
        z2 = Agg('Fp2', [FE.const('Fp', 0), FE.const('Fp', 0)]); o2 = Agg('Fp2', [FE.const('Fp', 1), FE.const('Fp', 0)])
        if m.group(1) == 'Quad': return o2 if one else z2
        return Agg('Fp6', [o2 if one else z2, z2, z2])
    return [(r'^ark_ff::QuadExtField::<.*>::new$', m_quad_new), (r'^ark_ff::CubicExtField::<.*>::new$', m_cubic_new),
            (r'^ark_ec::short_weierstrass::Affine::<.*>::new_unchecked$', lambda I, fr, fn, a: Agg('SWAffine', list(a)))], [(r'^<ark_ff::(Quad|Cubic)ExtField<.*> as ark_ff::Field>::(ZERO|ONE)$', c_ext_const)]

def _ref_bls_values():
    """reference values parsed from the source of the ark-bls12-377 crate in the cargo registry (decimal MontFp! literals)"""
    import glob, os
    base = glob.glob(os.path.expanduser('~/.cargo/registry/src/*/ark-bls12-377-0.4.0/src'))
    if not base: raise Unsupported('ark-bls12-377 source not found in the cargo registry')
    base = base[0]
    out = {}
    def lits(txt): return [int(x) for x in re.findall(r'MontFp!\(\s*"(-?\d+)"\s*\)', txt)]
    for rel in ('curves/g1.rs', 'curves/g2.rs', 'fields/fq2.rs', 'fields/fq6.rs', 'fields/fq12.rs', 'curves/mod.rs'):
        p = os.path.join(base, rel)
        if os.path.exists(p): out[rel] = open(p).read()
    return out, lits

def check_bls_config():
    """C16 (constants only): every literal of ark_curve/bls12_377.rs satisfies its defining equation and equals the value in the
    reference crate's source; the engine itself is the same generic ark-ec code over the same field types"""
    items, I = interp_for('ark')
    extra_fns, extra_consts = _bls_models()
    I.models['fns'] = extra_fns + I.models['fns']; I.models['consts'] = extra_consts + I.models.get('consts', [])
    G = Ground('ark'); p = FIELDS['Fp']; r = FIELDS['Fq']
    X = 0x8508c00000000001
    def hdr_const(name, hdr): return ev(I, mirsym.find_item_hdr(items, rf'^ark_curve::bls12_377::.*::{name}$', hdr))
    def plain(name): return ev(I, find_consts(items, rf'^ark_curve::bls12_377::{name}$')[0])
    def guard(name, fn):
        try: fn()
        except (Unsupported, Panic, AssertionError, KeyError, IndexError, TypeError, AttributeError, ValueError) as e:
            G.obs.append(Ob(f'ark:bls12_377 {name}', 'inconclusive', f'{type(e).__name__}: {e} ' + ' <- '.join(getattr(e, 'mir_stack', [])[:2]), 0, 'mirsym const eval'))
    def f2(v):
        v = I.deref(v) if isinstance(v, (Ref, SliceRef)) else v
        return (val(v.fields[0]), val(v.fields[1]))
    def arr(v):
        v = I.deref(v) if isinstance(v, (Ref, SliceRef)) else v
        return v
    beta = p - 5
    def f2mul(a, b): return ((a[0] * b[0] + beta * a[1] * b[1]) % p, (a[0] * b[1] + a[1] * b[0]) % p)
    def f2pow(a, e):
        res = (1, 0)
        while e:
            if e & 1: res = f2mul(res, a)
            a = f2mul(a, a); e >>= 1
        return res
    def f2chain(base, e, tag):
        """ground chain for base^e in Fp2 = Fp[u]/(u^2 + 5): returns (x0, x1) z3 constants and their defining equations"""
        eqs = []; G.n += 1; n = G.n
        a0, a1 = z3.IntVal(1), z3.IntVal(0); b0, b1 = z3.IntVal(base[0]), z3.IntVal(base[1])
        for i, bit in enumerate(bin(e)[2:] if e else ''):
            s0 = z3.Int(f'q{n}_{i}s0'); s1 = z3.Int(f'q{n}_{i}s1')
            eqs += [s0 == (a0 * a0 + beta * a1 * a1) % p, s1 == (2 * a0 * a1) % p]
            if bit == '1':
                m0 = z3.Int(f'q{n}_{i}m0'); m1 = z3.Int(f'q{n}_{i}m1')
                eqs += [m0 == (s0 * b0 + beta * s1 * b1) % p, m1 == (s0 * b1 + s1 * b0) % p]; a0, a1 = m0, m1
            else: a0, a1 = s0, s1
        return (a0, a1), eqs
    # ---- parameters
    guard('X', lambda: G.check('Bls12Config::X and the curve family: r = x^4 - x^2 + 1, p = (x - 1)^2 r / 3 + x', z3.And(z3.IntVal(val(arr(hdr_const('X', 'Bls12Config for')))) == X, z3.IntVal(X) ** 0 == 1, X ** 4 - X ** 2 + 1 == r, (X - 1) ** 2 * r == 3 * (p - X))))
    guard('X_IS_NEGATIVE', lambda: G.check('Bls12Config::X_IS_NEGATIVE = false', z3.BoolVal(hdr_const('X_IS_NEGATIVE', 'Bls12Config for') is False)))
    guard('TWIST_TYPE', lambda: G.check('Bls12Config::TWIST_TYPE = D', z3.BoolVal(str(hdr_const('TWIST_TYPE', 'Bls12Config for').variant).endswith('D'))))
    # ---- Fp2
    guard('Fp2 NONRESIDUE', lambda: G.eq('Fp2Config::NONRESIDUE = -5', val(hdr_const('NONRESIDUE', 'Fp2Config for')), beta))
    def frob2():
        c = arr(hdr_const('FROBENIUS_COEFF_FP2_C1', 'Fp2Config for'))
        G.eq('FROBENIUS_COEFF_FP2_C1[0] = 1', val(c[0]), 1)
        x, eqs = G.powchain(z3.IntVal(beta), (p - 1) // 2, p)
        G.check('FROBENIUS_COEFF_FP2_C1[1] = NONRESIDUE^((p-1)/2)', x == val(c[1]), eqs)
        G.check('FROBENIUS_COEFF_FP2_C1 has 2 entries', z3.BoolVal(len(c) == 2))
    guard('FROBENIUS_COEFF_FP2_C1', frob2)
    xi = (0, 1)
    guard('Fp6 NONRESIDUE', lambda: G.check('Fp6Config::NONRESIDUE = u (= (0, 1) in Fp2)', z3.BoolVal(f2(hdr_const('NONRESIDUE', 'Fp6Config for')) == xi)))
    def frob_table(name, hdr, n, expo, desc):
        c = arr(hdr_const(name, hdr))
        G.check(f'{name} has {n} entries', z3.BoolVal(len(c) == n))
        for i in range(min(n, len(c))):
            e = expo(i)
            (x0, x1), eqs = f2chain(xi, e, name)
            got = f2(c[i])
            G.check(f'{name}[{i}] = {desc(i)}', z3.And(x0 == got[0], x1 == got[1]), eqs, sample={'value': [hex(got[0])[:40], hex(got[1])[:40]]})
    guard('FROBENIUS_COEFF_FP6_C1', lambda: frob_table('FROBENIUS_COEFF_FP6_C1', 'Fp6Config for', 6, lambda i: (p ** i - 1) // 3, lambda i: f'u^((p^{i} - 1)/3)'))
    guard('FROBENIUS_COEFF_FP6_C2', lambda: frob_table('FROBENIUS_COEFF_FP6_C2', 'Fp6Config for', 6, lambda i: (2 * p ** i - 2) // 3, lambda i: f'u^((2 p^{i} - 2)/3)'))
    guard('FROBENIUS_COEFF_FP12_C1', lambda: frob_table('FROBENIUS_COEFF_FP12_C1', 'Fp12Config for', 12, lambda i: (p ** i - 1) // 6, lambda i: f'u^((p^{i} - 1)/6)'))
    def f12nr():
        v = hdr_const('NONRESIDUE', 'Fp12Config for')
        G.check('Fp12Config::NONRESIDUE = v (= (0, 1, 0) in Fp6)', z3.BoolVal([f2(x) for x in v.fields] == [(0, 0), (1, 0), (0, 0)]))
    guard('Fp12 NONRESIDUE', f12nr)
    # ---- G1
    def g1():
        a = val(hdr_const('COEFF_A', 'SWCurveConfig for OurG1Config')); b = val(hdr_const('COEFF_B', 'SWCurveConfig for OurG1Config'))
        G.check('G1: y^2 = x^3 + 1 (COEFF_A = 0, COEFF_B = 1)', z3.And(z3.IntVal(a) == 0, z3.IntVal(b) == 1))
        gx, gy = val(plain('G1_GENERATOR_X')), val(plain('G1_GENERATOR_Y'))
        G.check('G1 generator is on the curve', (z3.IntVal(gy) * gy - z3.IntVal(gx) * gx * gx - 1) % p == 0)
        gen = hdr_const('GENERATOR', 'SWCurveConfig for OurG1Config')
        G.check('SWCurveConfig::GENERATOR (G1) = (G1_GENERATOR_X, G1_GENERATOR_Y)', z3.BoolVal([val(x) for x in gen.fields] == [gx, gy]))
        h = val(arr(hdr_const('COFACTOR', 'CurveConfig for OurG1Config')))
        G.check('G1 COFACTOR = (x - 1)^2 / 3', z3.IntVal(h) * 3 == (X - 1) ** 2)
        hi = val(hdr_const('COFACTOR_INV', 'CurveConfig for OurG1Config'))
        G.check('G1 COFACTOR_INV * COFACTOR = 1 mod r', (z3.IntVal(hi) * h) % r == 1)
        # [r] G1 = O  by an affine short-Weierstrass chain with checked hints
        sw_order_chain(G, 'G1', (gx, gy), r, p)
    guard('G1', g1)
    # ---- G2
    def g2():
        a = f2(hdr_const('COEFF_A', 'SWCurveConfig for OurG2Config')); b = f2(hdr_const('COEFF_B', 'SWCurveConfig for OurG2Config'))
        G.check('G2 COEFF_A = 0', z3.BoolVal(a == (0, 0)))
        bx = f2mul(b, xi)
        G.check('G2 COEFF_B * u = 1 (D-type twist y^2 = x^3 + 1/u)', z3.And((z3.IntVal(b[0]) * 0 + beta * z3.IntVal(b[1]) * 1) % p == 1, (z3.IntVal(b[0]) * 1 + z3.IntVal(b[1]) * 0) % p == 0))
        gx, gy = f2(plain('G2_GENERATOR_X')), f2(plain('G2_GENERATOR_Y'))
        lhs = f2mul(gy, gy); x3 = f2mul(f2mul(gx, gx), gx); rhs = ((x3[0] + b[0]) % p, (x3[1] + b[1]) % p)
        X0, X1, Y0, Y1 = [z3.IntVal(v) for v in (gx[0], gx[1], gy[0], gy[1])]
        xx0 = (X0 * X0 + beta * X1 * X1); xx1 = 2 * X0 * X1
        G.check('G2 generator is on the twist', z3.And((Y0 * Y0 + beta * Y1 * Y1 - (xx0 * X0 + beta * xx1 * X1) - b[0]) % p == 0, (2 * Y0 * Y1 - (xx0 * X1 + xx1 * X0) - b[1]) % p == 0))
        gen = hdr_const('GENERATOR', 'SWCurveConfig for OurG2Config')
        G.check('SWCurveConfig::GENERATOR (G2) = (G2_GENERATOR_X, G2_GENERATOR_Y)', z3.BoolVal([f2(x) for x in gen.fields] == [gx, gy]))
        h = val(arr(hdr_const('COFACTOR', 'CurveConfig for OurG2Config')))
        G.check('G2 COFACTOR = (x^8 - 4x^7 + 5x^6 - 4x^4 + 6x^3 - 4x^2 - 4x + 13)/9', z3.IntVal(h) * 9 == X ** 8 - 4 * X ** 7 + 5 * X ** 6 - 4 * X ** 4 + 6 * X ** 3 - 4 * X ** 2 - 4 * X + 13)
        hi = val(hdr_const('COFACTOR_INV', 'CurveConfig for OurG2Config'))
        G.check('G2 COFACTOR_INV * COFACTOR = 1 mod r', (z3.IntVal(hi) * h) % r == 1)
    guard('G2', g2)
    # ---- equality with the reference crate's literals
    def ref():
        src, lits = _ref_bls_values()
        ours = open(common.REPO + '/src/ark_curve/bls12_377.rs').read()
        # every decimal literal of the reference that defines a Frobenius coefficient / generator coordinate / cofactor inverse
        refvals = set()
        for rel, txt in src.items(): refvals.update(v % p for v in lits(txt))
        mine = []
        for nm, hd in (('FROBENIUS_COEFF_FP6_C1', 'Fp6Config for'), ('FROBENIUS_COEFF_FP6_C2', 'Fp6Config for'), ('FROBENIUS_COEFF_FP12_C1', 'Fp12Config for')):
            for i, c in enumerate(arr(hdr_const(nm, hd))):
                for j, v in enumerate(f2(c)): mine.append((f'{nm}[{i}].c{j}', v))
        for nm in ('G1_GENERATOR_X', 'G1_GENERATOR_Y'): mine.append((nm, val(plain(nm))))
        for nm in ('G2_GENERATOR_X', 'G2_GENERATOR_Y'):
            for j, v in enumerate(f2(plain(nm))): mine.append((f'{nm}.c{j}', v))
        missing = [n for n, v in mine if v not in refvals and v not in (0, 1, p - 1)]
        G.check(f'{len(mine)} tower/generator literals occur among the reference crate\'s literals (ark-bls12-377 0.4.0 source)', z3.BoolVal(not missing), sample={'missing': missing[:5], 'reference_literals': len(refvals)})
        rq = set()
        for rel, txt in src.items(): rq.update(v % r for v in lits(txt))
        ci = [('G1 COFACTOR_INV', val(hdr_const('COFACTOR_INV', 'CurveConfig for OurG1Config'))), ('G2 COFACTOR_INV', val(hdr_const('COFACTOR_INV', 'CurveConfig for OurG2Config')))]
        G.check('cofactor inverses occur among the reference crate\'s literals', z3.BoolVal(all(v in rq for _, v in ci)), sample={'values': [hex(v)[:30] for _, v in ci]})
    guard('reference crate literals', ref)
    return G.obs

def sw_order_chain(G, tag, P, n, p):
    """[n] P = O on y^2 = x^3 + b over F_p (a = 0): affine double-and-add with every step's result as a checked hint"""
    def add(p1, p2):
        if p1 is None: return p2
        if p2 is None: return p1
        (x1, y1), (x2, y2) = p1, p2
        if x1 == x2 and (y1 + y2) % p == 0: return None
        lam = (3 * x1 * x1) * pow(2 * y1, -1, p) % p if p1 == p2 else (y2 - y1) * pow(x2 - x1, -1, p) % p
        x3 = (lam * lam - x1 - x2) % p
        return (x3, (lam * (x1 - x3) - y1) % p)
    conj = []; acc = None; ins = P; k = n
    final_inverse = None
    while k:
        if k & 1:
            nacc = add(acc, ins)
            if acc is not None:
                (x1, y1), (x2, y2) = acc, ins
                if nacc is None: final_inverse = (acc, ins)
                else:
                    lam = (y2 - y1) * pow(x2 - x1, -1, p) % p
                    conj.append(z3.And((z3.IntVal(lam) * (x2 - x1) - (y2 - y1)) % p == 0, (z3.IntVal(lam) * lam - x1 - x2 - nacc[0]) % p == 0, (z3.IntVal(lam) * (x1 - nacc[0]) - y1 - nacc[1]) % p == 0, z3.IntVal((x2 - x1) % p) != 0))
            acc = nacc
        k >>= 1
        if k:
            (x1, y1) = ins; nins = add(ins, ins)
            lam = (3 * x1 * x1) * pow(2 * y1, -1, p) % p
            conj.append(z3.And((z3.IntVal(lam) * 2 * y1 - 3 * x1 * x1) % p == 0, (z3.IntVal(lam) * lam - 2 * x1 - nins[0]) % p == 0, (z3.IntVal(lam) * (x1 - nins[0]) - y1 - nins[1]) % p == 0, z3.IntVal(y1 % p) != 0))
            ins = nins
    ok_final = acc is None and final_inverse is not None
    if ok_final:
        (x1, y1), (x2, y2) = final_inverse
        conj.append(z3.And(z3.IntVal(x1) == x2, (z3.IntVal(y1) + y2) % p == 0))
    G.check(f'[r] {tag} generator = O ({len(conj)} checked affine steps; the last addition is P + (-P))', z3.And(conj + [z3.BoolVal(ok_final)]))
