"""Load rustc's `-Zunpretty=mir -Ztrim-diagnostic-paths=no` text dump of /repo into items, and dump it (cached by tree hash)."""
import os, re, subprocess, time, hashlib
from . import common

BUILDS = {
    # the r1cs build is a superset of the default (arkworks) build: the only cfg(feature="r1cs") gates are `pub mod r1cs`
    'ark': ['--features', 'r1cs'],
    'min': ['--no-default-features'],
}

def dump(build, debug_assertions=False):
    """Return path of the MIR text for `build`, regenerating it when /repo's sources changed."""
    h = common.tree_hash()
    tag = f'{build}{"-dbg" if debug_assertions else ""}'
    d = os.path.join(common.WORK, 'mir'); os.makedirs(d, exist_ok=True)
    out = os.path.join(d, f'{tag}-{h}.mir')
    if os.path.exists(out) and os.path.getsize(out) > 1000: return out
    for f in os.listdir(d):
        if f.startswith(tag + '-') and f.endswith('.mir'):
            try: os.unlink(os.path.join(d, f))
            except OSError: pass
    env = dict(os.environ, CARGO_TARGET_DIR=os.path.join(common.WORK, f'tgt-mir-{tag}'), CARGO_NET_OFFLINE='true')
    # make cargo re-run rustc even if nothing changed since a previous (non-MIR) build in this target dir
    stamp = os.path.join(common.REPO, 'src', 'lib.rs')
    st = os.stat(stamp)
    cmd = ['cargo', '+nightly', 'rustc', '--offline', '--lib'] + BUILDS[build] + ['--', '-Zunpretty=mir', '-Ztrim-diagnostic-paths=no',
           '-C', f'debug-assertions={"on" if debug_assertions else "off"}', '-C', 'overflow-checks=on', '--cfg', f'dv_mir_{int(time.time())}']
    t0 = time.time()
    p = subprocess.run(cmd, cwd=common.REPO, env=env, capture_output=True, text=True)
    if p.returncode != 0 or len(p.stdout) < 1000:
        raise RuntimeError('MIR dump failed for %s:\n%s' % (build, p.stderr[-3000:]))
    tmp = out + '.tmp%d' % os.getpid()
    open(tmp, 'w').write(p.stdout); os.replace(tmp, out)
    return out

class Item:
    __slots__ = ('kind', 'name', 'header', 'params', 'ret', 'lines', '_blocks', 'locals', 'impl_at', 'value_text', 'self_subst', '_hdr', 'debug', '_ipdom')
    def __init__(s, kind, name, header):
        s.kind, s.name, s.header = kind, name, header
        s.params = []; s.ret = None; s.lines = []; s._blocks = None; s.locals = {}; s.value_text = None; s.self_subst = None; s._hdr = None; s.debug = {}; s._ipdom = None
        m = re.search(r'<impl at ([^:>]+):(\d+):(\d+): (\d+):(\d+)>', name)
        s.impl_at = (m.group(1), int(m.group(2)), int(m.group(3)), int(m.group(4)), int(m.group(5))) if m else None
    @property
    def blocks(s):
        if s._blocks is None:
            blocks = {}; cur = None
            for l in s.lines:
                m = re.match(r'^    (bb\d+)(?: \(cleanup\))?: \{$', l)
                if m: cur = m.group(1); blocks[cur] = []; continue
                if cur is not None:
                    if l == '    }': cur = None; continue
                    t = l.strip()
                    if t: blocks[cur].append(t)
                else:
                    m = re.match(r'^\s*let (?:mut )?(_\d+): (.*);$', l)
                    if m: s.locals[m.group(1)] = m.group(2)
                    else:
                        m = re.match(r'^\s*debug (\w+) => (_\d+);$', l)
                        if m: s.debug.setdefault(m.group(1), []).append(m.group(2))
            s._blocks = blocks
        return s._blocks
    def impl_header(s):
        """Source text of the `impl ... ` header this item belongs to ('' if none)."""
        if s._hdr is None:
            if not s.impl_at: s._hdr = ''
            else:
                f, l1, c1, l2, c2 = s.impl_at
                src = common.src(f).split('\n')
                if l1 == l2: s._hdr = src[l1 - 1][c1 - 1:c2 - 1]
                else: s._hdr = ' '.join([src[l1 - 1][c1 - 1:]] + [x.strip() for x in src[l1:l2 - 1]] + [src[l2 - 1][:c2 - 1].strip()])
                s._hdr = re.sub(r'\s+', ' ', s._hdr)
        return s._hdr

def split_top(s, sep=','):
    out = []; d = 0; cur = ''; i = 0; n = len(s)
    while i < n:
        ch = s[i]
        if ch in '([{': d += 1
        elif ch in ')]}': d -= 1
        elif ch == '<': d += 1
        elif ch == '>' and i > 0 and s[i - 1] not in '-=': d -= 1
        if ch == sep and d == 0:
            out.append(cur.strip()); cur = ''
        else: cur += ch
        i += 1
    if cur.strip(): out.append(cur.strip())
    return out

def _name_end(rest):
    """index where the parameter list `(` of a fn header starts"""
    d = 0
    for i, ch in enumerate(rest):
        if ch == '<': d += 1
        elif ch == '>' and rest[i - 1] not in '-=': d -= 1
        elif ch == '(' and d == 0: return i
        elif ch == '{' : d += 1
        elif ch == '}' : d -= 1
    raise ValueError(rest)

def _const_split(rest):
    """NAME: TYPE  ->  (NAME, TYPE) splitting at the first top-level ': '"""
    d = 0
    for i, ch in enumerate(rest):
        if ch in '<{[(': d += 1
        elif ch in '}])': d -= 1
        elif ch == '>' and rest[i - 1] not in '-=': d -= 1
        elif ch == ':' and d == 0 and rest[i:i + 2] == ': ' and rest[i - 1] != ':' :
            return rest[:i], rest[i + 2:]
    raise ValueError(rest)

def load(path):
    items = {}
    cur = None
    with open(path) as fh:
        for line in fh:
            line = line.rstrip('\n')
            if cur is None:
                if line.startswith('alloc'):
                    m = re.match(r'^(alloc\d+) \(static: (.*?)(?:, size: \d+, align: \d+)?\)(?: \{)?$', line)
                    if m:
                        it = Item('alloc', '@' + m.group(1), line); it.value_text = m.group(2); items[it.name] = it
                    continue
                if not line or line[0] in ' /}': continue
                if line.startswith('fn '):
                    rest = line[3:]
                    k = _name_end(rest); name = rest[:k]
                    it = Item('fn', name, line)
                    # params
                    j = k; d = 0
                    for j in range(k, len(rest)):
                        if rest[j] == '(': d += 1
                        elif rest[j] == ')':
                            d -= 1
                            if d == 0: break
                    ptxt = rest[k + 1:j]
                    for p in split_top(ptxt):
                        m = re.match(r'^(_\d+): (.*)$', p)
                        if m: it.params.append((m.group(1), m.group(2))); it.locals[m.group(1)] = m.group(2)
                    m = re.match(r'^ -> (.*) \{$', rest[j + 1:])
                    it.ret = m.group(1) if m else '()'
                    it.locals['_0'] = it.ret
                    cur = it
                    continue
                m = re.match(r'^(const |static (?:mut )?)?(.*) = (\{|const (.*);)$', line)
                if m:
                    kind = (m.group(1) or 'const ').split()[0]
                    name, ty = _const_split(m.group(2))
                    it = Item(kind, name, line); it.ret = ty; it.locals['_0'] = ty
                    if m.group(3) == '{': cur = it
                    else:
                        it.value_text = m.group(4); items[name] = it
                    continue
                continue
            if line == '}':
                items[cur.name] = cur; cur = None
            else:
                cur.lines.append(line)
    return items
