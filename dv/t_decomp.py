import sys, time
sys.path.insert(0,'/verif')
from dv import mirload, mirsym, models, poly
from dv.mirsym import *
t0=time.time()
items=mirload.load('/verif/.work/mir/min2.mir'); print(len(items),'items',time.time()-t0)
def m_from_bytes_checked(I, fr, fn, a):
    if I.ctx.decide(z3.Bool('canonical'), key='canonical'): return models.ok(poly.FE.sym('Fq','s'))
    return models.err(Enum('error::EncodingError','InvalidEncoding',[]))
M=models.base_models(extra_fns=[(r'from_bytes_checked$', m_from_bytes_checked)])
entry=[v for k,v in items.items() if k.endswith('::vartime_decompress')][0]
def mkargs(I,h):
    h.locals['enc']=Agg('Encoding',[[0]*31+[z3.BitVec('b31',8)]]); return [Ref(h,'enc',[])]
res=mirsym.run_paths(items,M,entry,mkargs)
for r in res:
    print(r['decisions'], r.get('result'), r.get('panic'), [str(p)[:70] for p in r['path']])
print(time.time()-t0)
