"""G-layer checks: the operator forms, sums, conversions and wiring of group code, interpreted over the FREE ABELIAN GROUP.

A point is a z3 Int term (P_i |-> integer unknowns, padd = +, pneg = unary minus, identity = 0, smul(P,k) = uninterpreted
or k*P for a concrete k).  An equation that holds in the free abelian group holds in every abelian group, in particular in
decaf377 (T: the group law is an abelian group law; ark-ec implements it for the inner twisted-Edwards points)."""
import re, time
import z3
from . import mirsym, models, poly, common
from .mirsym import Agg, Enum, Ref, SliceRef, Panic, Unsupported, run_paths, find_item, Frame, Item
from .poly import FE
from .common import Ob
from .models import D, UNIT, some, none, ok, err, IterObj, as_items

SMUL = z3.Function('smul', z3.IntSort(), z3.IntSort(), z3.IntSort())

class EP:
    """inner curve point (arkworks Projective / Affine) or a min_curve Element, as a term of the free abelian group.
    `valid`: derived only from validated sources (decode, constants, Elligator, group operations on valid points)"""
    __slots__ = ('t', 'kind', 'valid')
    def __init__(s, t, kind, valid=True): s.t, s.kind, s.valid = t, kind, valid
    def __repr__(s): return f'EP[{s.kind}]({s.t})'
    def __deepcopy__(s, memo): return s

def scalar_term(k):
    """integer term standing for a scalar value (Fr element)"""
    if isinstance(k, FE): return k.term
    if isinstance(k, LimbsOf): return k.k.term
    if isinstance(k, int): return z3.IntVal(k)
    raise Unsupported(f'scalar {k!r}')

def smul(p, k):
    kt = scalar_term(k)
    if z3.is_int_value(kt): return z3.simplify(kt * p)
    return SMUL(p, kt)

class LimbsOf:
    """`k.to_le_limbs()` / `k.into_bigint()` of a symbolic scalar k"""
    def __init__(s, k): s.k = k
    def __deepcopy__(s, memo): return s

# ---------------------------------------------------------------------------------------------- models
def _ep(I, v):
    v = D(I, v)
    if isinstance(v, EP): return v
    raise Unsupported(f'expected a curve point, got {v!r}')

def g_models(build):
    P = r'ark_ec::twisted_edwards::(Projective|Affine)<ark_curve::edwards::Decaf377EdwardsConfig>'
    def kind_of(fn):
        m = re.match(r'^<ark_ec::twisted_edwards::(Projective|Affine)<', fn); return 'proj' if m.group(1) == 'Projective' else 'aff'
    def m_add(I, fr, fn, a): return EP(_ep(I, a[0]).t + _ep(I, a[1]).t, 'proj', _ep(I, a[0]).valid and _ep(I, a[1]).valid)
    def m_sub(I, fr, fn, a): return EP(_ep(I, a[0]).t - _ep(I, a[1]).t, 'proj', _ep(I, a[0]).valid and _ep(I, a[1]).valid)
    def m_neg(I, fr, fn, a): return EP(-_ep(I, a[0]).t, kind_of(fn), _ep(I, a[0]).valid)
    def m_add_assign(I, fr, fn, a): I.store(a[0], EP(_ep(I, a[0]).t + _ep(I, a[1]).t, 'proj')); return UNIT
    def m_sub_assign(I, fr, fn, a): I.store(a[0], EP(_ep(I, a[0]).t - _ep(I, a[1]).t, 'proj')); return UNIT
    def m_mul_assign(I, fr, fn, a): I.store(a[0], EP(smul(_ep(I, a[0]).t, D(I, a[1])), 'proj', _ep(I, a[0]).valid)); return UNIT
    def m_mul(I, fr, fn, a): return EP(smul(_ep(I, a[0]).t, D(I, a[1])), 'proj', _ep(I, a[0]).valid)
    def m_into(I, fr, fn, a):
        m = re.match(r'^<ark_ec::twisted_edwards::(\w+)<.*> as core::convert::(?:Into|From)<ark_ec::twisted_edwards::(\w+)<.*>>>::(into|from)$', fn)
        dst = m.group(2) if m.group(3) == 'into' else m.group(1)
        return EP(_ep(I, a[0]).t, 'proj' if dst == 'Projective' else 'aff', _ep(I, a[0]).valid)
    def m_zero(I, fr, fn, a): return EP(z3.IntVal(0), kind_of(fn) if fn.startswith('<') else ('proj' if 'Projective' in fn else 'aff'))
    def m_double_in_place(I, fr, fn, a):
        p = _ep(I, a[0]); I.store(a[0], EP(p.t + p.t, 'proj')); return a[0]
    def m_mul_bigint(I, fr, fn, a): return EP(smul(_ep(I, a[0]).t, bigint_scalar(I, a[1])), 'proj', _ep(I, a[0]).valid)
    def m_min_add(I, fr, fn, a):
        x, y = D(I, a[0]), D(I, a[1])
        if not isinstance(x, EP): return NotImplemented
        return EP(x.t + y.t, 'min')
    def m_min_neg(I, fr, fn, a):
        x = D(I, a[0])
        return EP(-x.t, 'min') if isinstance(x, EP) else NotImplemented
    def m_min_double(I, fr, fn, a):
        x = D(I, a[0])
        return EP(x.t + x.t, 'min') if isinstance(x, EP) else NotImplemented
    def m_min_scalar_mul(I, fr, fn, a):
        x = D(I, a[0])
        if not isinstance(x, EP): return NotImplemented
        return EP(smul(x.t, bigint_scalar(I, a[1])), 'min')
    def m_to_le_limbs(I, fr, fn, a):
        k = D(I, a[0])
        if isinstance(k, FE) and not k.is_const(): return LimbsOf(k)
        return NotImplemented
    def m_into_bigint(I, fr, fn, a):
        k = D(I, a[0])
        if isinstance(k, FE) and not k.is_const(): return Agg('ark_ff::BigInt', [LimbsOf(k)])
        return NotImplemented
    def m_is_identity(I, fr, fn, a):
        try: t = point_term(build, D(I, a[0]))
        except Unsupported: return NotImplemented
        return I.ctx.decide(t == 0)
    def m_el_eq(I, fr, fn, a):
        try: x, y = point_term(build, D(I, D(I, a[0]))), point_term(build, D(I, D(I, a[1])))
        except Unsupported: return NotImplemented
        return I.ctx.decide(x == y)
    fns = [
        (r'(Element|AffinePoint)>?::is_identity$', m_is_identity),
        (r'^<(ark_curve::element::projective::Element|min_curve::element::Element) as ark_ff::Zero>::is_zero$', m_is_identity),
        (r'^<ark_curve::element::affine::AffinePoint as ark_ec::AffineRepr>::is_zero$', m_is_identity),
        (r'^<&?(ark_curve::element::projective::Element|ark_curve::element::affine::AffinePoint|min_curve::element::Element) as core::cmp::PartialEq>::eq$', m_el_eq),
        (rf'^<{P} as core::ops::Add(<.*>)?>::add$', m_add), (rf'^<{P} as core::ops::Sub(<.*>)?>::sub$', m_sub),
        (rf'^<{P} as core::ops::Neg>::neg$', m_neg),
        (rf'^<{P} as core::ops::AddAssign(<.*>)?>::add_assign$', m_add_assign), (rf'^<{P} as core::ops::SubAssign(<.*>)?>::sub_assign$', m_sub_assign),
        (rf'^<{P} as core::ops::MulAssign<.*>>::mul_assign$', m_mul_assign), (rf'^<{P} as core::ops::Mul<.*>>::mul$', m_mul),
        (rf'^<{P} as core::convert::(Into|From)<ark_ec::twisted_edwards::\w+<.*>>>::(into|from)$', m_into),
        (rf'^<{P} as ark_ff::Zero>::zero$', m_zero), (r'^ark_ec::twisted_edwards::(Affine|Projective)::<.*>::zero$', m_zero),
        (rf'^<{P} as ark_ec::AffineRepr>::zero$', m_zero),
        (rf'^<{P} as ark_ec::Group>::double_in_place$', m_double_in_place),
        (rf'^<{P} as ark_ec::(Group|AffineRepr)>::mul_bigint::', m_mul_bigint),
        (r'^<min_curve::element::Element as core::ops::Add>::add$', m_min_add),
        (r'^<min_curve::element::Element as core::ops::Neg>::neg$', m_min_neg),
        (r'^min_curve::element::Element::double$', m_min_double),
        (r'^min_curve::element::Element::scalar_mul(_vartime)?$', m_min_scalar_mul),
        (r'^fields::fr::u(32|64)::wrapper::Fr::to_le_limbs$', m_to_le_limbs),
        (r'^<fields::fr::u64::wrapper::Fr as ark_ff::PrimeField>::into_bigint$', m_into_bigint),
    ]
    return models.base_models(extra_fns=fns)

def bigint_scalar(I, v):
    v = D(I, v)
    if isinstance(v, LimbsOf): return v
    if isinstance(v, Agg) and v.fields and isinstance(v.fields[0], LimbsOf): return v.fields[0]
    if isinstance(v, list) and all(isinstance(x, int) for x in v): return sum(x << (64 * i) for i, x in enumerate(v))
    if isinstance(v, Agg) and v.fields and isinstance(v.fields[0], list) and all(isinstance(x, int) for x in v.fields[0]): return sum(x << (64 * i) for i, x in enumerate(v.fields[0]))
    raise Unsupported(f'scalar limbs {v!r}')

# ---------------------------------------------------------------------------------------------- operator-form sweep
ELEM_TY = {'ark': 'ark_curve::element::projective::Element', 'min': 'min_curve::element::Element'}
AFF_TY = 'ark_curve::element::affine::AffinePoint'

def mk_value(build, ty, name, h):
    """symbolic argument of declared type `ty`; returns (value_to_pass, point_term or scalar FE, holder local name)"""
    base = mirsym.strip_lt(ty).replace('&mut ', '').lstrip('&').strip()
    if base == ELEM_TY[build]:
        t = z3.Int(name)
        v = Agg(base, [EP(t, 'proj')]) if build == 'ark' else EP(t, 'min')
        sem = t
    elif base == AFF_TY:
        t = z3.Int(name); v = Agg(base, [EP(t, 'aff')]); sem = t
    elif re.fullmatch(r'fields::fr::u(32|64)::wrapper::Fr', base):
        v = FE.sym('Fr', name); sem = v
    else: raise Unsupported('argument type ' + ty)
    if ty.strip().startswith('&'):
        h.locals[name] = v
        return Ref(h, name, []), sem
    return v, sem

def point_term(build, v):
    if isinstance(v, EP): return v.t
    if isinstance(v, Agg) and len(v.fields) == 1 and isinstance(v.fields[0], EP): return v.fields[0].t
    raise Unsupported(f'not a point: {v!r}')

def decide_int_eq(a, b, timeout_ms=20000, path=()):
    s = z3.Solver(); s.set('timeout', timeout_ms)
    for c in path: s.add(c)
    s.add(a != b)
    t0 = time.time(); r = s.check(); dt = time.time() - t0
    if r == z3.unsat: return 'unsat', None, dt, s.to_smt2()
    if r == z3.sat:
        if not path and _equal_mod_group_order(a, b): return 'unsat', None, time.time() - t0, s.to_smt2()
        m = s.model(); return 'sat', {str(d): str(m[d]) for d in m.decls() if d.arity() == 0}, dt, s.to_smt2()
    return 'unknown', None, dt, s.to_smt2()

def _equal_mod_group_order(a, b):
    """a - b is a linear form in the point symbols all of whose coefficients are multiples of the group order r (points are elements of
    the prime-order group: k P = k' P whenever k = k' mod r; `[r]B = O` is an obligation of C05/C17)"""
    from .poly import FIELDS
    R_ = FIELDS['Fr']
    d = z3.simplify(a - b)
    vars_ = set()
    def walk(e):
        if z3.is_const(e) and e.decl().kind() == z3.Z3_OP_UNINTERPRETED: vars_.add(e); return True
        if z3.is_app(e) and e.decl().kind() == z3.Z3_OP_UNINTERPRETED and e.num_args() > 0: return False
        return all(walk(c) for c in e.children())
    if not walk(d) or not vars_ or any(not z3.is_int(v) for v in vars_): return False
    vs = sorted(vars_, key=str)
    zero = [(v, z3.IntVal(0)) for v in vs]
    base = z3.simplify(z3.substitute(d, *zero))
    if not z3.is_int_value(base) or base.as_long() % R_: return False
    lin = base
    for v in vs:
        c = z3.simplify(z3.substitute(d, *[(w, z3.IntVal(1 if w.eq(v) else 0)) for w in vs]) - base)
        if not z3.is_int_value(c) or c.as_long() % R_: return False
        lin = lin + c * v
    s = z3.Solver(); s.set('timeout', 10000); s.add(d != lin)
    return s.check() == z3.unsat

OPS = {'Add': ('add', lambda l, r: l + r), 'Sub': ('sub', lambda l, r: l - r),
       'AddAssign': ('add_assign', lambda l, r: l + r), 'SubAssign': ('sub_assign', lambda l, r: l - r)}

def sweep_operator_forms(build, files):
    """every impl of Add/Sub/Neg/Mul/*Assign found in `files`: result == group-law meaning of its operands (left and right kept apart)"""
    from .curve import items_for
    items = items_for(build); M = g_models(build)
    obs = []
    todo = []
    for k, it in items.items():
        if it.kind != 'fn' or not it.impl_at or it.impl_at[0] not in files: continue
        tr, targs, selfty = mirsym.Interp._hdr_parse(it.impl_header())
        if tr in ('Add', 'Sub', 'Neg', 'Mul', 'AddAssign', 'SubAssign', 'MulAssign'): todo.append((it, tr))
    for it, tr in sorted(todo, key=lambda x: x[0].impl_at):
        name = f'{build}:{it.impl_at[0]}:{it.impl_at[1]} `{it.impl_header()}`'
        def body(I, h, it=it, tr=tr):
            args = []; sems = []
            for i, (loc, ty) in enumerate(it.params):
                v, sem = mk_value(build, ty, ['L', 'R'][i] if len(it.params) == 2 else 'L', h)
                args.append(v); sems.append(sem)
            res = I.call_item(it, args)
            if tr.endswith('Assign'): res = I.deref(args[0])
            return res, sems
        try:
            recs = run_paths(items, M, body)
        except Exception as e:
            obs.append(Ob(name, 'inconclusive', f'{type(e).__name__}: {e} :: ' + ' <- '.join(getattr(e, 'mir_stack', [])[:3]), 0, 'mirsym/G')); continue
        for r in recs:
            if 'panic' in r: obs.append(Ob(name, 'violated', 'panics: ' + r['panic'], 0, 'mirsym/G', None, {'kind': 'panic'})); continue
            res, sems = r['result']
            got = point_term(build, res)
            if tr in ('Add', 'AddAssign'): want = sems[0] + sems[1]
            elif tr in ('Sub', 'SubAssign'): want = sems[0] - sems[1]
            elif tr == 'Neg': want = -sems[0]
            else:
                pt = [x for x in sems if not isinstance(x, FE)]; sc = [x for x in sems if isinstance(x, FE)]
                want = smul(pt[0], sc[0])
            ans, model, dt, smt = decide_int_eq(got, want, path=r['path'])
            samp = {'got': str(got), 'want': str(want), 'smt2_head': smt[:300]}
            if ans == 'unsat': obs.append(Ob(name, 'proved', f'result = {want}', dt, 'z3 LIA+EUF (free abelian group)', samp))
            elif ans == 'sat': obs.append(Ob(name, 'violated', f'result is {got}, the group law gives {want}', dt, 'z3 LIA+EUF (free abelian group)', samp, {'kind': 'opform', 'where': f'{it.impl_at[0]}:{it.impl_at[1]}', 'header': it.impl_header(), 'z3_model': model}))
            else: obs.append(Ob(name, 'inconclusive', 'z3 unknown', dt, 'z3'))
    if len(todo) < 5: obs.append(Ob(f'{build}: operator forms found in {files}', 'inconclusive', f'only {len(todo)} forms found (vacuity guard)', 0, 'mirsym/G'))
    return obs

# ---------------------------------------------------------------------------------------------- sums, negate, double, identity
def check_sums_and_named(build):
    from .curve import items_for
    items = items_for(build); M = g_models(build)
    obs = []
    def run1(name, body, want_fn, fallback=None):
        try: recs = run_paths(items, M, body)
        except Exception as e:
            if fallback is not None:
                # the code touches coordinates itself (the free-group domain cannot follow it): decided at coordinate level instead
                obs.extend(fallback()); return
            obs.append(Ob(name, 'inconclusive', f'{type(e).__name__}: {e} :: ' + ' <- '.join(getattr(e, 'mir_stack', [])[:3]), 0, 'mirsym/G')); return
        for r in recs:
            if 'panic' in r: obs.append(Ob(name, 'violated', 'panics: ' + r['panic'], 0, 'mirsym/G', None, {'kind': 'panic'})); continue
            got = point_term(build, r['result']); want = want_fn()
            ans, model, dt, smt = decide_int_eq(got, want, path=r['path'])
            samp = {'got': str(got), 'want': str(want)}
            if ans == 'unsat': obs.append(Ob(name, 'proved', f'result = {want}', dt, 'z3 LIA+EUF (free abelian group)', samp))
            elif ans == 'sat': obs.append(Ob(name, 'violated', f'result is {got}, expected {want}', dt, 'z3 LIA+EUF (free abelian group)', samp, {'kind': 'named', 'z3_model': model}))
            else: obs.append(Ob(name, 'inconclusive', 'z3 unknown', dt, 'z3'))
    if build == 'ark':
        sums = [it for k, it in items.items() if it.kind == 'fn' and k.endswith('::sum') and it.impl_at and it.impl_at[0] in ('src/ark_curve/element/projective.rs', 'src/ark_curve/element/affine.rs')]
        for it in sorted(sums, key=lambda x: x.impl_at):
            hdr = it.impl_header()
            m = re.search(r'Sum<(.*?)> for', hdr)
            item_ty = m.group(1).replace("'a ", '').strip()
            for n in range(0, 4 if common.tier() == 'quick' else 6):
                def body(I, h, it=it, n=n, item_ty=item_ty):
                    elems = []
                    for i in range(n):
                        base = {'Self': ELEM_TY['ark'], 'Element': ELEM_TY['ark'], 'AffinePoint': AFF_TY}[item_ty.lstrip('&')]
                        v, sem = mk_value('ark', ('&' if item_ty.startswith('&') else '') + base, f'P{i}', h)
                        elems.append(v)
                    return I.call_item(it, [IterObj(elems)])
                run1(f'ark:{it.impl_at[0]}:{it.impl_at[1]} `{hdr}` over {n} summands', body, lambda n=n: z3.Sum([z3.Int(f'P{i}') for i in range(n)]) if n else z3.IntVal(0))
        if len(sums) != 4: obs.append(Ob('ark: Sum impls found', 'inconclusive', f'{len(sums)} Sum impls found, expected 4', 0, 'mirsym/G'))
        # named methods
        def one(pattern, want_fn, mkargs, fallback=None):
            try: it = find_item(items, pattern)
            except Unsupported as e:
                obs.append(Ob('ark:' + pattern, 'inconclusive', str(e), 0, 'mirsym/G')); return
            run1(f'ark:{it.name.split("::<impl")[0]}::{it.name.split("::")[-1]} ({it.impl_header()})', lambda I, h: post(I, it, mkargs(I, h)), want_fn, fallback)
        def post(I, it, args):
            r = I.call_item(it, args)
            if isinstance(r, Ref): r = I.deref(r)
            return r
        def el(I, h, nm='L', ref=True):
            v, _ = mk_value('ark', ('&' if ref else '') + ELEM_TY['ark'], nm, h); return v
        def negate_poly():
            from . import curve
            return curve.check_negate_poly()
        one(r'^ark_curve::encoding::<impl at [^>]*>::negate$', lambda: -z3.Int('L'), lambda I, h: [el(I, h)], negate_poly)
        one(r'^ark_curve::element::<impl at [^>]*>::double_in_place$', lambda: z3.Int('L') + z3.Int('L'), lambda I, h: [el(I, h)])
        one(r'^ark_curve::element::projective::<impl at [^>]*>::zero$', lambda: z3.IntVal(0), lambda I, h: [])
        one(r'^ark_curve::element::projective::<impl at [^>]*>::default$', lambda: z3.IntVal(0), lambda I, h: [])
        one(r'^ark_curve::element::affine::<impl at [^>]*>::default$', lambda: z3.IntVal(0), lambda I, h: [])
        one(r'^ark_curve::element::<impl at src/ark_curve/element.rs:\d+:1: \d+:\d+>::zero$', lambda: z3.IntVal(0), lambda I, h: [])
        one(r'^ark_curve::element::<impl at [^>]*>::into_affine$', lambda: z3.Int('L'), lambda I, h: [el(I, h, ref=False)])
        one(r'^ark_curve::element::<impl at [^>]*>::clear_cofactor$', lambda: z3.Int('L'), lambda I, h: [mk_value('ark', '&' + AFF_TY, 'L', h)[0]])
        one(r'^ark_curve::element::<impl at [^>]*>::mul_by_cofactor_to_group$', lambda: z3.Int('L'), lambda I, h: [mk_value('ark', '&' + AFF_TY, 'L', h)[0]])
        for pat in (r'^ark_curve::element::<impl at src/ark_curve/element.rs:\d+:1: \d+:\d+>::from$',):
            for it in [v for k, v in items.items() if re.search(pat, k)]:
                run1(f'ark:conversion `{it.impl_header()}`', lambda I, h, it=it: I.call_item(it, [mk_value('ark', it.params[0][1], 'L', h)[0]]), lambda: z3.Int('L'))
    return obs

# ---------------------------------------------------------------------------------------------- min_curve: hand-written group law (POLY)
def check_min_group_law():
    """min_curve Add / double / Neg against the affine twisted-Edwards law (a=-1, d=3021), as ideal-membership certificates
    modulo the representation invariant T*Z = X*Y (and the curve equation for doubling)."""
    from . import curve, spec
    from .curve import items_for, certificate, curve_models
    items = items_for('min'); M = curve_models('min')
    obs = []
    c = spec.c
    def pt(s): return [FE.sym('Fq', s + n) for n in ('X', 'Y', 'Z', 'T')]
    def el(co): return Agg('min_curve::element::Element', list(co))
    def inv_hyps(co):
        X, Y, Z, T = co
        return [T.mul(Z).sub(X.mul(Y))]
    def curve_hyp(co):
        X, Y, Z, T = co
        return Y.square().sub(X.square()).sub(Z.square()).sub(c(spec.Dd).mul(T.square()))
    add_it = find_item(items, r'^min_curve::element::<impl at [^>]*>::add$')
    neg_it = find_item(items, r'^min_curve::element::<impl at [^>]*>::neg$')
    dbl_it = find_item(items, r'^min_curve::element::<impl at [^>]*>::double$')
    def run_simple(it, args):
        recs = run_paths(items, M, lambda I, h: I.call_item(it, args))
        if len(recs) != 1 or 'result' not in recs[0]: raise Unsupported(f'{it.name}: expected one straight-line path, got {len(recs)} ({recs[0].get("panic")})')
        return recs[0]['result'].fields
    def law_obligations(tag, res, P, Qp, hyps):
        X3, Y3, Z3, T3 = res
        Xn, Xd, Yn, Yd = spec.edwards_add(P, Qp)
        goals = [('x3 = (x1 y2 + y1 x2)/(1 + d x1 x2 y1 y2)', X3.mul(Xd).sub(Xn.mul(Z3))),
                 ('y3 = (y1 y2 + x1 x2)/(1 - d x1 x2 y1 y2)', Y3.mul(Yd).sub(Yn.mul(Z3))),
                 ('T3 Z3 = X3 Y3', T3.mul(Z3).sub(X3.mul(Y3)))]
        for lbl, g in goals:
            st, dt, info = certificate(g, hyps)
            obs.append(Ob(f'min:{tag}: {lbl}', 'proved' if st == 'proved' else ('violated' if st == 'inconclusive' and not g.is_zero_poly() and tag_is_identity_goal(g, hyps) else st), info, dt, 'cofactor certificate + z3 identity',
                          {'goal_terms': len(g.d), 'relations': len(hyps)}, {'kind': 'law', 'form': tag} ))
    def tag_is_identity_goal(g, hyps): return False
    P, Qp = pt('p'), pt('q')
    try:
        res = run_simple(add_it, [el(P), el(Qp)])
        law_obligations('Add', res, P, Qp, inv_hyps(P) + inv_hyps(Qp))
        res = run_simple(dbl_it, [el(P)])
        law_obligations('double', res, P, P, inv_hyps(P) + [curve_hyp(P)])
        res = run_simple(neg_it, [el(P)])
        for lbl, a, b in (('X', res[0], P[0].neg()), ('Y', res[1], P[1]), ('Z', res[2], P[2]), ('T', res[3], P[3].neg())):
            obs.append(curve.compare_fe(f'min:Neg: {lbl} coordinate of -(X,Y,Z,T) is that of (-X,Y,Z,-T)', a, b, {}))
        # identity is neutral and P - P is the identity, under the crate's own equality X1*Y2 == Y1*X2
        ident = [c(0), c(1), c(1), c(0)]
        res = run_simple(add_it, [el(P), el(ident)])
        g = res[0].mul(P[1]).sub(P[0].mul(res[1]))
        st, dt, info = certificate(g, inv_hyps(P)); obs.append(Ob('min:P + IDENTITY == P (crate equality)', st if st == 'proved' else 'violated', info, dt, 'cofactor certificate + z3 identity', None, {'kind': 'law', 'form': 'neutral'}))
        # completeness (necessary condition): the formula must not degenerate where dedicated (non-unified) addition formulas do -
        # on the diagonal Q = P, on Q = -P, and on the other coset representative Q = P + (0,-1) = (-X, -Y, Z, T).  A unified
        # formula has Z3 = (Z1^2 Z2^2)^2 - (d X1X2Y1Y2)^2 != 0 there; a dedicated one gives Z3 = 0 identically on the curve.
        for tag, Q2 in (('Q = P', P), ('Q = -P', [P[0].neg(), P[1], P[2], P[3].neg()]), ('Q = P + T2', [P[0].neg(), P[1].neg(), P[2], P[3]])):
            res = run_simple(add_it, [el(P), el(Q2)])
            st, dt, info = certificate(res[2], inv_hyps(P) + [curve_hyp(P)])
            degenerate = st == 'proved' or res[2].is_zero_poly()
            obs.append(Ob(f'min:Add does not degenerate on {tag} (Z3 is not identically zero on the curve)', 'violated' if degenerate else 'proved', 'Z3 lies in the ideal of the curve: the sum of a point and this partner is (0:0:0:0) for every P' if degenerate else 'Z3 is not in the ideal of the curve relations',
                          dt, 'cofactor certificate search (Buchberger), z3-checked when found', None, {'kind': 'law', 'form': 'Add-degenerate'} if degenerate else None))
        negP = [P[0].neg(), P[1], P[2], P[3].neg()]
        res = run_simple(add_it, [el(P), el(negP)])
        st, dt, info = certificate(res[0], inv_hyps(P)); obs.append(Ob('min:P + (-P) has X = 0 (is the identity)', st if st == 'proved' else 'violated', info, dt, 'cofactor certificate + z3 identity', None, {'kind': 'law', 'form': 'inverse'}))
    except Unsupported as e:
        obs.append(Ob('min: group law harness', 'inconclusive', str(e) + ' :: ' + ' <- '.join(getattr(e, 'mir_stack', [])[:3]), 0, 'mirsym/POLY'))
    for o in obs:
        if o.status == 'inconclusive' and 'no cofactor certificate' in o.detail:
            o.status = 'violated'; o.detail = 'not a consequence of the representation invariant (no certificate; canonical goal nonzero): ' + o.detail
    return obs

# ---------------------------------------------------------------------------------------------- ladders over the free cyclic group
class LP:
    """multiple of a fixed point P in the free cyclic group Z:  (const + sum coeff[a] * [atom a] + extra) * P; atoms are z3 Bool
    conditions, `extra` is an arbitrary z3 Int term used only when a merge is not expressible linearly"""
    __slots__ = ('c', 'd', 'atoms', 'extra')
    def __init__(s, c=0, d=None, atoms=None, extra=None): s.c = c; s.d = d or {}; s.atoms = atoms or {}; s.extra = extra
    def __deepcopy__(s, memo): return s
    def add(s, o):
        d = dict(s.d)
        for k, v in o.d.items():
            d[k] = d.get(k, 0) + v
            if d[k] == 0: del d[k]
        at = dict(s.atoms); at.update(o.atoms)
        ex = s.extra if o.extra is None else (o.extra if s.extra is None else s.extra + o.extra)
        return LP(s.c + o.c, d, at, ex)
    def neg(s): return LP(-s.c, {k: -v for k, v in s.d.items()}, s.atoms, None if s.extra is None else -s.extra)
    def term(s):
        t = z3.IntVal(s.c)
        if s.d: t = t + z3.Sum([z3.If(s.atoms[k], z3.IntVal(v), z3.IntVal(0)) for k, v in s.d.items()])
        if s.extra is not None: t = t + s.extra
        return t
    def mir_merge(s, cond, a, b):
        """If(cond, a, b) = b + [cond] * (a - b): linear when a - b does not depend on scalar bits, otherwise a z3 If term"""
        if not isinstance(a, LP) or not isinstance(b, LP): raise Unsupported('merge LP with non-LP')
        diff = a.add(b.neg())
        if diff.d or diff.extra is not None:
            return LP(0, {}, {}, z3.If(cond, a.term(), b.term()))
        if diff.c == 0: return b
        key = z3.simplify(cond).sexpr()
        r = LP(b.c, dict(b.d), dict(b.atoms), b.extra)
        r.d[key] = r.d.get(key, 0) + diff.c
        if r.d[key] == 0: del r.d[key]
        r.atoms[key] = z3.simplify(cond)
        return r
    def __repr__(s): return f'LP({s.c} + {len(s.d)} bit terms{" + extra" if s.extra is not None else ""})'

def check_min_ladders(max_limbs=None, only=None):
    """scalar_mul_both::<true> and ::<false> on slices of 1..=N symbolic limbs: the result is (sum limb_i 2^(64 i)) * P"""
    from .curve import items_for
    items = items_for('min'); obs = []
    N = max_limbs or (3 if common.tier() == 'quick' else 5)
    it = find_item(items, r'^min_curve::element::<impl at [^>]*>::scalar_mul_both$')
    def m_add(I, fr, fn, a):
        x, y = D(I, a[0]), D(I, a[1])
        return x.add(y) if isinstance(x, LP) else NotImplemented
    def m_double(I, fr, fn, a):
        x = D(I, a[0]); return x.add(x) if isinstance(x, LP) else NotImplemented
    def m_select(I, fr, fn, a):
        x, y, c = D(I, a[0]), D(I, a[1]), models.choice_bool(a[2])
        if not isinstance(x, LP): return NotImplemented
        if isinstance(c, bool): return y if c else x
        return x.mir_merge(c, y, x)
    M = models.base_models(extra_fns=[(r'^<min_curve::element::Element as core::ops::Add>::add$', m_add), (r'^min_curve::element::Element::double$', m_double),
                                      (r'^<min_curve::element::Element as subtle::ConditionallySelectable>::conditional_select$', m_select)],
                           extra_consts=[(r'^min_curve::element::Element::IDENTITY$', lambda I, fr, path: LP(0))])
    for CT in (True, False):
        for n in range(1, N + 1):
            if only is not None and (CT, n) != only: continue
            name = f'min:scalar_mul_both::<{str(CT).lower()}> on {n} limb(s): result = (sum limb_i * 2^(64 i)) * P'
            limbs = [z3.BitVec(f'limb{i}', 64) for i in range(n)]
            def body(I, h, n=n, limbs=limbs):
                h.locals['bits'] = list(limbs)
                return I.call_item(it, [LP(1), SliceRef(Ref(h, 'bits', []), 0, n)], generics={'CT': CT})
            t0 = time.time()
            try: recs = run_paths(items, M, body, merge_fns={it.name})
            except Exception as e:
                obs.append(Ob(name, 'inconclusive', f'{type(e).__name__}: {e} :: ' + ' <- '.join(getattr(e, 'mir_stack', [])[:3]), 0, 'mirsym/LIN')); continue
            if len(recs) != 1 or 'result' not in recs[0]:
                obs.append(Ob(name, 'violated' if 'panic' in recs[0] else 'inconclusive', f'{len(recs)} paths; ' + str(recs[0].get('panic')), 0, 'mirsym/LIN', None, {'kind': 'ladder', 'ct': CT, 'limbs': n})); continue
            res = recs[0]['result']
            # decide:  for all limb values,  res.c + sum coeff_a*[a]  ==  sum_{j,i} 2^(64j+i) * [bit i of limb j]
            sv = z3.Solver(); sv.set('timeout', 60000 if common.tier() == 'quick' else 900000)
            # canonicalise each branch condition to "bit i of limb j is 1" (equivalence decided by z3 on the 64-bit vector)
            terms = []; const = res.c; nq = 0
            for k, v in res.d.items():
                cnd = res.atoms[k]
                m = re.search(r'\(\(_ extract (\d+) (\d+)\) limb(\d+)\)', k)
                canon = None
                if m and m.group(1) == m.group(2):
                    bit = z3.Extract(int(m.group(1)), int(m.group(1)), limbs[int(m.group(3))]) == 1
                    q = z3.Solver(); q.add(cnd != bit); nq += 1
                    if q.check() == z3.unsat: canon = (bit, v, 0)
                    else:
                        q = z3.Solver(); q.add(cnd != z3.Not(bit)); nq += 1
                        if q.check() == z3.unsat: canon = (bit, -v, v)
                if canon is None: terms.append(z3.If(cnd, z3.IntVal(v), z3.IntVal(0)))
                else:
                    terms.append(z3.If(canon[0], z3.IntVal(canon[1]), z3.IntVal(0))); const += canon[2]
            lhs = z3.IntVal(const) + (z3.Sum(terms) if terms else z3.IntVal(0))
            if res.extra is not None: lhs = lhs + res.extra
            rhs = z3.Sum([z3.If(z3.Extract(i, i, limbs[j]) == 1, z3.IntVal(1 << (64 * j + i)), z3.IntVal(0)) for j in range(n) for i in range(64)])
            sv.add(lhs != rhs)
            r = sv.check(); dt = time.time() - t0
            samp = {'bit_terms': len(res.d), 'const': res.c, 'example_terms': [f'{v} * [{k[:60]}]' for k, v in list(res.d.items())[:3]]}
            if r == z3.unsat: obs.append(Ob(name, 'proved', f'{len(res.d)} bit terms with weights 2^(64j+i)', dt, 'mirsym branch-merging + z3 LIA/BV', samp))
            elif r == z3.sat:
                m = sv.model(); vals = [m.eval(l, model_completion=True).as_long() for l in limbs]
                obs.append(Ob(name, 'violated', f'ladder result differs from k*P for limbs {vals}', dt, 'mirsym branch-merging + z3 LIA/BV', samp, {'kind': 'ladder', 'ct': CT, 'limbs': vals}))
            else: obs.append(Ob(name, 'inconclusive', 'z3 unknown', dt, 'z3'))
    return obs

def check_scalar_mul_wiring(build):
    """scalar-multiplication entry points that are not operator impls: the two public ladder wrappers of the minimal build;
    mul_bigint (Group / AffineRepr) and vartime_multiscalar_mul of the arkworks build"""
    from .curve import items_for
    items = items_for(build); obs = []
    if build == 'min':
        rec = {}
        def m_both(I, fr, fn, a):
            rec['fn'] = fn; rec['args'] = a
            return EP(z3.Int('RES'), 'min')
        M = models.base_models(extra_fns=[(r'::scalar_mul_both::<(true|false)>$', m_both)])
        for nm, ct in (('scalar_mul', 'true'), ('scalar_mul_vartime', 'false')):
            it = find_item(items, rf'^min_curve::element::<impl at [^>]*>::{nm}$')
            name = f'min:Element::{nm} = scalar_mul_both::<{ct}>(self, le_bits)'
            def body(I, h, it=it):
                h.locals['bits'] = [z3.BitVec('l0', 64), z3.BitVec('l1', 64)]
                sl = SliceRef(Ref(h, 'bits', []), 0, 2); p = EP(z3.Int('P'), 'min')
                r = I.call_item(it, [p, sl])
                return r, p, sl
            try:
                recs = run_paths(items, M, body)
                r, p, sl = recs[0]['result']
                good = rec.get('fn', '').endswith(f'::<{ct}>') and rec['args'][0] is p and isinstance(rec['args'][1], SliceRef) and rec['args'][1].start == 0 and rec['args'][1].len == 2 and isinstance(r, EP) and str(r.t) == 'RES'
                obs.append(Ob(name, 'proved' if good else 'violated', f"calls {rec.get('fn')}", 0, 'mirsym/EUF', None, None if good else {'kind': 'ladder-wrapper', 'fn': nm}))
            except Exception as e:
                obs.append(Ob(name, 'inconclusive', f'{type(e).__name__}: {e}', 0, 'mirsym/EUF'))
        return obs
    M = g_models(build)
    def run1(name, body, want_fn, extra_path=None):
        try: recs = run_paths(items, M, body)
        except Exception as e:
            obs.append(Ob(name, 'inconclusive', f'{type(e).__name__}: {e} :: ' + ' <- '.join(getattr(e, 'mir_stack', [])[:3]), 0, 'mirsym/G')); return
        for r in recs:
            if 'panic' in r: obs.append(Ob(name, 'violated', 'panics: ' + r['panic'], 0, 'mirsym/G', None, {'kind': 'panic'})); continue
            got = point_term(build, r['result']); want = want_fn()
            ans, model, dt, smt = decide_int_eq(got, want, path=r['path'])
            samp = {'got': str(got), 'want': str(want)}
            if ans == 'unsat': obs.append(Ob(name, 'proved', f'result = {want}', dt, 'z3 LIA+EUF (free abelian group)', samp))
            elif ans == 'sat': obs.append(Ob(name, 'violated', f'result is {got}, expected {want}', dt, 'z3 LIA+EUF (free abelian group)', samp, {'kind': 'smul-wiring', 'z3_model': model}))
            else: obs.append(Ob(name, 'inconclusive', 'z3 unknown', dt, 'z3'))
    # mul_bigint with integers of 1..=6 limbs (longer than the modulus): the whole integer reaches the inner scalar multiplication
    for pat, ty in ((r'^ark_curve::element::<impl at src/ark_curve/element.rs:\d+:1: \d+:\d+>::mul_bigint$', None),):
        for it in [v for k, v in items.items() if re.search(pat, k)]:
            pty = it.params[0][1]
            for n in (1, 4, 5, 6):
                limbs = [(0x1111111111111111 * (i + 1)) & (2 ** 64 - 1) for i in range(n)]
                kval = sum(x << (64 * i) for i, x in enumerate(limbs))
                def body(I, h, it=it, limbs=limbs, pty=pty):
                    a0 = mk_value('ark', pty, 'L', h)[0]
                    h.locals['lim'] = list(limbs)
                    return I.call_item(it, [a0, SliceRef(Ref(h, 'lim', []), 0, len(limbs))])
                run1(f'ark:`{it.impl_header()}`::mul_bigint with a {n}-limb integer', body, lambda kval=kval: z3.IntVal(kval) * z3.Int('L'))
    # vartime_multiscalar_mul over 0..=3 pairs, and unequal lengths (stops at the shorter)
    it = find_item(items, r'^ark_curve::element::projective::<impl at [^>]*>::vartime_multiscalar_mul$')
    for ns, npnt in ((0, 0), (1, 1), (2, 2), (3, 3), (3, 2), (2, 3)) + (((5, 5),) if common.tier() == 'thorough' else ()):
        def body(I, h, ns=ns, npnt=npnt):
            ks = []; ps = []
            for i in range(ns): h.locals[f'k{i}'] = FE.sym('Fr', f'k{i}'); ks.append(Ref(h, f'k{i}', []))
            for i in range(npnt): v, _ = mk_value('ark', '&' + ELEM_TY['ark'], f'P{i}', h); ps.append(v)
            return I.call_item(it, [IterObj(ks), IterObj(ps)])
        n = min(ns, npnt)
        run1(f'ark:vartime_multiscalar_mul with {ns} scalars and {npnt} points = sum of the first {n} products', body,
             lambda n=n: z3.Sum([SMUL(z3.Int(f'P{i}'), z3.Int(f'k{i}')) for i in range(n)]) if n else z3.IntVal(0))
    return obs


# ---------------------------------------------------------------------------------------------- C06: constructors hand out valid elements only
def check_constructors():
    """every public constructor of the arkworks build returns a point derived only from validated sources
    (decode output, the constants, Elligator, group operations / conversions of valid points) - never a raw curve point"""
    from .curve import items_for
    from . import wiring
    items = items_for('ark'); obs = []
    M = wiring.w_models('ark')
    fresh = [0]
    def raw_point(kind):
        fresh[0] += 1
        return EP(z3.Int(f'raw{fresh[0]}'), kind, valid=False)
    def m_ark_from_random_bytes(I, fr, fn, a):
        if I.ctx.decide(z3.Bool(I.ctx.fresh('ark_accepts'))): return some(raw_point('aff'))
        return none()
    def m_ark_rand(I, fr, fn, a): return raw_point('proj')
    def m_inner_serialize(I, fr, fn, a):
        n = I.ctx.__dict__.setdefault('nser', 0) + 1; I.ctx.nser = n
        tgt = a[1]; arr = I.deref(tgt.base)
        for i in range(32): arr[tgt.start + i] = z3.BitVec(f'ser{n}_{i}', 8)
        return ok(UNIT)
    def m_batch(I, fr, fn, a):
        sl = a[0]; xs = I.deref(sl)
        return Agg('alloc::vec::Vec', [[EP(x.t, 'aff', x.valid) for x in xs]])
    def m_vec_index_full(I, fr, fn, a):
        v = I.deref(a[0]); return SliceRef(Ref(a[0].frame, a[0].local, list(a[0].path) + [0]), 0, len(v.fields[0]))
    P = r'ark_ec::twisted_edwards::(Projective|Affine)<ark_curve::edwards::Decaf377EdwardsConfig>'
    M['fns'] = [(rf'^<{P} as ark_ec::AffineRepr>::from_random_bytes$', m_ark_from_random_bytes), (rf'^<{P} as ark_ff::UniformRand>::rand::<.*>$', m_ark_rand),
                (rf'^<{P} as ark_serialize::CanonicalSerialize>::serialize_compressed::', m_inner_serialize),
                (rf'^<{P} as ark_ec::CurveGroup>::normalize_batch$', m_batch), (rf'^<{P} as ark_ec::ScalarMul>::batch_convert_to_mul_base$', m_batch),
                (r'^<(alloc|ark_ff|ark_std|std)::vec::Vec<.*> as core::ops::Index<core::ops::RangeFull>>::index$', m_vec_index_full)] + M['fns']
    M['consts'] = [(r'^ark_curve::element::projective::Element::GENERATOR$', lambda I, fr, path: Agg(ELEM_TY['ark'], [EP(z3.Int('B'), 'proj')])),
                   (r'^ark_curve::element::projective::Element::IDENTITY$', lambda I, fr, path: Agg(ELEM_TY['ark'], [EP(z3.IntVal(0), 'proj')]))] + M.get('consts', [])
    def points_of(v, I):
        if isinstance(v, EP): return [v]
        if isinstance(v, (Ref, SliceRef)): return points_of(I.deref(v), I)
        if isinstance(v, (Agg, Enum)): return [p for f in v.fields for p in points_of(f, I)]
        if isinstance(v, list): return [p for f in v for p in points_of(f, I)]
        return []
    E = r'^ark_curve::element::<impl at src/ark_curve/element.rs:\d+:1: \d+:\d+>::'
    def elems(h, n):
        xs = [Agg(ELEM_TY['ark'], [EP(z3.Int(f'P{i}'), 'proj')]) for i in range(n)]
        h.locals['v'] = xs; return SliceRef(Ref(h, 'v', []), 0, n)
    todo = [('AffineRepr::zero', E + 'zero$', lambda I, h: [], None), ('AffineRepr::generator', ('::generator$', r'AffineRepr for AffinePoint'), lambda I, h: [], None),
            ('Group::generator', ('::generator$', r'Group for Element'), lambda I, h: [], None),
            ('CurveGroup::into_affine', E + 'into_affine$', lambda I, h: [mk_value('ark', ELEM_TY['ark'], 'L', h)[0]], None),
            ('AffineRepr::clear_cofactor', E + 'clear_cofactor$', lambda I, h: [mk_value('ark', '&' + AFF_TY, 'L', h)[0]], None),
            ('AffineRepr::mul_by_cofactor_to_group', E + 'mul_by_cofactor_to_group$', lambda I, h: [mk_value('ark', '&' + AFF_TY, 'L', h)[0]], None),
            ('Default for Element', r'^ark_curve::element::projective::<impl at [^>]*>::default$', lambda I, h: [], None),
            ('Default for AffinePoint', r'^ark_curve::element::affine::<impl at [^>]*>::default$', lambda I, h: [], None),
            ('Distribution<Element>::sample', ('^ark_curve::rand::.*::sample$', r'Distribution<Element>'), lambda I, h: [Ref(h, 'dist', []), Ref(h, 'rng', [])], None),
            ('Distribution<AffinePoint>::sample', ('^ark_curve::rand::.*::sample$', r'Distribution<AffinePoint>'), lambda I, h: [Ref(h, 'dist', []), Ref(h, 'rng', [])], None)]
    for n in (0, 1, 3):
        todo.append((f'CurveGroup::normalize_batch of {n} elements', E + 'normalize_batch$', lambda I, h, n=n: [elems(h, n)], ('batch', n)))
        todo.append((f'ScalarMul::batch_convert_to_mul_base of {n} elements', E + 'batch_convert_to_mul_base$', lambda I, h, n=n: [elems(h, n)], ('batch', n)))
    for L in list(range(0, 81)):
        todo.append((f'AffineRepr::from_random_bytes on {L} bytes', E + 'from_random_bytes$', lambda I, h, L=L: [_bytes_slice(h, L)], 'frb'))
    frb_bad = []; frb_paths = 0
    for name, pat, mk, extra in todo:
        try: it = mirsym.find_item_hdr(items, pat[0], pat[1]) if isinstance(pat, tuple) else find_item(items, pat)
        except Unsupported as e:
            obs.append(Ob('ark:' + name, 'inconclusive', str(e), 0, 'mirsym/G')); continue
        nm = f'ark:{name} returns only valid elements'
        def body(I, h, it=it, mk=mk):
            h.locals['dist'] = Agg('Standard', []); h.locals['rng'] = models.Opaque('rng')
            I.ctx.loop_budget = 3
            return I.call_item(it, mk(I, h))
        def hook(ctx): pass
        try:
            recs = _run_bounded(items, M, body)
        except Exception as e:
            if isinstance(extra, tuple) and extra[0] == 'batch' and isinstance(e, Unsupported):
                # the code does not delegate to the inner group (it touches coordinates itself): decided at coordinate level instead
                from . import curve
                obs += curve.check_batch_poly(sizes=(extra[1],), fns=(name.split('::')[1].split(' ')[0],)); continue
            obs.append(Ob(nm, 'inconclusive', f'{type(e).__name__}: {e} :: ' + ' <- '.join(getattr(e, 'mir_stack', [])[:3]), 0, 'mirsym/G')); continue
        bad = None; npaths = 0
        for r in recs:
            if 'pruned' in r: continue
            npaths += 1
            if 'panic' in r: bad = 'panics: ' + r['panic']; break
            pts = points_of(r['result'], r['interp'])
            if any(not p.valid for p in pts): bad = 'returns a raw curve point that was never validated (path: ' + ', '.join(str(c) for c in r['path'][:4]) + ')'; break
            if isinstance(extra, tuple) and extra[0] == 'batch':
                ts = [str(p.t) for p in pts]
                if ts != [f'P{i}' for i in range(extra[1])]: bad = f'batch output {ts} is not the input sequence'; break
        if extra == 'frb':
            frb_paths += npaths
            if bad: frb_bad.append((name, bad))
            continue
        if bad: obs.append(Ob(nm, 'violated', bad, 0, 'mirsym path enumeration (validity provenance)', None, {'kind': 'constructor', 'which': name}))
        else: obs.append(Ob(nm, 'proved', f'{npaths} paths', 0, 'mirsym path enumeration (validity provenance)', {'paths': npaths}))
    if frb_bad: obs.append(Ob('ark:AffineRepr::from_random_bytes returns only valid elements (lengths 0..=80)', 'violated', '; '.join(f'{a}: {b}' for a, b in frb_bad[:3]), 0, 'mirsym path enumeration (validity provenance)', None, {'kind': 'constructor', 'which': 'from_random_bytes', 'lengths': [a for a, _ in frb_bad][:10]}))
    else: obs.append(Ob('ark:AffineRepr::from_random_bytes returns only valid elements (lengths 0..=80)', 'proved', f'{frb_paths} paths over 81 lengths', 0, 'mirsym path enumeration (validity provenance)', {'paths': frb_paths}))
    return obs

def _bytes_slice(h, L):
    h.locals['buf'] = [z3.BitVec(f'b{i}', 8) for i in range(L)]
    return SliceRef(Ref(h, 'buf', []), 0, L)

def _run_bounded(items, M, body, max_decode_rejections=2):
    """run_paths, pruning paths on which the rejection-sampling loop has rejected more than `max_decode_rejections` candidates"""
    def body2(I, h):
        orig = I.ctx.decide
        def decide(cond, key=None):
            if z3.is_app(cond) and cond.decl().name() == 'decode_accepts' and getattr(I.ctx, 'rej', 0) >= max_decode_rejections:
                # beyond the unrolling bound only the run in which EVERY candidate is rejected is followed (no fork): a sampler whose
                # loop is bounded must not fall out of it with an unvalidated candidate; an unbounded loop ends at the step cap
                I.ctx.rej += 1
                if I.ctx.rej > 1100: raise mirsym.PathEnd('rejection loop bound')
                return False
            r = orig(cond, key)
            if z3.is_app(cond) and cond.decl().name() == 'decode_accepts' and r is False:
                I.ctx.rej = getattr(I.ctx, 'rej', 0) + 1
            return r
        I.ctx.decide = decide
        return body(I, h)
    return run_paths(items, M, body2)
