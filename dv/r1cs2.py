"""R layer, second part: the gadget entry points that r1cs.py does not cover one by one - equality enforcement, selection, constants,
zero, inner negate/double (C13: value = native meaning, satisfied exactly when the native relation holds), every witness-allocation
impl with adversarial coordinates, and "laziness cannot bypass validation" (C14)."""
import re, time
import z3
from . import mirsym, models, common, spec, r1cs, shape
from .mirsym import Agg, Enum, Ref, SliceRef, Unsupported, find_item
from .poly import FE
from .common import Ob
from .models import ok, fe_is_zero
from .r1cs import FqVar, BoolVar, CSRef, run_r1cs, pathtag, facts_status

OUTER = shape.OUTER; INNER = shape.INNER

def _inner_of(I, items, v):
    """inner ElementVar (coordinates) of an inner or outer variable; forcing an outer variable that holds an element adds nothing"""
    if isinstance(v, (Ref, SliceRef)): v = I.deref(v)
    if isinstance(v, Agg) and v.name == OUTER:
        h = mirsym.Frame(mirsym.Item('fn', '<tmp>', '')); h.locals['lz'] = v.fields[0]
        r = I.call_item(find_item(items, r'^ark_curve::r1cs::lazy::<impl at [^>]*>::element$'), [Ref(h, 'lz', [])])
        if isinstance(r, Enum):
            if r.variant != 'Ok': raise Unsupported('element() failed')
            r = r.fields[0]
        v = r
    return v
def _xy(v): av = v.fields[0]; return av.fields[0], av.fields[1]

def _mk(I, items, which, tag):
    x, y = FE.sym('Fq', tag + 'x'), FE.sym('Fq', tag + 'y')
    inner = Agg(INNER, [Agg('AffineVar', [FqVar(x), FqVar(y), Agg('PhantomData', [])])])
    if which == 'inner': return inner, (x, y)
    lz = I.call_item(find_item(items, r'^ark_curve::r1cs::lazy::<impl at [^>]*>::new_from_element$'), [inner])
    return Agg(OUTER, [lz]), (x, y)

def _guard(obs, name, fn):
    try: fn()
    except Exception as e:
        obs.append(Ob(f'r1cs:{name}', 'inconclusive', f'{type(e).__name__}: {e} :: ' + ' <- '.join(getattr(e, 'mir_stack', [])[:3]), 0, 'mirsym/R1CS'))

def check_r1cs_semantics():
    from .curve import items_for, certificate, side_polys
    items = items_for('ark'); obs = []
    files = {'inner': 'src/ark_curve/r1cs/inner.rs', 'outer': 'src/ark_curve/r1cs/element.rs'}
    def item(which, fname, hdr):
        return mirsym.find_item_hdr(items, rf'^ark_curve::r1cs::{"inner" if which == "inner" else "element"}::.*::{fname}$', hdr)
    viol = lambda nm, why, g: obs.append(Ob(nm, 'violated', why, 0, 'mirsym/R1CS (honest)', None, {'kind': 'r1cs-honest', 'gadget': g, 'build': 'ark'}))
    for which in ('inner', 'outer'):
        # ---- conditional_enforce_equal / conditional_enforce_not_equal / is_eq: decaf equality X1 Y2 = Y1 X2
        for fname, want_eq in (('conditional_enforce_equal', True), ('conditional_enforce_not_equal', False)):
            def run(which=which, fname=fname, want_eq=want_eq):
                it = item(which, fname, 'EqGadget<Fq> for ElementVar')
                def body(I, h, items_):
                    P, (x1, y1) = _mk(I, items_, which, 'p'); Q, (x2, y2) = _mk(I, items_, which, 'q')
                    h.locals['P'] = P; h.locals['Q'] = Q
                    c = I.ctx.decide(z3.Bool('cond'), key='cond'); h.locals['c'] = BoolVar(c)
                    r = I.call_item(it, [Ref(h, 'P', []), Ref(h, 'Q', []), Ref(h, 'c', [])])
                    eq = fe_is_zero(I, x1.mul(y2).sub(y1.mul(x2)))
                    return r, c, eq
                _, recs = run_r1cs(body, 'honest')
                for r in recs:
                    nm = f'r1cs:{which} ElementVar::{fname} is satisfied exactly when (not cond) or X1 Y2 {"=" if want_eq else "!="} Y1 X2 [path {pathtag(r)}]'
                    if 'pruned' in r: continue
                    if 'panic' in r: viol(nm, 'panics: ' + r['panic'], fname); continue
                    res, c, eq = r['result']
                    if isinstance(res, Enum) and res.variant != 'Ok': viol(nm, 'synthesis fails', fname); continue
                    stt, why = facts_status(r['store'], r)
                    if stt == 'unknown': obs.append(Ob(nm, 'inconclusive', why, 0, 'certificates')); continue
                    want_sat = (not c) or (eq == want_eq)
                    if (stt == 'sat') != want_sat: viol(nm, f'constraint system is {"satisfied" if stt == "sat" else "unsatisfied"} with cond={c} and decaf-equal={eq} (path {[str(p_)[:60] for p_ in r["path"]]})', fname)
                    else: obs.append(Ob(nm, 'proved', '', 0, 'mirsym/R1CS (honest)'))
            _guard(obs, f'{which} {fname}', run)
        if which == 'outer':
            def run_iseq():
                it = item('outer', 'is_eq', 'EqGadget<Fq> for ElementVar')
                def body(I, h, items_):
                    P, (x1, y1) = _mk(I, items_, 'outer', 'p'); Q, (x2, y2) = _mk(I, items_, 'outer', 'q')
                    h.locals['P'] = P; h.locals['Q'] = Q
                    r = I.call_item(it, [Ref(h, 'P', []), Ref(h, 'Q', [])])
                    return r, fe_is_zero(I, x1.mul(y2).sub(y1.mul(x2)))
                _, recs = run_r1cs(body, 'honest')
                for r in recs:
                    nm = f'r1cs:outer ElementVar::is_eq honest synthesis [path {pathtag(r)}]'
                    if 'pruned' in r: continue
                    if 'panic' in r: viol(nm, 'panics', 'is_eq'); continue
                    res, w = r['result']; b = res.fields[0].b
                    if b != w: viol(nm, f'returns {b}, decaf equality is {w}', 'is_eq')
                    else: obs.append(Ob(nm, 'proved', '', 0, 'mirsym/R1CS (honest)'))
            _guard(obs, 'outer is_eq', run_iseq)
        # ---- conditionally_select
        def run_sel(which=which):
            it = item(which, 'conditionally_select', 'CondSelectGadget<Fq> for ElementVar')
            def body(I, h, items_):
                P, pc = _mk(I, items_, which, 'p'); Q, qc = _mk(I, items_, which, 'q')
                h.locals['P'] = P; h.locals['Q'] = Q
                c = I.ctx.decide(z3.Bool('cond'), key='cond'); h.locals['c'] = BoolVar(c)
                r = I.call_item(it, [Ref(h, 'c', []), Ref(h, 'P', []), Ref(h, 'Q', [])])
                if isinstance(r, Enum): r = r.fields[0]
                return _xy(_inner_of(I, items_, r)), (pc if c else qc), len(I.ctx.store.facts)
            _, recs = run_r1cs(body, 'honest')
            for r in recs:
                nm = f'r1cs:{which} ElementVar::conditionally_select returns the selected operand [path {pathtag(r)}]'
                if 'pruned' in r: continue
                if 'panic' in r: viol(nm, 'panics', 'select'); continue
                (x, y), (wx, wy), _ = r['result']
                if x.fe.key() != wx.key() or y.fe.key() != wy.key(): viol(nm, 'coordinates of the result are not those of the selected operand', 'select')
                else: obs.append(Ob(nm, 'proved', '', 0, 'mirsym/R1CS (honest)'))
        _guard(obs, f'{which} conditionally_select', run_sel)
        # ---- constant(e): the constant coordinates are the affine coordinates of e
        def run_const(which=which):
            it = item(which, 'constant', 'CurveVar<Element, Fq> for ElementVar')
            from . import curve
            def body(I, h, items_):
                co = [FE.sym('Fq', n) for n in ('X', 'Y', 'Z', 'T')]
                I.ctx.nonzero = ['Z']
                r = I.call_item(it, [curve.mk_element('ark', *co)])
                return _xy(_inner_of(I, items_, r)), co
            _, recs = run_r1cs(body, 'honest')
            for r in recs:
                nm = f'r1cs:{which} ElementVar::constant(e) holds the affine coordinates of e [path {pathtag(r)}]'
                if 'pruned' in r: continue
                if 'panic' in r: viol(nm, 'panics', 'constant'); continue
                (x, y), (X, Y, Z, T) = r['result']
                hyps = list(r['ctx'].__dict__.get('zero_hyps', {}).values()) + side_polys(r['side']) + [T.mul(Z).sub(X.mul(Y)), Z.mul(FE.sym('Fq', 'ZI')).sub(FE.const('Fq', 1))]
                bad = None
                if not (x.const and y.const): bad = 'coordinates are not constants'
                for lbl, g in (('x Z = X', x.fe.mul(Z).sub(X)), ('y Z = Y', y.fe.mul(Z).sub(Y))):
                    if bad or g.is_zero_poly(): continue
                    st, dt, info = certificate(g, hyps)
                    if st != 'proved': bad = f'{lbl} fails'
                if bad: viol(nm, bad, 'constant')
                else: obs.append(Ob(nm, 'proved', '', 0, 'certificates'))
        _guard(obs, f'{which} constant', run_const)
        # ---- zero()
        def run_zero(which=which):
            it = item(which, 'zero', 'CurveVar<Element, Fq> for ElementVar')
            def body(I, h, items_):
                return _xy(_inner_of(I, items_, I.call_item(it, [])))
            _, recs = run_r1cs(body, 'honest')
            for r in recs:
                nm = f'r1cs:{which} ElementVar::zero() is the constant (0, 1)'
                if 'panic' in r or 'pruned' in r: viol(nm, 'panics', 'zero'); continue
                x, y = r['result']
                good = x.const and y.const and x.fe.is_const() and y.fe.is_const() and x.fe.const_value() == 0 and y.fe.const_value() == 1
                obs.append(Ob(nm, 'proved' if good else 'violated', '' if good else f'({x.fe}, {y.fe})', 0, 'mirsym/R1CS', None, None if good else {'kind': 'r1cs-honest', 'gadget': 'zero', 'build': 'ark'}))
        _guard(obs, f'{which} zero', run_zero)
    # ---- inner negate / double_in_place
    def run_neg():
        it = item('inner', 'negate', 'CurveVar<Element, Fq> for ElementVar')
        def body(I, h, items_):
            P, (x, y) = _mk(I, items_, 'inner', 'p'); h.locals['P'] = P
            r = I.call_item(it, [Ref(h, 'P', [])])
            return _xy(r.fields[0] if isinstance(r, Enum) else r), (x, y)
        _, recs = run_r1cs(body, 'honest')
        for r in recs:
            nm = 'r1cs:inner ElementVar::negate is (-x, y)'
            if 'panic' in r or 'pruned' in r: viol(nm, 'panics', 'negate'); continue
            (nx, ny), (x, y) = r['result']
            good = nx.fe.key() == x.neg().key() and ny.fe.key() == y.key()
            obs.append(Ob(nm, 'proved' if good else 'violated', '', 0, 'mirsym/R1CS', None, None if good else {'kind': 'r1cs-ops', 'op': 'negate', 'build': 'ark'}))
    _guard(obs, 'inner negate', run_neg)
    def run_dbl():
        it = item('inner', 'double_in_place', 'CurveVar<Element, Fq> for ElementVar')
        def body(I, h, items_):
            P, (x, y) = _mk(I, items_, 'inner', 'p'); h.locals['P'] = P
            I.call_item(it, [Ref(h, 'P', [])])
            return _xy(h.locals['P']), (x, y)
        _, recs = run_r1cs(body, 'honest')
        d = FE.const('Fq', spec.Dd); one = FE.const('Fq', 1)
        for r in recs:
            nm = f'r1cs:inner ElementVar::double_in_place is the doubling law [path {pathtag(r)}]'
            if 'pruned' in r: continue
            if 'panic' in r: viol(nm, 'panics', 'double'); continue
            if any(k == 'false' for k, *_ in r['store'].facts): continue
            (nx, ny), (x, y) = r['result']
            hyps = list(r['ctx'].__dict__.get('zero_hyps', {}).values()) + side_polys(r['side'])
            dd = d.mul(x.square()).mul(y.square())
            bad = None
            for lbl, g in (('x3 (1 + d x^2 y^2) = 2 x y', nx.fe.mul(one.add(dd)).sub(x.mul(y).add(x.mul(y)))), ('y3 (1 - d x^2 y^2) = y^2 + x^2', ny.fe.mul(one.sub(dd)).sub(y.square().add(x.square())))):
                if g.is_zero_poly(): continue
                st, dt, info = certificate(g, hyps)
                if st != 'proved': bad = lbl + ' fails'; break
            if bad: viol(nm, bad, 'double')
            else: obs.append(Ob(nm, 'proved', '', 0, 'certificates'))
    _guard(obs, 'inner double_in_place', run_dbl)
    return obs

def check_adversarial_allocs():
    """every witness-allocation impl of ElementVar (inner / outer x Element / AffinePoint) with adversarial coordinates: the returned
    variable is the in-circuit decoding of a witnessed encoding, never the witnessed (merely on-curve) coordinates themselves"""
    from .curve import items_for
    from . import curve
    items = items_for('ark'); obs = []
    for which in ('inner', 'outer'):
        for vt in ('Element', 'AffinePoint'):
            nm = f'r1cs:{which} ElementVar witness allocation from {vt} with adversarial coordinates'
            try: it = mirsym.find_item_hdr(items, rf'^ark_curve::r1cs::{"inner" if which == "inner" else "element"}::.*::new_variable$', rf'AllocVar<{vt}, Fq> for ElementVar')
            except Unsupported as e: obs.append(Ob(nm, 'inconclusive', str(e), 0, 'mirsym')); continue
            def body(I, h, items_, it=it, vt=vt):
                X, Y, Z, T = [FE.sym('Fq', n) for n in 'XYZT']
                if vt == 'Element': el = curve.mk_element('ark', X, Y, Z, T); gen = 'ark_curve::element::projective::Element'
                else: el = Agg('ark_curve::element::affine::AffinePoint', [Agg('Affine', [X, Y])]); gen = 'ark_curve::element::affine::AffinePoint'
                clo = Agg('{closure@harness}', [])
                I.models['fns'] = [(r'^<impl FnOnce.* as core::ops::FnOnce<\(\)>>::call_once$', r1cs.harness_closure(el)), (r'^ark_curve::encoding::<impl[^>]*>::vartime_compress_to_field$', lambda I_, fr, fn, a: FE.sym('Fq', 'enc'))] + I.models['fns']
                r = I.call_item(it, [CSRef(), clo, Enum('ark_r1cs_std::alloc::AllocationMode', 'Witness', [])], generics={'T': gen})
                if isinstance(r, Enum) and r.variant == 'Ok': return ok(_inner_of(I, items_, r.fields[0]))
                return r
            try: _, recs = run_r1cs(body, 'adversarial')
            except Exception as e:
                obs.append(Ob(nm, 'inconclusive', f'{type(e).__name__}: {e} :: ' + ' <- '.join(getattr(e, 'mir_stack', [])[:3]), 0, 'mirsym/R1CS')); continue
            bad = None; n = 0
            for r in recs:
                if 'panic' in r: bad = 'panics: ' + r['panic']; break
                if 'pruned' in r: continue
                res = r['result']; st_ = r['store']
                if res.variant != 'Ok' or any(k == 'false' for k, *_ in st_.facts): continue
                n += 1
                pts = [x for x in st_.log if x[0] == 'point']; fqs = [x for x in st_.log if x[0] == 'fq' and x[1] is not None]
                av = res.fields[0].fields[0]; ox, oy = av.fields[0].fe, av.fields[1].fe
                syms = {v for m in list(ox.d) + list(oy.d) for v, _ in m}
                if any(str(v).startswith(('px', 'py')) for v in syms): bad = 'the returned variable contains the witnessed coordinates, which are only constrained to lie on the curve (not to be a valid element)'; break
                if len(pts) > 1 or not fqs: bad = f'{len(pts)} witnessed points, {len(fqs)} witnessed field elements'; break
                whys = [w for k, _, _, w in st_.facts if k == 'eq']
                if pts and not any('on-curve' in w for w in whys): bad = 'the witnessed point is not constrained to the curve'; break
            if bad: obs.append(Ob(nm, 'violated', bad, 0, 'mirsym/R1CS (adversarial)', None, {'kind': 'r1cs-adv', 'gadget': 'alloc', 'which': which, 'vt': vt, 'build': 'ark'}))
            elif not n: obs.append(Ob(nm, 'inconclusive', 'no satisfiable path', 0, 'mirsym/R1CS'))
            else: obs.append(Ob(nm, 'proved', f'{n} satisfiable paths: output is the decoded variable', 0, 'mirsym/R1CS (adversarial)', {'paths': n}))
    return obs

EXEMPT = {'compress_to_field', 'encoding', 'new_from_encoding', 'new_from_element', 'element', 'enforce_prime_order'}

def check_validation_forced():
    """laziness cannot bypass validation: every gadget of the outer ElementVar that consumes an operand allocated from a bare field
    element (not yet decoded) performs the complete in-circuit decoding of that operand - the arkworks call sequence of
    decompress_from_field occurs once per such operand - except the accessors that only hand the encoding back"""
    from .curve import items_for
    items = items_for('ark'); obs = []
    scs = shape.scenarios(items)
    def names(tr): return [e[0] for e in tr]
    dec = next((s for s in scs if s[3] == 'decompress_from_field' and 'element.rs' in s[0] and s[1] is not None), None)
    if dec is None: return [Ob('r1cs:validation forced', 'inconclusive', 'decompress_from_field scenario not found', 0, 'mirsym')]
    _, recs = shape._run_scenario(dec[2], dec[1], 'shape')
    sig = None
    for r in recs:
        if 'result' in r and not isinstance(r['result'], type(None)): sig = names(r['ctx'].store.trace); break
    if not sig or len(sig) < 10: return [Ob('r1cs:validation forced', 'inconclusive', 'no decode signature', 0, 'mirsym')]
    def count(tr):
        n = 0; i = 0; L = len(sig)
        while i + L <= len(tr):
            if tr[i:i + L] == sig: n += 1; i += L
            else: i += 1
        return n
    for name, plan, it, fname in scs:
        if plan is None or 'element.rs' not in name and 'ops.rs' not in name: continue
        k = sum(1 for p in plan if p[0] == 'outer' and p[1] == 'encoding')
        if k == 0 or fname in EXEMPT: continue
        nm = f'r1cs:validation forced: {name} decodes each of its {k} undecoded operand(s)'
        try: _, recs = shape._run_scenario(it, plan, 'shape')
        except Exception as e:
            obs.append(Ob(nm, 'inconclusive', f'{type(e).__name__}: {e}', 0, 'mirsym/R1CS')); continue
        bad = None; n = 0
        for r in recs:
            if 'pruned' in r or 'panic' in r: continue
            if isinstance(r.get('result'), Enum) and r['result'].variant == 'Err': continue
            n += 1
            c = count(names(r['ctx'].store.trace))
            if c < k: bad = f'only {c} complete decodings in the gadget-call sequence for {k} undecoded operands (path {pathtag(r)})'; break
        if bad: obs.append(Ob(nm, 'violated', bad, 0, 'mirsym/R1CS (shape trace)', None, {'kind': 'r1cs-adv', 'gadget': 'lazy-validation', 'fn': fname, 'build': 'ark'}))
        elif n: obs.append(Ob(nm, 'proved', f'{n} paths', 0, 'mirsym/R1CS (shape trace)'))
    return obs
