"""Shared plumbing for the decaf377 checks: tiers, obligations, solver runs, evidence, known findings."""
import json, os, re, subprocess, sys, time, hashlib, tempfile, shutil

VERIF = os.path.dirname(os.path.dirname(os.path.abspath(__file__)))
REPO = os.environ.get('DV_REPO', '/repo')
WORK = os.environ.get('DV_WORK', os.path.join(VERIF, '.work'))   # build output / MIR cache (git-ignored)
os.makedirs(WORK, exist_ok=True)

Z3 = '/usr/bin/z3'
Z3NEW = shutil.which('z3-new') or 'z3-new'
CVC5 = '/usr/bin/cvc5'

def tier():
    return os.environ.get('VERIF_TIER', 'quick')
def seed():
    try: return int(os.environ.get('VERIF_SEED', '0'))
    except ValueError: return 0

def src(path):
    return open(os.path.join(REPO, path)).read()

def tree_hash(paths=None):
    h = hashlib.sha256()
    root = os.path.join(REPO, 'src')
    for d, _, fs in sorted(os.walk(root)):
        for f in sorted(fs):
            if f.endswith('.rs'):
                p = os.path.join(d, f)
                h.update(p.encode()); h.update(open(p, 'rb').read())
    for extra in ('Cargo.toml',):
        h.update(open(os.path.join(REPO, extra), 'rb').read())
    return h.hexdigest()[:16]

class Ob:
    """One proof obligation and what became of it."""
    def __init__(s, name, status, detail='', secs=0.0, engine='', sample=None, model=None, key=None):
        assert status in ('proved', 'violated', 'inconclusive', 'known')
        s.name, s.status, s.detail, s.secs, s.engine, s.sample, s.model, s.key = name, status, detail, secs, engine, sample, model, key
    def as_dict(s):
        d = {'name': s.name, 'status': s.status, 'engine': s.engine, 'solver_s': round(s.secs, 3)}
        if s.detail: d['detail'] = s.detail[:2000]
        if s.sample is not None: d['obligation'] = s.sample
        if s.model is not None: d['model'] = s.model
        return d

# ------------------------------------------------------------------ solver processes
def run_solver(smt_text, solver='z3', timeout=60, tag='q'):
    """Run one SMT-LIB2 script through an external solver. Returns (answer, seconds, raw) with answer in
    sat/unsat/unknown/error/timeout. Any '(error' line makes the answer 'error' (inconclusive)."""
    d = os.path.join(WORK, 'smt'); os.makedirs(d, exist_ok=True)
    fn = os.path.join(d, f'{tag}-{os.getpid()}-{hashlib.md5(smt_text.encode()).hexdigest()[:10]}.smt2')
    open(fn, 'w').write(smt_text)
    if solver == 'z3': cmd = [Z3, '-smt2', f'-T:{int(timeout)}', fn]
    elif solver == 'z3new': cmd = [Z3NEW, '-smt2', f'-T:{int(timeout)}', fn]
    elif solver == 'cvc5': cmd = [CVC5, '--lang', 'smt2', f'--tlimit={int(timeout*1000)}', fn]
    else: raise ValueError(solver)
    t0 = time.time()
    try:
        p = subprocess.run(cmd, capture_output=True, text=True, timeout=timeout + 10)
        out = p.stdout + p.stderr
    except subprocess.TimeoutExpired:
        return 'timeout', time.time() - t0, ''
    dt = time.time() - t0
    try: os.unlink(fn)
    except OSError: pass
    if '(error' in out: return 'error', dt, out
    lines = [l.strip() for l in out.splitlines() if l.strip()]
    for l in lines:
        if l in ('sat', 'unsat', 'unknown'): return l, dt, out
        if l == 'timeout': return 'timeout', dt, out
    return ('timeout' if 'timeout' in out or 'interrupted' in out else 'error'), dt, out

# ------------------------------------------------------------------ known findings
def known_findings():
    p = os.path.join(VERIF, 'known_findings.json')
    if not os.path.exists(p): return {'known': [], 'fixed': []}
    return json.load(open(p))

def finding_for(prop, key):
    for f in known_findings().get('known', []):
        if f['property'] == prop and f['key'] == key: return f
    return None

# ------------------------------------------------------------------ evidence + exit protocol
def finish(prop, obs, t0, level='proof', functions=None, bounds=None, trusted=None, assumptions=None,
           checker_cmd=None, extra=None, replay_for=None):
    """Write evidence/<prop>.json, print the protocol lines, return the exit code.
    obs: list[Ob].  A 'violated' Ob must carry .model['replay'] = path of a reproduced replay file."""
    nviol = 0; ninc = 0; lines = []
    if any(o.status == 'violated' for o in obs):
        from . import reproduce
        reproduce.reproduce(prop, obs)
    elif any(o.status == 'inconclusive' for o in obs):
        # the solver could not decide some obligation (typically: changed code the domains cannot follow).  Before answering
        # "inconclusive", the native battery of the property is run: a concrete disagreement with the reference is a violation
        # whatever the solver said; no disagreement leaves the verdict inconclusive (never "held").
        from . import reproduce
        try: obs = list(obs) + reproduce.battery_after_inconclusive(prop, obs)
        except Exception as e: print(f'   (native battery after inconclusive verdict could not run: {type(e).__name__}: {str(e)[:200]})')
    if not any(o.status in ('violated', 'inconclusive') for o in obs) and os.environ.get('DV_NO_BATTERY') != '1':
        # every obligation discharged: the native battery of the property is still run as a differential safety net (seconds once the
        # replay binary is built).  It cannot turn anything into "held" - that has been decided by the solver - but a concrete
        # disagreement between the real build (dev profile, debug assertions on) and the reference is a violation the symbolic engines
        # missed (e.g. behaviour that exists only under debug assertions, which the MIR dump compiles out).
        from . import reproduce
        try: obs = list(obs) + reproduce.battery_always(prop)
        except Exception as e: print(f'   (native battery could not run: {type(e).__name__}: {str(e)[:200]})')
    for o in obs:
        if o.status == 'violated':
            kf = finding_for(prop, o.key) if o.key else None
            if kf:
                o.status = 'known'
                l = f"KNOWN-FINDING: property={prop} {kf['what']}"
                if l not in lines: lines.append(l)
            else:
                nviol += 1
                rp = (o.model or {}).get('replay', 'none')
                l = f"VIOLATION property={prop} replay={rp}"
                if l not in lines: lines.append(l)
        elif o.status == 'inconclusive':
            ninc += 1
    proved = sum(1 for o in obs if o.status == 'proved')
    known = sum(1 for o in obs if o.status == 'known')
    samples = [o.as_dict() for o in obs if o.status != 'proved'][:10]
    # a spread of discharged obligations, written out
    pv = [o for o in obs if o.status == 'proved']
    step = max(1, len(pv) // 8)
    samples += [o.as_dict() for o in pv[::step]][:10]
    engines = {}
    for o in obs:
        e = engines.setdefault(o.engine or 'n/a', {'queries': 0, 'solver_s': 0.0})
        e['queries'] += 1; e['solver_s'] = round(e['solver_s'] + o.secs, 3)
    cov = {
        'obligations': len(obs) - known, 'discharged': proved,
        'known_finding_obligations': [f'{o.name}: {o.detail[:200]}' for o in obs if o.status == 'known'][:20],
        'checker_cmd': checker_cmd or f'./check {prop} --tier {tier()}',
        'trusted_base': trusted or [],
        'samples': samples,
        'functions_encoded': functions or [],
        'bounds': bounds or [],
        'engines': engines,
        'inconclusive': ninc, 'known_findings_matched': known,
        'repo_tree_hash': tree_hash(),
        'all_obligations': [f'{o.status}: {o.name}' for o in obs][:600],
    }
    if extra: cov.update(extra)
    ev = {'property_id': prop, 'tier': tier(), 'seed': seed(), 'level': level, 'coverage': cov,
          'assumptions': assumptions or [], 'wall_s': round(time.time() - t0, 2), 'violations': nviol}
    evdir = os.environ.get('DV_EVIDENCE_DIR', os.path.join(VERIF, 'evidence'))     # (lanes of the seeded sweep write scratch evidence elsewhere)
    os.makedirs(evdir, exist_ok=True)
    json.dump(ev, open(os.path.join(evdir, f'{prop}.json'), 'w'), indent=1, default=str)
    for l in lines: print(l)
    print(f'[{prop}] obligations={len(obs)} proved={proved} known={known} violated={nviol} inconclusive={ninc} wall={ev["wall_s"]}s')
    for o in obs:
        if o.status in ('inconclusive', 'violated'):
            print(f'   {o.status}: {o.name}: {o.detail[:300]}')
    if nviol: return 1
    if ninc: return 2
    return 0
