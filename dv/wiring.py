"""Wiring checks (EUF / free-abelian-group level): entry points that must funnel into the core routines with exactly the
right operands: hash_to_curve, compress and the serialisation forms, the decoding funnel with all slice lengths."""
import re, time
import z3
from . import mirsym, models, group, common
from .mirsym import Agg, Enum, Ref, SliceRef, Panic, Unsupported, run_paths, find_item
from .group import EP, point_term, decide_int_eq, ELEM_TY, AFF_TY, mk_value
from .models import D, UNIT, ok, err, some, none, IterObj
from .poly import FE
from .common import Ob

MAP = z3.Function('elligator_map', z3.IntSort(), z3.IntSort())
ENC = z3.Function('encode_to_field', z3.IntSort(), z3.IntSort())
LEBYTE = z3.Function('le_byte', z3.IntSort(), z3.IntSort(), z3.BitVecSort(8))
DEC = z3.Function('decode_bytes', z3.ArraySort(z3.IntSort(), z3.BitVecSort(8)), z3.IntSort())
DEC_OK = z3.Function('decode_accepts', z3.ArraySort(z3.IntSort(), z3.BitVecSort(8)), z3.BoolSort())

class FV:
    """opaque field value with a z3 Int term (EUF level)"""
    def __init__(s, t): s.term = t
    def __deepcopy__(s, memo): return s

def wrap_el(build, t):
    return Agg(ELEM_TY['ark'], [EP(t, 'proj')]) if build == 'ark' else EP(t, 'min')

def bytes_array(bs):
    a = z3.K(z3.IntSort(), z3.BitVecVal(0, 8))
    for i, b in enumerate(bs): a = z3.Store(a, i, b if not isinstance(b, int) else z3.BitVecVal(b, 8))
    return a

class Writer:
    def __init__(s): s.out = []
    def __deepcopy__(s, memo): return s
class Reader:
    def __init__(s, data): s.data = list(data); s.pos = 0
    def __deepcopy__(s, memo): return s

def w_models(build):
    def m_elligator(I, fr, fn, a):
        r = D(I, a[0]); return wrap_el(build, MAP(r.term))
    def m_compress_to_field(I, fr, fn, a):
        return FV(ENC(point_term(build, D(I, a[0]))))
    def m_to_bytes_le(I, fr, fn, a):
        v = D(I, a[0])
        if not isinstance(v, FV): return NotImplemented
        return [LEBYTE(v.term, z3.IntVal(i)) for i in range(32)]
    def m_serialize_compressed_fq(I, fr, fn, a):
        v = D(I, a[0])
        if not isinstance(v, FV): return NotImplemented
        return write_all(I, a[1], [LEBYTE(v.term, z3.IntVal(i)) for i in range(32)])
    def write_all(I, w, data):
        tgt = w
        if isinstance(tgt, Ref) and not isinstance(I.deref(tgt), (list, Writer)): tgt = I.deref(tgt)
        if isinstance(tgt, Ref): tgt = I.deref(tgt) if isinstance(I.deref(tgt), Writer) else tgt
        if isinstance(tgt, Writer): tgt.out += list(data); return ok(UNIT)
        if isinstance(tgt, SliceRef):
            if tgt.len < len(data): return err(Enum('ark_std::io::error::Error', 'WriteZero', []))
            arr = I.deref(tgt.base)
            for i, b in enumerate(data): arr[tgt.start + i] = b
            return ok(UNIT)
        raise Unsupported(f'write target {w!r}')
    def m_write_all(I, fr, fn, a):
        data = I.deref(a[1]); return write_all(I, a[0], data)
    def m_read_exact(I, fr, fn, a):
        rd = a[0]
        while isinstance(rd, Ref): rd = I.deref(rd)
        if not isinstance(rd, Reader): raise Unsupported(f'reader {rd!r}')
        dst = a[1]; n = dst.len if isinstance(dst, SliceRef) else len(I.deref(dst))
        if len(rd.data) - rd.pos < n:
            rd.pos = len(rd.data)
            return err(Enum('ark_std::io::error::Error', 'UnexpectedEof', []))
        I.store(dst, rd.data[rd.pos:rd.pos + n]); rd.pos += n
        return ok(UNIT)
    def m_read(I, fr, fn, a):
        # Read::read of a slice / cursor reader: copies min(buffer length, bytes left) bytes and returns that number
        rd = a[0]
        while isinstance(rd, Ref): rd = I.deref(rd)
        if not isinstance(rd, Reader): raise Unsupported(f'reader {rd!r}')
        dst = a[1]; n = dst.len if isinstance(dst, SliceRef) else len(I.deref(dst))
        k = min(n, len(rd.data) - rd.pos)
        if k:
            if isinstance(dst, SliceRef): I.store(SliceRef(dst.base, dst.start, k), rd.data[rd.pos:rd.pos + k])
            else:
                arr = I.deref(dst)
                for i in range(k): arr[i] = rd.data[rd.pos + i]
        rd.pos += k
        return ok(k)
    def m_ser_compressed_default(I, fr, fn, a):
        m = re.match(r'^<(.*) as ark_serialize::CanonicalSerialize>::serialize_compressed::<.*>$', fn)
        return I.call(fr, f'<{m.group(1)} as ark_serialize::CanonicalSerialize>::serialize_with_mode::<W>', [a[0], a[1], Enum('ark_serialize', 'Compress::Yes', [])])
    def m_deser_compressed_default(I, fr, fn, a):
        m = re.match(r'^<(.*) as ark_serialize::CanonicalDeserialize>::deserialize_compressed::<.*>$', fn)
        return I.call(fr, f'<{m.group(1)} as ark_serialize::CanonicalDeserialize>::deserialize_with_mode::<R>', [a[0], Enum('ark_serialize', 'Compress::Yes', []), Enum('ark_serialize', 'Validate::Yes', [])])
    def m_decompress(I, fr, fn, a):
        enc = D(I, a[0]); bs = enc.fields[0]
        arr = bytes_array(bs)
        I.ctx.__dict__.setdefault('decode_calls', []).append(list(bs))
        if I.ctx.decide(DEC_OK(arr)): return ok(wrap_el(build, DEC(arr)))
        return err(Enum('error::EncodingError', 'InvalidEncoding', []))
    def m_ser_err_from_io(I, fr, fn, a): return Enum('ark_serialize::SerializationError', 'IoError', [a[0]])
    def m_hex_encode(I, fr, fn, a):
        I.ctx.__dict__.setdefault('hex_calls', []).append(list(I.deref(a[0]))); return models.Opaque('hex')
    fns = [
        (r'::elligator_map$', m_elligator),
        (r'::vartime_compress_to_field$', m_compress_to_field),
        (r'::vartime_decompress$', m_decompress),
        (r'^fields::fq::u(32|64)::wrapper::Fq::to_bytes_le$', m_to_bytes_le),
        (r'^<fields::fq::u64::wrapper::Fq as ark_serialize::CanonicalSerialize>::serialize_compressed::', m_serialize_compressed_fq),
        (r'^<fields::fq::u64::wrapper::Fq as ark_serialize::CanonicalSerialize>::serialized_size$', lambda I, fr, fn, a: 32),
        (r'^<.* as ark_serialize::CanonicalSerialize>::serialize_compressed::<.*>$', m_ser_compressed_default),
        (r'^<.* as ark_serialize::CanonicalDeserialize>::deserialize_compressed::<.*>$', m_deser_compressed_default),
        (r' as (ark_std::io|std::io|ark_serialize)::Write>::write_all$', m_write_all),
        (r' as (ark_std::io|std::io|ark_serialize)::Read>::read_exact$', m_read_exact),
        (r' as (ark_std::io|std::io|ark_serialize)::Read>::read$', m_read),
        (r'^<ark_serialize::SerializationError as core::convert::From<ark_std::io::error::Error>>::from$', m_ser_err_from_io),
        (r'^hex::encode::', m_hex_encode),
    ]
    M = group.g_models(build)
    M['fns'] = fns + M['fns']
    return M

def _run(items, M, body, name, obs):
    try: return run_paths(items, M, body)
    except Exception as e:
        obs.append(Ob(name, 'inconclusive', f'{type(e).__name__}: {e} :: ' + ' <- '.join(getattr(e, 'mir_stack', [])[:3]), 0, 'mirsym/EUF')); return []

def check_hash_to_curve(build):
    from .curve import items_for
    items = items_for(build); M = w_models(build); obs = []
    mod = 'ark_curve::elligator' if build == 'ark' else 'min_curve::element'
    for fname, nargs, want in (('hash_to_curve', 2, lambda: MAP(z3.Int('r1')) + MAP(z3.Int('r2'))), ('encode_to_curve', 1, lambda: MAP(z3.Int('r1')))):
        it = find_item(items, rf'^{mod}::<impl at [^>]*>::{fname}$')
        name = f'{build}:{fname} = ' + ('map(r1) + map(r2)' if nargs == 2 else 'map(r)')
        def body(I, h, it=it, nargs=nargs):
            args = []
            for i in range(nargs):
                h.locals[f'r{i+1}'] = FE.sym('Fq', f'r{i+1}'); args.append(Ref(h, f'r{i+1}', []))
            return I.call_item(it, args)
        for r in _run(items, M, body, name, obs):
            if 'panic' in r: obs.append(Ob(name, 'violated', 'panics: ' + r['panic'], 0, 'mirsym/EUF', None, {'kind': 'panic'})); continue
            got = point_term(build, r['result'])
            ans, model, dt, smt = decide_int_eq(got, want(), path=r['path'])
            samp = {'got': str(got), 'want': str(want()), 'path': [str(c) for c in r['path']]}
            if ans == 'unsat': obs.append(Ob(name, 'proved', 'wiring', dt, 'z3 LIA+EUF', samp))
            elif ans == 'sat': obs.append(Ob(name, 'violated', f'result is {got}', dt, 'z3 LIA+EUF', samp, {'kind': 'hash_to_curve', 'fn': fname, 'z3_model': model}))
            else: obs.append(Ob(name, 'inconclusive', 'z3 unknown', dt, 'z3'))
    return obs

def _bytes_goal(got, P):
    """got: list of 32 byte terms; expected: canonical LE bytes of encode_to_field(P); fact: val < q < 2^253 so the top three bits of byte 31 are clear"""
    e = ENC(P)
    if len(got) != 32: return None
    conds = []
    for i, b in enumerate(got):
        if isinstance(b, int): b = z3.BitVecVal(b, 8)
        conds.append(b == LEBYTE(e, z3.IntVal(i)))
    fact = (LEBYTE(e, z3.IntVal(31)) & 0xE0) == 0
    return conds, fact

def check_compress_forms(build):
    """every way of obtaining bytes from an element yields the canonical little-endian bytes of vartime_compress_to_field(element)"""
    from .curve import items_for
    items = items_for(build); M = w_models(build); obs = []
    forms = []   # (name, item, mkargs(I,h) -> args, extract(I, result, args) -> list of bytes)
    P = z3.Int('L')
    def elref(I, h): return [mk_value(build, '&' + ELEM_TY[build], 'L', h)[0]]
    def elval(I, h): return [mk_value(build, ELEM_TY[build], 'L', h)[0]]
    def affref(I, h): return [mk_value(build, '&' + AFF_TY, 'L', h)[0]]
    enc_bytes = lambda I, r, a: r.fields[0]
    if build == 'ark':
        E = 'ark_curve::encoding'
        forms += [('Element::vartime_compress', rf'^{E}::<impl at [^>]*>::vartime_compress$', elref, enc_bytes)]
        for it in [v for k, v in items.items() if re.match(rf'^{E}::<impl at [^>]*>::from$', k)]:
            hdr = it.impl_header()
            if 'Element' not in hdr: continue
            forms.append((f'`{hdr}`', it, (elref if it.params[0][1].startswith('&') else elval), (lambda I, r, a: r.fields[0] if isinstance(r, Agg) else r)))
        def ser_args(mk):
            def f(I, h):
                w = Writer(); h.locals['w'] = w
                return mk(I, h) + [w, Enum('ark_serialize', 'Compress::Yes', [])]
            return f
        wr = lambda I, r, a: a[1].out if r.variant == 'Ok' else None
        for it in [v for k, v in items.items() if re.match(r'^ark_curve::(encoding|serialize)::<impl at [^>]*>::serialize_with_mode$', k)]:
            hdr = it.impl_header()
            if 'for Encoding' in hdr: continue
            forms.append((f'`{hdr}`::serialize_with_mode', it, ser_args(elref if 'Element' in hdr else affref), wr))
        for it in [v for k, v in items.items() if re.match(r'^ark_curve::(encoding|serialize)::<impl at [^>]*>::serialized_size$', k)]:
            forms.append((f'`{it.impl_header()}`::serialized_size', it, None, None))
        for it in [v for k, v in items.items() if re.match(r'^ark_curve::element::(projective|affine)::<impl at [^>]*>::fmt$', k)]:
            forms.append((f'`{it.impl_header()}`::fmt (hex of the encoding)', it, 'fmt', None))
    else:
        forms += [('Element::vartime_compress', r'^min_curve::element::<impl at [^>]*>::vartime_compress$', elref, enc_bytes)]
    for name, it, mk, extract in forms:
        if isinstance(it, str):
            try: it = find_item(items, it)
            except Unsupported as e: obs.append(Ob(f'{build}:{name}', 'inconclusive', str(e), 0, 'mirsym/EUF')); continue
        nm = f'{build}:{name} yields canonical LE bytes of the field encoding'
        if mk is None:
            # serialized_size(&self, Compress::Yes) == 32
            def body(I, h, it=it):
                ty = it.params[0][1]
                base = mirsym.strip_lt(ty).lstrip('&')
                if base.endswith('Encoding'):
                    h.locals['e'] = Agg(base, [[z3.BitVec(f'b{i}', 8) for i in range(32)]]); a0 = Ref(h, 'e', [])
                else: a0 = mk_value(build, ty, 'L', h)[0]
                return I.call_item(it, [a0, Enum('ark_serialize', 'Compress::Yes', [])])
            for r in _run(items, M, body, nm, obs):
                good = r.get('result') == 32
                obs.append(Ob(f'{build}:{name} == 32', 'proved' if good else 'violated', f"result {r.get('result', r.get('panic'))}", 0, 'mirsym/path', None, None if good else {'kind': 'serialized_size'}))
            continue
        if mk == 'fmt':
            def body(I, h, it=it):
                a0 = mk_value(build, it.params[0][1], 'L', h)[0]
                I.models['fns'] = [(r'^core::fmt::', lambda I, fr, fn, a: ok(UNIT) if fn.endswith(('write_fmt', 'write_str')) else models.Opaque('fmt')),
                                   (r'^<.* as core::fmt::(Display|Debug)>::fmt$', lambda I, fr, fn, a: ok(UNIT)),
                                   (r'^<alloc::string::String as ', lambda I, fr, fn, a: models.Opaque('str'))] + I.models['fns']
                try: I.call_item(it, [a0, models.Opaque('formatter')])
                except Unsupported as e:
                    if not I.ctx.__dict__.get('hex_calls'): raise
                return I.ctx.__dict__.get('hex_calls', [])
            for r in _run(items, dict(M), body, nm, obs):
                calls = r.get('result') or []
                if len(calls) != 1: obs.append(Ob(nm, 'violated', f'{len(calls)} hex::encode calls', 0, 'mirsym/EUF', None, {'kind': 'fmt'})); continue
                _decide_bytes(nm, calls[0], P, r, obs)
            continue
        def body(I, h, it=it, mk=mk, extract=extract):
            args = mk(I, h)
            res = I.call_item(it, args)
            return extract(I, res, args)
        if build == 'ark' and mk is not None and mk != 'fmt' and 'serialize_with_mode' in it.name:
            obs += poly_serialize_form(items, it, name)
        for r in _run(items, M, body, nm, obs):
            if 'panic' in r: obs.append(Ob(nm, 'violated', 'panics: ' + r['panic'], 0, 'mirsym/EUF', None, {'kind': 'panic'})); continue
            _decide_bytes(nm, r['result'], P, r, obs)
    return obs

def _decide_bytes(nm, got, P, r, obs):
    if got is None or len(got) != 32:
        obs.append(Ob(nm, 'violated', 'did not produce 32 bytes', 0, 'mirsym/EUF', None, {'kind': 'bytes'})); return
    conds, fact = _bytes_goal(got, P)
    s = z3.Solver(); s.set('timeout', 20000)
    for c in r['path']: s.add(c)
    s.add(fact); s.add(z3.Not(z3.And(conds)))
    t0 = time.time(); ans = s.check(); dt = time.time() - t0
    samp = {'byte31': str(got[31]), 'fact': 'le_byte(enc,31) & 0xE0 == 0  (val < q < 2^253; W contract)', 'smt2_head': s.to_smt2()[:400]}
    if ans == z3.unsat: obs.append(Ob(nm, 'proved', 'bytes[i] = le_byte(encode_to_field(P), i), top three bits clear', dt, 'z3 BV+EUF', samp))
    elif ans == z3.sat: obs.append(Ob(nm, 'violated', 'bytes differ from the canonical LE form of the field encoding', dt, 'z3 BV+EUF', samp, {'kind': 'bytes'}))
    else: obs.append(Ob(nm, 'inconclusive', 'z3 unknown', dt, 'z3'))

def check_decode_funnel(build, max_len=80):
    """all decoding entry points: length errors for L != 32 (readers: L < 32), otherwise exactly decode(bytes[..32]) -> same verdict, same element"""
    from .curve import items_for
    items = items_for(build); M = w_models(build); obs = []
    E = 'ark_curve::encoding' if build == 'ark' else 'min_curve::element'
    entries = []
    for k, it in items.items():
        if it.kind != 'fn' or not it.impl_at: continue
        nm = k.split('::')[-1]; hdr = it.impl_header()
        if build == 'ark' and re.match(r'^ark_curve::(encoding|serialize)::<impl at', k):
            if nm == 'try_from': entries.append((it, 'try_from'))
            elif nm == 'deserialize_with_mode': entries.append((it, 'reader'))
            elif nm == 'decompress': entries.append((it, 'direct'))
        if build == 'min' and re.match(r'^min_curve::(element|encoding)::<impl at', k) and nm in ('try_from', 'decompress'): entries.append((it, 'try_from' if nm == 'try_from' else 'direct'))
    lens = list(range(0, max_len + 1))
    for it, kind in sorted(entries, key=lambda x: x[0].impl_at):
        hdr = it.impl_header(); pty = mirsym.strip_lt(it.params[0][1]) if it.params else ''
        out_ty = it.ret
        if kind == 'reader': Ls = lens
        elif pty == '&[u8]': Ls = lens
        else: Ls = [32]
        bad = 0; npaths = 0; t0 = time.time()
        for L in Ls:
            bs = [z3.BitVec(f'b{i}', 8) for i in range(L)]
            def body(I, h, it=it, kind=kind, bs=bs, L=L, pty=pty):
                if kind == 'reader':
                    rd = Reader(bs); h.locals['rd'] = rd
                    return I.call_item(it, [rd, Enum('ark_serialize', 'Compress::Yes', []), Enum('ark_serialize', 'Validate::Yes', [])]), I.ctx.__dict__.get('decode_calls', [])
                if pty == '&[u8]':
                    h.locals['buf'] = list(bs); a0 = SliceRef(Ref(h, 'buf', []), 0, L)
                elif pty == '[u8; 32]': a0 = list(bs)
                elif pty.endswith('Encoding') and pty.startswith('&'):
                    h.locals['e'] = Agg(pty.lstrip('&'), [list(bs)]); a0 = Ref(h, 'e', [])
                elif pty.endswith('Encoding'): a0 = Agg(pty, [list(bs)])
                else: raise Unsupported('funnel entry param ' + pty)
                return I.call_item(it, [a0]), I.ctx.__dict__.get('decode_calls', [])
            name = f'{build}:{it.impl_at[0]}:{it.impl_at[1]} `{hdr}`::{it.name.split("::")[-1]} len={L}'
            for r in _run(items, M, body, name, obs):
                npaths += 1
                if 'panic' in r:
                    obs.append(Ob(name, 'violated', 'panics: ' + r['panic'], 0, 'mirsym/EUF', None, {'kind': 'funnel-panic', 'len': L})); bad += 1; continue
                res, calls = r['result']
                problem = None
                to_encoding = out_ty.startswith('core::result::Result<') and 'Encoding,' in out_ty.replace('encoding::Encoding', 'Encoding')
                if kind == 'reader':
                    short = L < 32
                    if short:
                        if res.variant != 'Err': problem = 'short input accepted'
                    elif to_encoding:
                        if res.variant != 'Ok' or not same_bytes(res.fields[0].fields[0], bs[:32]): problem = 'Encoding reader did not return the first 32 bytes'
                    else: problem = funnel_verdict(build, res, calls, bs[:32], r, 'InvalidData')
                elif L != 32:
                    if not (res.variant == 'Err' and isinstance(res.fields[0], Enum) and res.fields[0].variant == 'InvalidSliceLength'): problem = f'length {L} not rejected as InvalidSliceLength: {res!r}'
                elif to_encoding:
                    if res.variant != 'Ok' or not same_bytes(res.fields[0].fields[0], bs): problem = 'Encoding conversion altered the bytes'
                else: problem = funnel_verdict(build, res, calls, bs, r, 'InvalidEncoding')
                if problem:
                    bad += 1
                    obs.append(Ob(name, 'violated', problem, 0, 'mirsym/EUF', {'path': [str(c) for c in r['path']]}, {'kind': 'funnel', 'len': L, 'where': f'{it.impl_at[0]}:{it.impl_at[1]}', 'header': hdr}))
        if kind == 'reader' and not (out_ty.startswith('core::result::Result<') and 'Encoding,' in out_ty.replace('encoding::Encoding', 'Encoding')):
            # the other (Compress, Validate) modes: they may refuse (panic / Err) but must never hand out a point that did not come out of the decoder
            for cm, vm in (('Compress::No', 'Validate::Yes'), ('Compress::Yes', 'Validate::No'), ('Compress::No', 'Validate::No')):
                for L in (32, 64, 65):
                    bs = [z3.BitVec(f'b{i}', 8) for i in range(L)]
                    def body2(I, h, it=it, bs=bs, cm=cm, vm=vm):
                        rd = Reader(bs); h.locals['rd'] = rd
                        return I.call_item(it, [rd, Enum('ark_serialize', cm, []), Enum('ark_serialize', vm, [])]), I.ctx.__dict__.get('decode_calls', [])
                    name = f'{build}:{it.impl_at[0]}:{it.impl_at[1]} `{hdr}`::deserialize_with_mode({cm}, {vm}) len={L}'
                    try: recs2 = run_paths(items, M, body2)
                    except Exception as e:
                        # code the domain cannot follow in these modes (e.g. raw coordinate parsing): a point that bypasses the decoder
                        obs.append(Ob(name, 'violated', f'builds its result without the decoder ({type(e).__name__}: {str(e)[:160]})', 0, 'mirsym/EUF', None, {'kind': 'funnel', 'len': L, 'mode': f'{cm},{vm}', 'where': f'{it.impl_at[0]}:{it.impl_at[1]}', 'header': hdr})); bad += 1; continue
                    for r in recs2:
                        npaths += 1
                        if 'panic' in r or 'pruned' in r: continue
                        res, calls = r['result']
                        if res.variant == 'Ok':
                            problem = funnel_verdict(build, res, calls, bs[:32], r, 'InvalidData')
                            if problem:
                                bad += 1
                                obs.append(Ob(name, 'violated', problem, 0, 'mirsym/EUF', None, {'kind': 'funnel', 'len': L, 'mode': f'{cm},{vm}', 'where': f'{it.impl_at[0]}:{it.impl_at[1]}', 'header': hdr}))
        if not bad:
            obs.append(Ob(f'{build}:{it.impl_at[0]}:{it.impl_at[1]} `{hdr}`::{it.name.split("::")[-1]} lengths {Ls[0]}..={Ls[-1]}', 'proved',
                          f'{npaths} paths: length verdicts and funnel into vartime_decompress(bytes[..32]) with identical verdict/element', time.time() - t0, 'mirsym path enumeration + z3 EUF', {'lengths': len(Ls), 'paths': npaths}))
    if len(entries) < (7 if build == 'ark' else 1): obs.append(Ob(f'{build}: decoding entry points found', 'inconclusive', f'only {len(entries)} found', 0, 'mirsym/EUF'))
    return obs

def same_bytes(a, b):
    return len(a) == len(b) and all((x is y) or (isinstance(x, z3.ExprRef) and isinstance(y, z3.ExprRef) and x.eq(y)) for x, y in zip(a, b))

def funnel_verdict(build, res, calls, bs, r, errname):
    if len(calls) != 1: return f'{len(calls)} calls of vartime_decompress (expected exactly 1)'
    if not same_bytes(calls[0], bs): return 'vartime_decompress was called on other bytes than the first 32 input bytes'
    arr = bytes_array(bs)
    accepted = any(c.eq(DEC_OK(arr)) for c in r['path'])
    if res.variant == 'Ok':
        if not accepted: return 'Ok although vartime_decompress rejected'
        t = point_term(build, res.fields[0])
        s = z3.Solver(); s.add(t != DEC(arr))
        if s.check() != z3.unsat: return f'returned element {t} is not the decoded one'
        return None
    if accepted: return 'Err although vartime_decompress accepted'
    e = res.fields[0]
    if not (isinstance(e, Enum) and e.variant == errname): return f'rejection reported as {e!r}, expected {errname}'
    return None


def poly_serialize_form(items, it, name):
    """coordinate-level run (POLY domain) of a serialisation form of the arkworks build: the serialised field value equals the
    specification encoding of the operand (for AffinePoint: of (x, y, 1, x*y))"""
    from . import curve, spec
    obs = []
    hdr = it.impl_header(); aff = 'AffinePoint' in hdr
    M = curve.curve_models('ark')
    def m_ser_fq(I, fr, fn, a):
        v = D(I, a[0])
        if not isinstance(v, FE): return NotImplemented
        I.ctx.__dict__.setdefault('serialized_values', []).append(v)
        tgt = a[1]
        data = [LEBYTE(v.term, z3.IntVal(i)) for i in range(32)]
        arr = I.deref(tgt.base)
        for i, b in enumerate(data): arr[tgt.start + i] = b
        return ok(UNIT)
    def m_write_all(I, fr, fn, a):
        w = a[0]
        while isinstance(w, Ref): w = I.deref(w)
        w.out += list(I.deref(a[1])); return ok(UNIT)
    def m_ser_default(I, fr, fn, a):
        m = re.match(r'^<(.*) as ark_serialize::CanonicalSerialize>::serialize_compressed::<.*>$', fn)
        return I.call(fr, f'<{m.group(1)} as ark_serialize::CanonicalSerialize>::serialize_with_mode::<W>', [a[0], a[1], Enum('ark_serialize', 'Compress::Yes', [])])
    M['fns'] = [(r'^<fields::fq::u64::wrapper::Fq as ark_serialize::CanonicalSerialize>::serialize_compressed::', m_ser_fq),
                (r'^<fields::fq::u64::wrapper::Fq as ark_serialize::CanonicalSerialize>::serialized_size$', lambda I, fr, fn, a: 32),
                (r'^<.* as ark_serialize::CanonicalSerialize>::serialize_compressed::<.*>$', m_ser_default),
                (r' as (ark_std::io|std::io|ark_serialize)::Write>::write_all$', m_write_all)] + M['fns']
    def body(I, h):
        if aff:
            x, y = FE.sym('Fq', 'x'), FE.sym('Fq', 'y')
            h.locals['p'] = Agg(AFF_TY, [Agg('Affine', [x, y])]); co = (x, y, FE.const('Fq', 1), x.mul(y))
        else:
            co = tuple(FE.sym('Fq', n) for n in 'XYZT')
            h.locals['p'] = curve.mk_element('ark', *co)
        w = Writer(); h.locals['w'] = w
        res = I.call_item(it, [Ref(h, 'p', []), w, Enum('ark_serialize', 'Compress::Yes', [])])
        sp = spec.encode(I, *co)
        return res, I.ctx.__dict__.get('serialized_values', []), sp, w.out
    nm = f'ark:{name} (coordinate level): serialised value = spec.encode of the operand'
    try: recs = run_paths(items, M, body)
    except Exception as e:
        return [Ob(nm, 'inconclusive', f'{type(e).__name__}: {e} :: ' + ' <- '.join(getattr(e, 'mir_stack', [])[:3]), 0, 'mirsym/POLY')]
    for r in recs:
        pn = nm + ' path ' + ''.join('1' if d else '0' for d in r['decisions'])
        if 'panic' in r: obs.append(Ob(pn, 'violated', 'panics: ' + r['panic'], 0, 'mirsym/POLY', None, {'kind': 'panic'})); continue
        res, vals, sp, out = r['result']
        if res.variant != 'Ok' or len(vals) != 1 or len(out) != 32:
            obs.append(Ob(pn, 'violated', f'result {res!r}, {len(vals)} field serialisations, {len(out)} bytes written', 0, 'mirsym/POLY', None, {'kind': 'serialize-form'})); continue
        obs.append(curve.compare_fe(pn, vals[0], sp, {'path': curve.describe_path(r)}, rec=r))
    return obs
