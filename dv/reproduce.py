"""Turn candidate violations (solver `sat` / failed certificates) into natively reproduced scenarios.

For every (property, build) with candidates, a battery of concrete scenarios aimed at the region the solver pointed to is run
against the real build and compared with the python reference; the first disagreement is the replay.  Candidates of a
(property, build) for which nothing reproduces are downgraded to `inconclusive` (exit 2), never reported as violations."""
import re, itertools, random
from . import common, replay, spec, poly
from .replay import Q, R, le, ref_decode, ref_encode, ref_add, ref_neg, ref_mul, ref_B, ref_enc_hex, ref_elligator, IDENT, run_cases

def K(k): return 'k:' + le(k % R)
def QH(v): return le(v % Q)

SMALL = [0, 1, 2, 3, 5, 7, 8, 11, 16, 22, 25, 30, 41, 45]
def scalars():
    return SMALL + [R - 1, R - 2, (R - 1) // 2, (R + 1) // 2, 2 ** 64, 2 ** 128, 2 ** 192 + 5, 2 ** 250, 0xFFFFFFFFFFFFFFFF, 2 ** 64 - 1 + (1 << 200), 1234567891011121314151617181920 % R]

def enc_of_mul(k): return ref_enc_hex(ref_mul(ref_B(), k))

def decode_expect(b):
    r = ref_decode(b)
    if r is None: return 'err InvalidEncoding'
    x, y = r
    return 'ok ' + le(ref_encode((x, y, 1, x * y % Q)))

def byte_strings():
    out = []
    encs = [int(enc_of_mul(k), 16) for k in []]
    vals = []
    for k in SMALL + [R - 1, 2 ** 64, 12345678901234567890]:
        s = int.from_bytes(bytes.fromhex(enc_of_mul(k)), 'little'); vals.append(s)
    for s in vals:
        cand = [s, s + Q, Q - s, s ^ 1, s ^ (1 << 252), s ^ (1 << 253), s ^ (1 << 255), s + 2 * Q, s ^ (1 << 64)]
        out += [c for c in cand if 0 <= c < 2 ** 256]
    out += [0, 1, 2, 4, Q - 1, Q, Q + 1, Q - 2, Q + 8, 2 ** 253, 2 ** 252, 2 ** 253 - 1, 2 ** 256 - 1, 2 ** 255, (Q - 1) // 2, (Q + 1) // 2, 0x12ab655e9a2ca556 << 192, (0x12ab655e9a2ca556 << 192) + 4]
    seen = set(); res = []
    for v in out:
        if v not in seen: seen.add(v); res.append(v.to_bytes(32, 'little'))
    return res

def decode_cases(build):
    cases = [(f'decode:{b.hex()}', decode_expect(b), 'direct decode of a structured byte string') for b in byte_strings()]
    return cases

def funnel_cases(build):
    cases = []
    good = bytes.fromhex(enc_of_mul(5)); bad = (Q - 1).to_bytes(32, 'little'); qq = Q.to_bytes(32, 'little')
    entries32 = ['try_from_slice', 'try_from_array', 'try_from_encoding', 'try_from_encoding_ref', 'encoding_slice_then_decompress'] + (['decompress_deprecated', 'deser_element', 'deser_affine'] if build == 'ark' else [])
    for b in [good, bad, qq, bytes(32), (8).to_bytes(32, 'little')] + byte_strings()[:40]:
        for e in entries32:
            exp = decode_expect(b)
            if e.startswith('deser') and exp.startswith('err'): exp = 'err InvalidData'
            cases.append((f'x:{b.hex()} entry:{e}', exp, f'entry point {e} on 32 bytes'))
    for L in list(range(0, 81)):
        if L == 32: continue
        data = (good + good + good)[:L]
        for e in ('try_from_slice', 'encoding_try_from_slice', 'encoding_slice_then_decompress'):
            cases.append((f'x:{data.hex()} entry:{e}', 'err InvalidSliceLength', f'{e} on a slice of length {L}'))
        if build == 'ark':
            for e in ('deser_element', 'deser_affine'):
                if L < 32: continue
                cases.append((f'x:{data.hex()} entry:{e}', decode_expect(data[:32]), f'{e} on a reader holding {L} bytes'))
            if L > 32: cases.append((f'x:{data.hex()} entry:deser_encoding', 'ok ' + data[:32].hex(), f'deser_encoding on a reader holding {L} bytes'))
            if L in (32, 64):
                i4 = pow(spec.ZETA, 1 << 45, Q); Bp = ref_B(); zi_ = pow(Bp[2], -1, Q); bx_, by_ = Bp[0] * zi_ % Q, Bp[1] * zi_ % Q
                blobs = [data] + ([bytes.fromhex(le(x_) + le(y_)) for x_, y_ in ((i4, 0), (i4 * by_ % Q, i4 * bx_ % Q), (bx_, by_), (0, Q - 1), (2, 3))] if L == 64 else [])
                for blob in blobs:
                    for e in ('deser_affine_unc', 'deser_element_unc', 'deser_affine_unchecked', 'deser_element_unchecked'):
                        cases.append((f'x:{blob.hex()} entry:{e}', ('re', r'^(refused|err |ok valid=true)'), f'{e} on {L} bytes may refuse but must not hand out an invalid element'))
            if L < 32:
                for e in ('deser_encoding', 'deser_element', 'deser_affine'):
                    cases.append((f'x:{data.hex()} entry:{e}', ('re', r'^err '), f'{e} on a reader holding only {L} bytes must fail'))
    return cases

def element_exprs(build):
    """(rpn program leaving one element, reference point, description) - many representatives of many elements"""
    out = []
    B = ref_B()
    for k in scalars():
        P = ref_mul(B, k)
        out.append((f'B {K(k)} mul', P, f'[{k}]B (Z != 1)'))
        out.append((f'B {K(k)} mul neg', ref_neg(P), f'-[{k}]B'))
        out.append((f'B {K(k)} mul {K(R - 1)} mul', ref_neg(P), f'[-1][{k}]B (other coset representative)'))
        out.append((f'dec:{ref_enc_hex(P)}', P, f'decode(encode([{k}]B))'))
    for a, b in [(3, 5), (5, 5), (5, R - 5), (0, 7), (7, 0), (2 ** 64, 3), (R - 1, 1), (22, 25)]:
        P = ref_add(ref_mul(B, a), ref_mul(B, b))
        out.append((f'B {K(a)} mul B {K(b)} mul add', P, f'[{a}]B + [{b}]B'))
        out.append((f'B {K(a)} mul B {K(b)} mul neg sub', P, f'[{a}]B - (-[{b}]B)'))
        out.append((f'B {K(a)} mul dbl', ref_mul(B, 2 * a), f'2*[{a}]B'))
    out.append(('B B sub', IDENT, 'B - B'))
    out.append((f'B B {K(R - 1)} mul add', IDENT, 'B + [-1]B (identity, 2-torsion representative)'))
    out.append(('I', IDENT, 'IDENTITY'))
    if build == 'ark':
        out.append(('DEF', IDENT, 'default()'))
        for k in (3, 22, R - 1): out.append((f'B {K(k)} mul aff', ref_mul(B, k), f'[{k}]B through affine'))
    return out

def encode_cases(build):
    cases = []
    for prog, P, desc in element_exprs(build):
        cases.append((f'{prog} enc', ref_enc_hex(P), f'vartime_compress of {desc}'))
        cases.append((f'{prog} fenc', ref_enc_hex(P), f'vartime_compress_to_field of {desc}'))
        if build == 'ark':
            for nm in ('ser_element', 'into_bytes', 'into_encoding', 'into_encoding_ref'):
                cases.append((f'{prog} named:{nm}', 'b:' + ref_enc_hex(P), f'{nm} of {desc}'))
            cases.append((f'{prog} aff named:ser_affine', 'b:' + ref_enc_hex(P), f'AffinePoint serialisation of {desc}'))
            cases.append((f'{prog} affref named:ser_affine', 'b:' + ref_enc_hex(P), f'From<&Element> for AffinePoint, then serialisation, of {desc}'))
            cases.append((f'{prog} affinto named:ser_affine', 'b:' + ref_enc_hex(P), f'CurveGroup::into_affine, then serialisation, of {desc}'))
            cases.append((f'{prog} aff elref enc', ref_enc_hex(P), f'From<&AffinePoint> for Element of {desc}'))
            cases.append((f'{prog} aff elval enc', ref_enc_hex(P), f'From<AffinePoint> for Element of {desc}'))
            cases.append((f'{prog} gdouble enc', ref_enc_hex(ref_add(P, P)), f'Group::double of {desc}'))
            cases.append((f'{prog} gdouble {prog} dbl eq', 'true', f'Group::double == double_in_place of {desc}'))
            h = ref_enc_hex(P)
            cases.append((f'{prog} named:debug', f'decaf377::Element({h})|decaf377::Element({h})', f'Debug/Display of {desc}'))
            cases.append((f'{prog} aff named:adebug', f'decaf377::AffinePoint({h})|decaf377::AffinePoint({h})', f'Debug/Display of affine {desc}'))
    return cases

def elligator_cases(build):
    cases = []
    rs = [0, 1, Q - 1, 2, Q - 2, 3, 4, 5, 6, 7, 8, 9, 10, 11, 12, 13, 17, 19, 23, 29, spec.ZETA, pow(spec.ZETA, -1, Q), pow(2, 64, Q), pow(3, 200, Q), (Q - 1) // 2, (Q + 1) // 2, pow(spec.ZETA, (Q - 1) >> 47, Q)]
    for r in rs:
        cases.append((f'ell:{QH(r)} enc', ref_enc_hex(ref_elligator(r % Q)), f'encode_to_curve({r})'))
    for a, b in [(3, 5), (5, 5), (5, Q - 5), (0, 0), (1, Q - 1), (7, 11), (2, 2)]:
        P = ref_add(ref_elligator(a % Q), ref_elligator(b % Q))
        cases.append((f'hash2:{QH(a)},{QH(b)} enc', ref_enc_hex(P), f'hash_to_curve({a}, {b})'))
    return cases

def group_cases(build):
    cases = []
    B = ref_B()
    for prog, P, desc in element_exprs(build):
        pass
    pairs = [(3, 5), (5, 5), (5, R - 5), (0, 7), (7, 0), (0, 0), (2 ** 64, 3), (R - 1, 1), (22, 25), (1, 1)]
    for a, b in pairs:
        Pa, Pb = ref_mul(B, a), ref_mul(B, b)
        for la, lb, tag in ((f'B {K(a)} mul', f'B {K(b)} mul', ''), (f'B {K(a)} mul {K(R-1)} mul neg', f'B {K(b)} mul', ' (lhs: other coset representative)')):
            cases.append((f'{la} {lb} add enc', ref_enc_hex(ref_add(Pa, Pb)), f'[{a}]B + [{b}]B{tag}'))
            cases.append((f'{la} {lb} sub enc', ref_enc_hex(ref_add(Pa, ref_neg(Pb))), f'[{a}]B - [{b}]B{tag}'))
        cases.append((f'B {K(a)} mul dbl enc', ref_enc_hex(ref_mul(B, 2 * a)), f'double [{a}]B'))
        cases.append((f'B {K(a)} mul neg enc', ref_enc_hex(ref_neg(Pa)), f'-[{a}]B'))
    cases.append(('I I add enc', le(0), 'I + I'))
    cases.append((f'I B {K(R-1)} mul B add add enc', le(0), 'I + T (2-torsion representative of the identity)'))
    cases += form_cases(build)
    if build == 'ark':
        for ks in ([], [3], [3, 5], [3, 5, 7], [2, 0, 9], [1, 1, 1, 1, 1]):
            prog = ' '.join(f'B {K(k)} mul' for k in ks)
            want = enc_of_mul(sum(ks))
            for nm in ('sum', 'sum_ref', 'sum_aff', 'sum_aff_ref', 'sum_filter', 'sum_ref_filter', 'sum_takewhile'):
                cases.append(((prog + ' ' if prog else '') + f'named:{nm} enc', want, f'{nm} over {ks}'))
        cases.append((f'B {K(7)} mul named:negate enc', enc_of_mul(R - 7), 'negate'))
        cases.append((f'B {K(7)} mul named:negate fenc', enc_of_mul(R - 7), 'negate then compress_to_field'))
    return cases

def form_cases(build):
    """every generated operator form on a few operand pairs"""
    from .curve import items_for
    from . import mirsym
    items = items_for(build)
    files = ['src/ark_curve/ops/projective.rs', 'src/ark_curve/ops/affine.rs'] if build == 'ark' else ['src/min_curve/ops.rs']
    cases = []; seen = set()
    for k, it in sorted(items.items()):
        if it.kind != 'fn' or not it.impl_at or it.impl_at[0] not in files: continue
        tr, targs, selfty = mirsym.Interp._hdr_parse(it.impl_header())
        if tr not in ('Add', 'Sub', 'Neg', 'Mul', 'AddAssign', 'SubAssign', 'MulAssign'): continue
        fid = f'{it.impl_at[0]}:{it.impl_at[1]}'
        if fid in seen: continue
        seen.add(fid)
        rhs = targs if targs else selfty
        def is_scalar(t): return t.replace('&', '').replace("'a ", '').replace("'b ", '').strip().split('::')[-1] == 'Fr'
        for a, b in ((3, 5), (5, 5), (7, 0), (0, 7), (R - 2, 9)):
            if tr == 'Neg':
                cases.append((f'B {K(a)} mul form:{fid} enc', enc_of_mul(R - a), f'`{it.impl_header()}` on [{a}]B')); continue
            if tr in ('Mul', 'MulAssign'):
                l = K(a) if is_scalar(selfty) else f'B {K(a)} mul'; r = K(b) if is_scalar(rhs) else f'B {K(b)} mul'
                cases.append((f'{l} {r} form:{fid} enc', enc_of_mul(a * b), f'`{it.impl_header()}` on {a}, {b}')); continue
            want = enc_of_mul(a + b) if tr in ('Add', 'AddAssign') else enc_of_mul(a - b)
            cases.append((f'B {K(a)} mul B {K(b)} mul form:{fid} enc', want, f'`{it.impl_header()}` on [{a}]B, [{b}]B'))
    return cases

def const_cases(build):
    from .poly import FIELDS
    from .consts import SMALL_GEN, NBYTES
    cases = []
    def le64(v, n): return le(v, 8 * n)
    for F in ('Fq', 'Fr', 'Fp'):
        p = FIELDS[F]; n = 6 if F == 'Fp' else 4; nb = NBYTES[F]
        s2 = ((p - 1) & -(p - 1)).bit_length() - 1; t = (p - 1) >> s2; g = SMALL_GEN[F]
        cases += [(f'const:{F}::MODULUS_LIMBS', le64(p, n), f'{F}::MODULUS_LIMBS'), (f'const:{F}::MODULUS_MINUS_ONE_DIV_TWO_LIMBS', le64((p - 1) // 2, n), f'{F}::MODULUS_MINUS_ONE_DIV_TWO_LIMBS'),
                  (f'const:{F}::TRACE_LIMBS', le64(t, n), f'{F}::TRACE_LIMBS'), (f'const:{F}::TRACE_MINUS_ONE_DIV_TWO_LIMBS', le64((t - 1) // 2, n), f'{F}::TRACE_MINUS_ONE_DIV_TWO_LIMBS'),
                  (f'const:{F}::MODULUS_BIT_SIZE', str(p.bit_length()), f'{F}::MODULUS_BIT_SIZE'), (f'const:{F}::TWO_ADICITY', str(s2), f'{F}::TWO_ADICITY'),
                  (f'const:{F}::MULTIPLICATIVE_GENERATOR', le(g, nb), f'{F}::MULTIPLICATIVE_GENERATOR'), (f'const:{F}::TWO_ADIC_ROOT_OF_UNITY', le(pow(g, t, p), nb), f'{F}::TWO_ADIC_ROOT_OF_UNITY'),
                  (f'const:{F}::FIELD_SIZE_POWER_OF_TWO', le(pow(2, 8 * nb, p), nb), f'{F}::FIELD_SIZE_POWER_OF_TWO'), (f'const:{F}::ONE', le(1, nb), f'{F}::ONE'), (f'const:{F}::ZERO', le(0, nb), f'{F}::ZERO')]
        if build == 'ark':
            sq = f'ts {s2} QNR {le64((t - 1) // 2, n)}' if F != 'Fr' else None
            cases.append((f'const:traits:{F}', None, f'trait constants of {F}'))
    cases += [('const:Fp::QUADRATIC_NON_RESIDUE', le(FIELDS['Fp'] - 5, 48), 'Fp::QUADRATIC_NON_RESIDUE'), ('const:Fp::MINUS_ONE', le(FIELDS['Fp'] - 1, 48), 'Fp::MINUS_ONE')]
    cases += [('const:ZETA', le(spec.ZETA), 'ZETA'), ('const:GENERATOR', le(8), 'GENERATOR'), ('const:IDENTITY', le(0), 'IDENTITY')]
    if build == 'ark':
        a, d = Q - 1, spec.Dd
        cases += [('const:TE::COEFF_A', le(a), 'TE COEFF_A'), ('const:TE::COEFF_D', le(d), 'TE COEFF_D'),
                  ('const:Mont::COEFF_A', le(2 * (a + d) * pow(a - d, -1, Q) % Q), 'Montgomery COEFF_A'), ('const:Mont::COEFF_B', le(4 * pow(a - d, -1, Q) % Q), 'Montgomery COEFF_B'),
                  ('const:COFACTOR', le(1, 8), 'COFACTOR'), ('const:COFACTOR_INV', le(1), 'COFACTOR_INV'), ('const:Group::generator', le(8), 'Group::generator'),
                  ('const:AffineRepr::generator', le(8), 'AffineRepr::generator'), ('const:AffineRepr::zero', le(0), 'AffineRepr::zero')]
    return [c for c in cases if c[1] is not None]

def const_semantic_cases(build):
    """behavioural witnesses for constants that the API does not expose directly (square roots use SQRT_PRECOMP etc.)"""
    cases = []
    if build == 'ark':
        for F, f in (('Fq', 'q'), ('Fr', 'r'), ('Fp', 'p')):
            for v in (4, 9, 2, 3, 5, 1234567):
                from .poly import FIELDS
                pm = FIELDS[F]; sq = v * v % pm
                cases.append((f'{f}.push:{le(sq, 48 if F == "Fp" else 32)} {f}.sqrt', 'some sq_ok=true', f'{F}::sqrt of the square {v}^2'))
    return cases

def coherence_cases(build):
    cases = []
    B = ref_B()
    ks = [1, 2, 3, 5, 7, 22, R - 1, 2 ** 64]
    for k in ks:
        reps = [f'B {K(k)} mul', f'B {K(R - k)} mul neg', f'B {K(R - k)} mul {K(R - 1)} mul', f'dec:{ref_enc_hex(ref_mul(B, k))}', f'B {K(k)} mul B {K(3)} mul add B {K(3)} mul sub']
        for i, a in enumerate(reps):
            for b in reps[i + 1:]:
                cases.append((f'{a} {b} eq', 'true', f'equal elements [{k}]B in two representations compare equal'))
                if build == 'ark':
                    cases.append((f'{a} {b} hasheq', 'true', f'equal elements [{k}]B in two representations hash equally'))
                    cases.append((f'{a} aff {b} aff aeq', 'true', f'equal affine points [{k}]B compare equal'))
                    cases.append((f'{a} aff {b} aff ahasheq', 'true', f'equal affine points [{k}]B hash equally'))
        cases.append((f'{reps[0]} B {K(k + 1)} mul eq', 'false', f'[{k}]B != [{k+1}]B'))
    idents = ['I', 'B B sub', f'B B {K(R - 1)} mul add', f'B {K(5)} mul B {K(5)} mul {K(R - 1)} mul add', f'B {K(0)} mul', f'dec:{le(0)}'] + (['DEF'] if build == 'ark' else [])
    for a in idents:
        cases.append((f'{a} isid', 'true', f'is_identity of the identity written as `{a}`'))
        cases.append((f'{a} I eq', 'true', f'`{a}` == IDENTITY'))
        if build == 'ark':
            cases.append((f'{a} iszero', 'true', f'Zero::is_zero of the identity written as `{a}`'))
            cases.append((f'{a} aff aiszero', 'true', f'AffineRepr::is_zero of the identity written as `{a}`'))
            cases.append((f'{a} DEF eq', 'true', f'`{a}` == default()'))
            cases.append((f'{a} I hasheq', 'true', f'hash of the identity written as `{a}`'))
    for k in (1, 5):
        cases.append((f'B {K(k)} mul isid', 'false', 'is_identity of a non-identity'))
        if build == 'ark': cases.append((f'B {K(k)} mul iszero', 'false', 'is_zero of a non-identity'))
    return cases

def smul_cases(build):
    cases = []
    B = ref_B()
    ks = scalars() + [R, R + 1, 2 * R - 1]
    for k in scalars():
        for base, Pb, desc in ((f'B', B, 'B'), (f'B {K(3)} mul', ref_mul(B, 3), '[3]B'), (f'B {K(R - 3)} mul neg', ref_mul(B, 3), '[3]B (other coset representative)')):
            want = ref_enc_hex(ref_mul(Pb, k))
            cases.append((f'{base} {K(k)} mul enc', want, f'[{k}]*{desc} via Mul<Fr>'))
    limb_ints = [0, 1, 2, R - 1, R, R + 1, 2 ** 64, 2 ** 128, 2 ** 192 + 5, 2 ** 255, 2 ** 256 - 1, 2 ** 256, 2 ** 256 + 1, (1 << 320) - 1, R << 64, 2 ** 383 + 12345, 0xFFFFFFFFFFFFFFFF]
    for v in limb_ints:
        nbytes = max(8, ((v.bit_length() + 63) // 64) * 8)
        hx = v.to_bytes(nbytes, 'little').hex()
        want = ref_enc_hex(ref_mul(ref_mul(B, 3), v % R))
        if build == 'min':
            cases.append((f'B {K(3)} mul ladder_ct:{hx} enc', want, f'constant-time ladder with the {nbytes // 8}-limb integer {v}'))
            cases.append((f'B {K(3)} mul ladder_vt:{hx} enc', want, f'variable-time ladder with the {nbytes // 8}-limb integer {v}'))
        else:
            cases.append((f'B {K(3)} mul mulbig:{hx} enc', want, f'Group::mul_bigint with the {nbytes // 8}-limb integer {v}'))
            cases.append((f'B {K(3)} mul aff amulbig:{hx} enc', want, f'AffineRepr::mul_bigint with the {nbytes // 8}-limb integer {v}'))
    if build == 'ark':
        for ks_ in ([], [3], [3, 5], [3, 0, 5], [0, 7], [2, 0, 0, 9], [R - 1, 1]):
            prog = ' '.join(f'B {K(i + 2)} mul {K(k)}' for i, k in enumerate(ks_))
            want = enc_of_mul(sum((i + 2) * k for i, k in enumerate(ks_)))
            cases.append(((prog + ' ' if prog else '') + 'named:msm enc', want, f'vartime_multiscalar_mul with scalars {ks_}'))
            if ks_: cases.append((prog + ' named:vbmsm enc', want, f'VariableBaseMSM::msm with scalars {ks_}'))
    cases.append((f'B {K(R - 1)} mul B add isid', 'true', '[r]B is the identity'))
    cases.append(('B isid', 'false', 'B is not the identity'))
    cases += form_cases(build)
    return cases

def constructor_cases(build):
    cases = []
    if build != 'ark': return decode_cases(build)
    import hashlib
    for L in list(range(0, 81)):
        for seed in range(6 if L != 32 else 2):
            data = hashlib.sha256(f'{L}-{seed}'.encode()).digest() * 3
            data = data[:L]
            got_valid = None
            # expectation: either rejected, or a valid element; for 32 bytes exactly the decoder's verdict
            exp = None
            if L == 32:
                d = decode_expect(data); exp = 'none' if d.startswith('err') else 'some ' + d[3:] + ' valid=true'
                cases.append((f'x:{data.hex()} entry:from_random_bytes', exp, f'from_random_bytes on 32 bytes'))
            else:
                cases.append((f'x:{data.hex()} entry:from_random_bytes', ('re', r'^(none|some [0-9a-f]{64} valid=true)$'), f'from_random_bytes on {L} bytes'))
    for b in byte_strings()[:30]:
        d = decode_expect(b); exp = 'none' if d.startswith('err') else 'some ' + d[3:] + ' valid=true'
        cases.append((f'x:{b.hex()} entry:from_random_bytes', exp, 'from_random_bytes on a structured 32-byte string'))
    ident2 = f'B B {K(R - 1)} mul add'     # identity with the (0,-1) representative
    lists = [[f'B {K(3)} mul', f'B {K(5)} mul'], [ident2, f'B {K(3)} mul', f'B {K(5)} mul dbl'], ['I', ident2, f'B {K(7)} mul'], [f'B {K(2)} mul', ident2, 'I', f'B {K(9)} mul B add']]
    for l in lists:
        for nm in ('normalize_batch', 'convert_batch'):
            cases.append((' '.join(l) + f' named:{nm} allvalid', f'true {len(l)}', f'{nm} of {l}'))
    cases.append(('named:sample allvalid', 'true 16', 'UniformRand samplers (8 elements, 8 affine points)'))
    cases.append(('named:sample_stuck allvalid', 'true 8', 'UniformRand samplers fed by a generator that repeats one word for 1400-3000 draws before it recovers'))
    for prog, P, desc in element_exprs(build)[:40]: cases.append((f'{prog} valid', 'true', f'validity of {desc}'))
    return cases

def sqrt_cases(build, obs=()):
    from .sqrt import G_VAL, N2, MODD
    cases = []
    g = G_VAL
    pts = []
    for o in obs:
        m = o.model or {}
        if 'en' in m: pts.append((pow(g, int(m['en']), Q), pow(g, int(m['ed']), Q), f'solver model e_n={m["en"]} e_d={m["ed"]}'))
    odd = pow(3, 1 << N2, Q)      # an element of odd order
    for k in range(0, N2 + 1): pts.append((pow(g, 1 << k, Q) if k < N2 else 1, 1, f'root of unity of order 2^{N2 - k}'))
    for k in range(0, N2, 4): pts.append((pow(g, (1 << k) - 1, Q), 1, f'2-primary exponent 2^{k}-1 (all-ones digits)'))
    for e in (1, 3, 0xFF, 0xFF00, 0xFFFFFFFFFFF, (1 << N2) - 1, (1 << 46), (1 << 46) + 1, 0x7FFFFFFFFFFF, 0x555555555555, 0x2AAAAAAAAAAA):
        pts.append((pow(g, e, Q) * odd % Q, 1, f'2-primary exponent {hex(e)} times an odd-order element'))
        pts.append((1, pow(g, e, Q), f'denominator with 2-primary exponent {hex(e)}'))
    for k in (0, 1, 2, 3, 5): pts.append((pow(spec.ZETA, k, Q), 1, f'zeta^{k}')); pts.append((pow(spec.ZETA, k, Q), 7, f'zeta^{k} / 7'))
    for a, b in ((0, 0), (0, 5), (5, 0), (1, 1), (4, 1), (2, 1), (1, 2), (Q - 1, 1), (1, Q - 1), (Q - 1, Q - 1), (9, 4), (spec.ZETA, spec.ZETA)): pts.append((a, b, f'num={a} den={b}'))
    for i in range(40):
        a = pow(7, 1000 + i, Q); b = pow(11, 77 + i, Q); pts.append((a, b, 'pseudo-random pair'))
    for a, b, d in pts: cases.append((f'q:{QH(a)} q:{QH(b)} sqrtcheck', 'ok', f'sqrt_ratio contract on {d}'))
    if build == 'ark':
        for F, f, p_ in (('Fq', 'q', Q), ('Fr', 'r', R), ('Fp', 'p', replay.PP)):
            nb = 48 if F == 'Fp' else 32
            for v in (0, 1, 4, 2, 3, 5, p_ - 1, 7, 10):
                ls = 0 if v % p_ == 0 else (1 if pow(v, (p_ - 1) // 2, p_) == 1 else -1)
                cases.append((f'{f}.push:{le(v, nb)} {f}.legendre', str(ls), f'{F}::legendre({v})'))
                if ls >= 0: cases.append((f'{f}.push:{le(v, nb)} {f}.sqrt', 'some sq_ok=true', f'{F}::sqrt({v})'))
                else: cases.append((f'{f}.push:{le(v, nb)} {f}.sqrt', 'none', f'{F}::sqrt({v})'))
    return cases

def roundtrip_cases(build):
    cases = []
    for prog, P, desc in element_exprs(build):
        cases.append((f'{prog} enc', ref_enc_hex(P), f'encoding of {desc}'))
        cases.append((f'{prog} valid', 'true', f'decode(encode(P)) == P for {desc}'))
    if build == 'ark':
        for k in (1, 3, 7, 22):
            cases.append((f'B {K(k)} mul named:negate enc', enc_of_mul(R - k), f'encoding of negate([{k}]B)'))
            cases.append((f'B {K(k)} mul named:negate valid', 'true', f'round trip of negate([{k}]B)'))
    return cases + decode_cases(build) + funnel_cases(build)[:200] + conversion_cases(build)[-80:]

def field_cases(build):
    from .poly import FIELDS
    cases = []
    special = lambda p_: [0, 1, 2, p_ - 1, p_ - 2, (p_ - 1) // 2, (p_ + 1) // 2, 2 ** 32 - 1, 2 ** 64 - 1, 2 ** 64, 2 ** 128 + 5, 2 ** 200 - 1, 0x1234567890abcdef1234567890abcdef]
    for F, f in (('Fq', 'q'), ('Fr', 'r'), ('Fp', 'p')):
        p_ = FIELDS[F]; nb = 48 if F == 'Fp' else 32
        push = lambda v: f'{f}.push:{le(v % p_, nb)}'
        out = lambda v: f'{f}:{le(v % p_, nb)}'
        vals = special(p_)
        for a in vals[:8]:
            for b in vals[:8]:
                cases.append((f'{push(a)} {push(b)} {f}.add', out(a + b), f'{F}: {a} + {b}')); cases.append((f'{push(a)} {push(b)} {f}.sub', out(a - b), f'{F}: {a} - {b}'))
                cases.append((f'{push(a)} {push(b)} {f}.mul', out(a * b), f'{F}: {a} * {b}'))
                if b % p_: cases.append((f'{push(a)} {push(b)} {f}.div', out(a * pow(b, -1, p_)), f'{F}: {a} / {b}'))
            cases.append((f'{push(a)} {f}.neg', out(-a), f'{F}: -{a}')); cases.append((f'{push(a)} {f}.sq', out(a * a), f'{F}: {a}^2'))
            cases.append((f'{push(a)} {f}.inv', 'none' if a % p_ == 0 else 'some ' + le(pow(a, -1, p_), nb), f'{F}: inverse of {a}'))
        for xs in ([], [3], [2, 3], [2, 3, 5], [p_ - 1, 2, 7, 9]):
            prog = ' '.join(push(x) for x in xs)
            s_ = sum(xs); pr = 1
            for x in xs: pr *= x
            for nm, w in (('sum', s_), ('sum_ref', s_), ('prod', pr), ('prod_ref', pr)):
                cases.append(((prog + ' ' if prog else '') + f'{f}.{nm}', out(w), f'{F}: {nm} of {xs}'))
        # operator forms generated from the impl headers
        from .curve import items_for
        from . import mirsym
        seen = set()
        for k, it in sorted(items_for(build).items()):
            if it.kind != 'fn' or not it.impl_at or it.impl_at[0] != f'src/fields/{F.lower()}/ops.rs': continue
            tr, targs, selfty = mirsym.Interp._hdr_parse(it.impl_header())
            if tr not in ('Add', 'Sub', 'Mul', 'Div', 'Neg', 'AddAssign', 'SubAssign', 'MulAssign', 'DivAssign'): continue
            fid = f'{it.impl_at[0]}:{it.impl_at[1]}'
            if fid in seen: continue
            seen.add(fid)
            for a, b in ((5, 7), (p_ - 1, 2), (0, 3)):
                if tr == 'Neg': cases.append((f'{push(a)} {f}.form:{fid}', out(-a), f'`{it.impl_header()}` on {a}')); continue
                w = {'Add': a + b, 'Sub': a - b, 'Mul': a * b, 'Div': a * pow(b, -1, p_)}[tr.replace('Assign', '')]
                cases.append((f'{push(a)} {push(b)} {f}.form:{fid}', out(w), f'`{it.impl_header()}` on {a}, {b}'))
    for base in (2, 3, Q - 1):
        for limbs in ([], [0], [5], [0, 1], [3, 0, 1], [0, 0, 1], [5, 0, 7, 0], [2 ** 64 - 1, 1], [1, 2, 3, 4, 5]):
            e = sum(x << (64 * i) for i, x in enumerate(limbs))
            hx = b''.join(x.to_bytes(8, 'little') for x in limbs).hex()
            if limbs: cases.append((f'q:{QH(base)} fpower:{hx}', 'q:' + le(pow(base, e, Q)), f'Fq::power({base}, {limbs})'))
    for a, b, c in ((5, 7, 0), (5, 7, 1), (Q - 1, 0, 0), (Q - 1, 0, 1)):
        cases.append((f'q:{QH(a)} q:{QH(b)} fsel:{c}', 'q:' + le(b if c else a), f'conditional_select({a}, {b}, {c})'))
    for a, b in ((5, 5), (5, 7), (0, pow(2, -128, Q)), (0, 0), (Q - 1, Q - 1), (1, 1 + pow(2, -128, Q) * 3 % Q)):
        cases.append((f'q:{QH(a)} q:{QH(b)} fcteq', str(a % Q == b % Q).lower(), f'ct_eq({a}, {b})'))
        cases.append((f'q:{QH(a)} q:{QH(b)} feq', str(a % Q == b % Q).lower(), f'{a} == {b}'))
    return cases

def kernel_cases(build, obs=()):
    """fiat kernel candidates (operands in the Montgomery domain) re-expressed through the public field API of the 32-bit build"""
    from .poly import FIELDS
    cases = []
    for o in obs:
        m = o.model or {}
        if m.get('kind') != 'kernel': continue
        F = {'fq': 'Fq', 'fr': 'Fr', 'fp': 'Fp'}[m['field']]; f = F[1].lower(); p_ = FIELDS[F]; nb = 48 if F == 'Fp' else 32
        Rm = 2 ** (8 * nb); Ri = pow(Rm, -1, p_)
        push = lambda v: f'{f}.push:{le(v % p_, nb)}'
        out = lambda v: f'{f}:{le(v % p_, nb)}'
        W = 2 ** 32
        if 'prim' in m:
            # a primitive's counterexample (carry/borrow c, words x, y) placed in limb 1 (limb 0 produces the carry) of Montgomery operands
            c_, x_, y_ = m['c'] & 1, m['x'], m['y']
            if m['prim'] == 'subborrowx': a_m, b_m = ((x_ << 32), 1 + (y_ << 32)) if c_ else (x_, y_); m = dict(m, a=a_m % p_, b=b_m % p_, fn='sub')
            elif m['prim'] == 'addcarryx': a_m, b_m = ((W - 1) + (x_ << 32), 1 + (y_ << 32)) if c_ else (x_, y_); m = dict(m, a=a_m % p_, b=b_m % p_, fn='add')
            elif m['prim'] == 'mulx': m = dict(m, a=x_ % p_, b=y_ % p_, fn='mul')
            else: continue
        elif m['fn'] == 'nonzero' and 'limbs' in m:
            v = m['limbs'] % p_; x = v * Ri % p_
            cases.append((f'{push(x)} {push(0)} {f}.eq', str(v == 0).lower(), f'{F}: element with Montgomery limbs {v:#x} == 0 (fiat nonzero)'))
            cases.append((f'{push(0)} {push(x)} {f}.eq', str(v == 0).lower(), f'{F}: 0 == element with Montgomery limbs {v:#x}'))
            cases.append((f'{push(x + 5)} {push(5)} {f}.eq', str(v == 0).lower(), f'{F}: (x + 5) == 5 for the element x with Montgomery limbs {v:#x}'))
            continue
        elif m['fn'] == 'to_bytes' and 'limbs' in m:
            v = m['limbs'] % p_
            cases.append((f'{push(v)} {push(0)} {f}.add', out(v), f'{F}: serialising {v:#x} (fiat to_bytes)')); continue
        elif m['fn'] == 'from_bytes' and 'bytes' in m:
            bs = m['bytes'].to_bytes(nb, 'little')
            cases.append((f'modorder:{bs.hex()}', ' '.join(le(m['bytes'] % FIELDS[G], 48 if G == 'Fp' else 32) for G in ('Fq', 'Fr', 'Fp')), f'from_le_bytes_mod_order on the counterexample bytes of {F} from_bytes')); continue
        if 'a' not in m: continue
        a, b, fn = m['a'], m.get('b', 0), m['fn']
        x, y = a * Ri % p_, b * Ri % p_
        if fn == 'add':
            cases.append((f'{push(x)} {push(y)} {f}.add', out(x + y), f'{F} fiat add on Montgomery operands {a}, {b}'))
            cases.append((f'{push(x)} {push(y)} {f}.add {push(x + y)} {f}.eq', 'true', f'{F}: {x} + {y} == its canonical sum (limb-level equality)'))
        elif fn == 'sub':
            cases.append((f'{push(x)} {push(y)} {f}.sub', out(x - y), f'{F} fiat sub on Montgomery operands {a}, {b}'))
            cases.append((f'{push(x)} {push(y)} {f}.sub {push(x - y)} {f}.eq', 'true', f'{F}: {x} - {y} == its canonical difference (limb-level equality)'))
        elif fn == 'opp':
            cases.append((f'{push(x)} {f}.neg', out(-x), f'{F} fiat opp on Montgomery operand {a}'))
            cases.append((f'{push(x)} {f}.neg {push(-x)} {f}.eq', 'true', f'{F}: -({x}) == {(-x) % p_} (limb-level equality of the fiat opp result)'))
        elif fn == 'mul': cases.append((f'{push(x)} {push(y)} {f}.mul', out(x * y), f'{F} fiat mul on Montgomery operands {a}, {b}'))
        elif fn == 'square': cases.append((f'{push(x)} {f}.sq', out(x * x), f'{F} fiat square on Montgomery operand {a}'))
        elif fn == 'from_montgomery': cases.append((f'{push(x)} {push(0)} {f}.add', out(x), f'{F} fiat from_montgomery on {a} (serialising the element {x})'))
        elif fn == 'to_montgomery':
            if a < p_: cases.append((f'{push(a)} {push(0)} {f}.add', out(a), f'{F} fiat to_montgomery on {a}'))
            cases.append((f'modorder:{a.to_bytes(nb, "little").hex()}', ' '.join(le(int.from_bytes(a.to_bytes(nb, "little"), "little") % FIELDS[G], 48 if G == 'Fp' else 32) for G in ('Fq', 'Fr', 'Fp')), f'from_le_bytes_mod_order feeding {a} to {F} to_montgomery'))
    return cases

def deser_mode_cases(build):
    from .poly import FIELDS
    cases = []
    if build != 'ark': return cases
    for F, f in (('Fq', 'q'), ('Fr', 'r'), ('Fp', 'p')):
        p_ = FIELDS[F]; nb = 48 if F == 'Fp' else 32
        for v in (0, 5, p_ - 1, p_, p_ + 1, p_ + 5, 2 ** (8 * nb) - 1, 2 * p_ if 2 * p_ < 2 ** (8 * nb) else p_ + 7):
            one = ('ok ' + le(v, nb)) if v < p_ else 'err'
            cases.append((f'{f}.deser_modes:{le(v, nb)}', ' | '.join([one] * 4), f'{F}::deserialize_with_mode of the integer {v} in the four (Compress, Validate) modes'))
    return cases

def ord_cases(build, obs=()):
    from .poly import FIELDS
    cases = []
    for F, f in (('Fq', 'q'), ('Fr', 'r'), ('Fp', 'p')):
        p_ = FIELDS[F]; nb = 48 if F == 'Fp' else 32
        push = lambda v: f'{f}.push:{le(v % p_, nb)}'
        pairs = []
        for o in obs:
            m = o.model or {}
            if m.get('kind') == 'ord' and m.get('field') == F and 'a' in m: pairs.append((m['a'], m['b']))
        hi = (p_ >> 64) << 64
        pairs += [(5, 7), (7, 5), (5, 5), (hi - 2 ** 64 + 3, hi - 2 ** 64 + 9), (2 ** 64 + 1, 2 ** 64 + 2), (2 ** 128 + 9, 2 ** 128 + 3), (1, 2 ** 64), (2 ** 64, 1), (p_ - 1, 0), (0, p_ - 1), ((p_ - 1) // 2, (p_ + 1) // 2), (2 ** 200, 2 ** 200 + 1)]
        for a, b in pairs:
            a %= p_; b %= p_
            cases.append((f'{push(a)} {push(b)} {f}.cmp', 'Less' if a < b else ('Equal' if a == b else 'Greater'), f'{F}: cmp({a}, {b})'))
    return cases

def conversion_cases(build):
    from .poly import FIELDS
    cases = []
    import hashlib
    for L in list(range(0, 201)):
        data = (hashlib.sha256(str(L).encode()).digest() * 8)[:L]
        if L in (32, 48): data = b'\xff' * L
        v = int.from_bytes(data, 'little')
        cases.append((f'modorder:{data.hex()}', ' '.join(le(v % FIELDS[F], 48 if F == 'Fp' else 32) for F in ('Fq', 'Fr', 'Fp')), f'from_le_bytes_mod_order on {L} bytes'))
        if build == 'ark':
            vb = int.from_bytes(data, 'big')
            for F, f in (('Fq', 'q'), ('Fr', 'r'), ('Fp', 'p')):
                nb = 48 if F == 'Fp' else 32
                cases.append((f'{f}.be_mod_order:{data.hex()}', f'{f}:{le(vb % FIELDS[F], nb)}', f'{F}::from_be_bytes_mod_order on {L} bytes'))
                if L % 7 == 0: cases.append((f'{f}.le_mod_order_trait:{data.hex()}', f'{f}:{le(v % FIELDS[F], nb)}', f'PrimeField::from_le_bytes_mod_order for {F} on {L} bytes'))
    for F, f in (('Fq', 'q'), ('Fr', 'r'), ('Fp', 'p')):
        p_ = FIELDS[F]; nb = 48 if F == 'Fp' else 32
        for v in (0, 1, p_ - 1, p_, p_ + 1, 2 * p_ - 1, 2 ** (8 * nb) - 1, 2 ** (p_.bit_length()), 2 ** (p_.bit_length() - 1), p_ - 2 ** 64, p_ + 2 ** 64, (0x12ab655e9a2ca556 << 192) if F == 'Fq' else 7):
            if v >= 2 ** (8 * nb): continue
            hx = le(v, nb)
            if build == 'ark':
                cases.append((f'{f}.from_bigint:{hx}', ('some ' + hx) if v < p_ else 'none', f'{F}::from_bigint({v})'))
                cases.append((f'{f}.deser:{hx}', ('ok ' + hx) if v < p_ else 'err InvalidData', f'{F}::deserialize_compressed of {v}'))
                if v < p_:
                    cases.append((f'{f}.push:{hx} {f}.into_bigint', hx, f'{F}::into_bigint({v})')); cases.append((f'{f}.push:{hx} {f}.ser', hx, f'{F}::serialize_compressed({v})'))
                    cases.append((f'{f}.push:{hx} {f}.into_biguint', le(v, (max(v.bit_length(), 1) + 7) // 8) if v else '00', f'{F} -> BigUint')); cases.append((f'{f}.from_biguint:{hx}', f'{f}:{hx}', f'BigUint -> {F}'))
                    cases.append((f'{f}.from_str:{v}', 'ok ' + hx, f'{F}::from_str')); cases.append((f'{f}.push:{hx} {f}.display', str(v) if v else '', f'{F} Display'))
        if build == 'ark':
            # decimal strings with structure a digit loop can get wrong: every length up to beyond the modulus, runs of trailing / inner /
            # leading zeros (chunked accumulation), values at and beyond the modulus (reduced, not rejected), non-digits
            strs = ['1' + '0' * k for k in range(0, 2 * len(str(p_)), 1)] + ['3' + '0' * k + '7' for k in range(0, 80, 3)] + ['9' * k for k in range(1, 100, 7)]
            strs += ['0' * k + '12' for k in (1, 15, 16, 17, 31, 32, 33, 64)] + ['12345678901234567890' * k + '0' * j for k in (1, 2, 3) for j in (0, 4, 8, 12, 13, 16, 19, 20)]
            strs += [str(p_), str(p_ + 1), str(2 * p_ + 5), str(p_ - 1) + '0', '', '0', '00', '7']
            for st_ in strs:
                cases.append((f'{f}.from_str:{st_}', 'ok ' + le(int(st_ or '0') % p_, nb), f'{F}::from_str on the {len(st_)}-digit string {st_[:24]}{"..." if len(st_) > 24 else ""}'))
            for st_ in ('12a', '-1', '+1', '1_000', '0x10', '1.0', '١'):
                cases.append((f'{f}.from_str:{st_}', 'err', f'{F}::from_str rejects {st_!r}'))
        cs = [(0, 1), (1, 0), (5, 5), (p_ - 1, 1), (2 ** 64, 2 ** 64 - 1), (2 ** 128, 2 ** 64), (3 << 200, 4 << 192)]
        for a, b in cs:
            cases.append((f'{f}.push:{le(a, nb)} {f}.push:{le(b, nb)} {f}.cmp', 'Less' if a < b else ('Equal' if a == b else 'Greater'), f'{F}: cmp({a}, {b})'))
    for v in (0, 1, Q - 1, Q, Q + 1, R - 1, R, R + 1, 2 ** 253, 2 ** 256 - 1, 2 ** 252):
        if v >= 2 ** 256: continue
        b = le(v, 32)
        cases.append((f'checked:{b}', ('ok:' + b if v < Q else 'err') + ' ' + ('ok:' + b if v < R else 'err'), f'Fq/Fr::from_bytes_checked({v})'))
    PPm = FIELDS['Fp']
    for v in (0, 1, PPm - 1, PPm, PPm + 1, 2 ** 384 - 1, 2 ** 377):
        b = le(v, 48); cases.append((f'checked:{b}', 'ok:' + b if v < PPm else 'err', f'Fp::from_bytes_checked({v})'))
    for F, f in (('Fq', 'q'), ('Fr', 'r'), ('Fp', 'p')):
        nb = 48 if F == 'Fp' else 32
        for v in (0, 1, 2 ** 28, 2 ** 32 - 1, 2 ** 32, 2 ** 63, 2 ** 64 - 1):
            cases.append((f'{f}.from_u64:{le(v, 8)}', f'{f}:{le(v, nb)}', f'{F}::from({v}u64)'))
        for v in (0, 2 ** 64, 2 ** 92 + 2 ** 28, 2 ** 128 - 1):
            cases.append((f'{f}.from_u128:{le(v, 16)}', f'{f}:{le(v % FIELDS[F], nb)}', f'{F}::from({v}u128)'))
    return cases

def bls_cases(build):
    if build != 'ark': return []
    from .poly import FIELDS
    PPm = FIELDS['Fp']
    cases = [('bls:gen', 'g1=true g2=true', 'engine generators equal the reference'), ('bls:frob', 'same', 'frobenius maps of Fp2/Fp6/Fp12 for k = 0..12 equal the reference')]
    for k in (1, 2, 3, 12345, Q - 1, 2 ** 200 + 17):
        cases.append((f'bls:mul,{le(k, 32)}', 'g1=true g2=true', f'[{k}]G1, [{k}]G2 equal the reference'))
        cases.append((f'bls:cofactor,{le(k, 32)}', 'g1=true g2=true inverse=true', f'cofactor methods on [{k}]G'))
    for a, b in ((1, 1), (2, 3), (12345, 6789)):
        cases.append((f'bls:pair,{le(a, 32)},{le(b, 32)}', 'same=true nondegenerate=true', f'pairing e([{a}]G1, [{b}]G2) equals the reference'))
    # encodings: infinity with x spelled as p (non-canonical), canonical infinity, x = p - 1 etc.
    inf_flag = 0x40
    for kind, n in (('g1', 48), ('g2', 96)):
        canon = bytearray(n); canon[-1] |= inf_flag
        cases.append((f'bls:deser,{kind},{bytes(canon).hex()}', 'same ok', f'{kind}: canonical point at infinity'))
        nc = bytearray(PPm.to_bytes(48, 'little') + bytes(n - 48)) if kind == 'g2' else bytearray(PPm.to_bytes(48, 'little'))
        nc[-1] |= inf_flag
        cases.append((f'bls:deser,{kind},{bytes(nc).hex()}', 'same err', f'{kind}: infinity flag with x = p (non-canonical)'))
        nc2 = bytearray((PPm + 1).to_bytes(48, 'little') + bytes(n - 48)); cases.append((f'bls:deser,{kind},{bytes(nc2).hex()}', 'same err', f'{kind}: x = p + 1'))
    one_gt = bytearray((1).to_bytes(48, 'little') + bytes(48 * 11)); cases.append((f'bls:deser,gt,{bytes(one_gt).hex()}', 'same ok', 'GT: the element 1'))
    bad_gt = bytearray((1).to_bytes(48, 'little') + PPm.to_bytes(48, 'little') + bytes(48 * 10)); cases.append((f'bls:deser,gt,{bytes(bad_gt).hex()}', 'same err', 'GT: 1 with a zero coefficient spelled as p'))
    return cases + conversion_cases(build)[-120:]

def r1cs_honest_cases(build):
    if build != 'ark': return []
    cases = []
    for b in byte_strings()[:60]:
        v = int.from_bytes(b, 'little')
        if v >= Q: continue
        d = decode_expect(b)
        if d.startswith('ok'): cases.append((f'r1cs:decode,{b.hex()}', f'sat=true native=ok:{d[3:]} value={d[3:]}', f'in-circuit decode of the valid encoding {v}'))
        else: cases.append((f'r1cs:decode,{b.hex()}', 'sat=false native=err value=-', f'in-circuit decode of the invalid encoding {v}'))
    for dv_ in (0, 1, 4, 2, 3, 5, Q - 1, spec.ZETA, 7, 9):
        cases.append((f'r1cs:isqrt,{QH(dv_)}', 'sat=true flag=' + str(replay.ref_sqrt_ratio(1, dv_)[0]).lower() + ' contract=true flag_matches_native=true', f'isqrt gadget on {dv_}'))
    for k in (0, 1, 2, 3, 5, 22, R - 1):
        for rep in '0123':
            h = enc_of_mul(k); cases.append((f'r1cs:encode,{le(k)},{rep}', f'sat=true value={h} native={h}', f'compress gadget on [{k}]B representation {rep}'))
    for r0 in (0, 1, Q - 1, 2, 3, 5, 11, spec.ZETA):
        h = ref_enc_hex(ref_elligator(r0 % Q)); cases.append((f'r1cs:elligator,{QH(r0)}', f'sat=true value={h} native={h}', f'elligator gadget on {r0}'))
    for op in ('add_vv', 'add_vr', 'sub_vv', 'sub_vr', 'addassign_v', 'addassign_r', 'subassign_v', 'subassign_r', 'double', 'negate'):
        for pre in '01':
            for a, b in ((3, 5), (5, 5), (7, 0)): cases.append((f'r1cs:ops,{op},{le(a)},{le(b)},{pre}', 'sat=true encoding_ok=true value_ok=true', f'ElementVar {op} on [{a}]B, [{b}]B, encoding forced before: {pre}'))
    import itertools
    for n in (1, 2, 3, 4):
        for seq in itertools.product('EN', repeat=n):
            for init in '01': cases.append((f'r1cs:lazy,{"".join(seq)},{init},{le(7)}', 'sat=true values_ok=true stable=true', f'lazy forcing sequence {"".join(seq)} from init {init}'))
    for k in (1, 5, 5 * 1000003):
        for rep in '0123': cases.append((f'r1cs:iszero,{le(k)},{rep}', 'sat=true is_zero=true eq_zero=true native=true', f'P - P with the same element held in representation {rep}'))
    for a, b in ((5, 7), (3, 11), (1, 1), (22, 25), (2, 9)):
        for mode in ('addsub', 'constrep', 'constrep1'):
            cases.append((f'r1cs:neq,{mode},{le(a)},{le(b)}', 'base=true native_equal=true not_equal_satisfied=false', f'enforce_not_equal on [{a}]B and the same element obtained as {mode} must be unsatisfiable'))
        cases.append((f'r1cs:neq,other,{le(a)},{le(a + b)}', 'base=true native_equal=false not_equal_satisfied=true', f'enforce_not_equal on [{a}]B and [{a + b}]B is satisfiable'))
    for k in (1, 2, 5, 7, 22):
        for rep in '0123': cases.append((f'r1cs:constant,{le(k)},{rep}', 'value_ok=true sum_ok=true sat=true', f'ElementVar::constant([{k}]B in representation {rep}) and constant + witness'))
    for a, b, c in ((3, 5, 0), (3, 5, 1), (0, 7, 1)): cases.append((f'r1cs:select,{le(a)},{le(b)},{c}', 'sat=true value_ok=true', f'conditionally_select({c}, [{a}]B, [{b}]B)'))
    for k in (1, 3, 5, 22): cases.append((f'r1cs:alias,{le(k)}', 'orig_ok=true dbl_ok=true diff_ok=true sat=true', f'doubling a clone of the variable holding [{k}]B leaves the original unchanged'))
    # completeness in the other direction: what the native decoder rejects, a gadget on variables allocated from that encoding rejects too
    for s_ in (1, 2, 4, 6, 10, 12, 3, 5):
        if decode_expect(le_bytes(s_)).startswith('err'): cases.append((f'r1cs:eqinvalid,{le(s_)}', 'sat=false native_valid=false', f'enforce_equal on two variables allocated from the invalid encoding {s_}'))
    return cases

def r1cs_adversarial_cases(build, obs=()):
    if build != 'ark': return []
    cases = []
    one = le(1); m1 = le(Q - 1)
    from .r1cs import KNOWN_ISQRT_KEY
    only_known = bool(obs) and all(o.key == KNOWN_ISQRT_KEY for o in obs)
    # the isqrt den = 0 case: hint (true, +-1)   (recorded as a known finding; replayed only for obligations carrying its key)
    for y in ((one, m1) if (only_known or not obs) else ()):
        cases.append((f'r1cs:isqrt,{le(0)},hint=1:{y}', ('re', r'^sat=false '), 'isqrt on den = 0 with the substituted hint (true, +-1) must not be satisfiable'))
        cases.append((f'r1cs:decode,{le(Q - 1)},hint=1:{y}', ('re', r'^sat=false '), 'in-circuit decode of s = q - 1 with the substituted hint (true, +-1) must not be satisfiable'))
    if only_known: return cases
    # den = 0 with the flag claimed false and a non-zero root (native: (false, 0))
    for y in (1, 2, 5, Q - 1):
        cases.append((f'r1cs:isqrt,{le(0)},hint=0:{le(y)}', ('re', r'^sat=false '), f'isqrt on den = 0 with the substituted hint (false, {y}) must not be satisfiable'))
    # honest prover on invalid encodings (non-square denominator, negative s)
    for b in byte_strings():
        v = int.from_bytes(b, 'little')
        if v >= Q: continue
        if decode_expect(b).startswith('err'): cases.append((f'r1cs:decode,{b.hex()}', ('re', r'^sat=false '), f'in-circuit decode of the invalid encoding {v} (honest hints)'))
    for s_ in (2, 4, 6, 10, 12):
        if decode_expect(le_bytes(s_)).startswith('err'):
            ws, y = replay.ref_sqrt_ratio(1, 1)
            cases.append((f'r1cs:decode,{le(s_)}', ('re', r'^sat=false '), f'in-circuit decode of the invalid encoding {s_}'))
    # a negative s with a second bit decomposition (s + q < 2^253): the non-canonical decomposition must be rejected
    B_ = ref_B()
    for k in (1, 2, 3, 5, 7, 11, 13, 22, 25, 30):
        s0 = int.from_bytes(bytes.fromhex(enc_of_mul(k)), 'little'); sneg = (Q - s0) % Q
        if sneg and sneg + Q < 2 ** 253: cases.append((f'r1cs:nonuniq,{le(sneg)}', 'honest=false attack=rejected', f'negative s = -encode([{k}]B) with the bit decomposition of s + q'))
    # off-curve / arbitrary witnessed coordinates
    for x, y in ((2, 3), (0, 0), (1, 1), (5, 0)): cases.append((f'r1cs:alloc,{le(x)},{le(y)}', 'sat=false', f'witness allocation with the off-curve coordinates ({x}, {y})'))
    B = ref_B()
    cases.append((f'r1cs:alloc,{le(2 * B[0] % Q)},{le(2 * B[1] % Q)}', 'sat=false', 'witness allocation with the scaled (off-curve) coordinates (2x, 2y) of the generator'))
    # on-curve points outside the group: the 4-torsion point (i, 0) and its translates Q + (i, 0) = (i y, i x)
    i4 = pow(spec.ZETA, 1 << 45, Q)          # zeta has order 2^47: zeta^(2^45) is a square root of -1
    assert i4 * i4 % Q == Q - 1
    zi = pow(B[2], -1, Q); bx, by = B[0] * zi % Q, B[1] * zi % Q
    for x, y, what in ((i4, 0, 'the 4-torsion point (i, 0)'), (i4 * by % Q, i4 * bx % Q, 'the generator translated by (i, 0)'), (Q - i4, 0, 'the 4-torsion point (-i, 0)')):
        cases.append((f'r1cs:alloc,{le(x)},{le(y)}', 'sat=false', f'Element witness allocation with the on-curve non-group coordinates of {what}'))
        cases.append((f'r1cs:allocaff,{le(x)},{le(y)}', 'sat=false', f'AffinePoint witness allocation with the on-curve non-group coordinates of {what}'))
    for x, y in ((2, 3), (1, 1)): cases.append((f'r1cs:allocaff,{le(x)},{le(y)}', 'sat=false', f'AffinePoint witness allocation with the off-curve coordinates ({x}, {y})'))
    # enforce_not_equal must be unsatisfiable on one element reached through two computations (possibly two coset representatives)
    for a, b in ((5, 7), (3, 11), (1, 1), (22, 25), (2, 9)):
        for mode in ('addsub', 'constrep', 'constrep1'):
            cases.append((f'r1cs:neq,{mode},{le(a)},{le(b)}', 'base=true native_equal=true not_equal_satisfied=false', f'enforce_not_equal on [{a}]B and the same element obtained as {mode} must be unsatisfiable'))
    # the same invalid encoding allocated twice from a bare field element and compared
    for s_ in (1, 2, 4, 6, 10, 12, 3, 5):
        if decode_expect(le_bytes(s_)).startswith('err'): cases.append((f'r1cs:eqinvalid,{le(s_)}', 'sat=false native_valid=false', f'enforce_equal on two variables allocated from the invalid encoding {s_}'))
    return cases
def shape_cases(build, obs=()):
    """C15: constraint-system shape of every gadget across structured inputs and in setup mode; public-input clause"""
    gadgets = ["isqrt", "is_negative", "is_nonnegative", "abs", "decompress", "elligator", "compress", "alloc_witness", "alloc_input", "alloc_constant",
               "alloc_affine_witness", "alloc_from_field", "add", "add_ref", "sub", "add_assign", "sub_assign", "add_native", "sub_native", "negate", "double", "is_eq",
               "enforce_equal_cond", "enforce_not_equal_cond", "select", "to_bits", "to_bytes", "from_field_then_compress"]
    cases = [(f'shape:shape,{g}', ('re', r'^same '), f'gadget {g}: variables and constraint matrices over 14 structured inputs and in setup mode') for g in gadgets]
    cases += [(f'shape:pubinput,{i}', 'inst=2 value_ok=true tcf_ok=true sat=true', f'public-input allocation of structured element #{i}') for i in range(7)]
    cases += [(f'shape:pubinput_aff,{i}', 'ok=true inst=2 value_ok=true sat=true', f'public-input allocation (from an AffinePoint) of structured element #{i}') for i in range(7)]
    return cases

def le_bytes(v): return v.to_bytes(32, 'little')

BATTERIES = {
    'C15': lambda b, obs=(): shape_cases(b, obs) + r1cs_honest_cases(b),
    'C13': lambda b: r1cs_honest_cases(b),
    'C14': r1cs_adversarial_cases,
    'C16': lambda b, obs=(): ord_cases(b, obs) + deser_mode_cases(b) + [c for c in field_cases(b) if c[0].startswith('p.')] + bls_cases(b),
    'C10': lambda b, obs=(): kernel_cases(b, obs) + field_cases(b),
    'C11': lambda b, obs=(): kernel_cases(b, obs) + ord_cases(b, obs) + deser_mode_cases(b) + conversion_cases(b),
    'C12': lambda b, obs=(): kernel_cases(b, obs) + decode_cases(b) + encode_cases(b)[:300] + elligator_cases(b) + group_cases(b)[:200] + smul_cases(b)[:150] + coherence_cases(b)[:150] + const_cases(b) + field_cases(b)[:400] + conversion_cases(b),
    'C01': lambda b: roundtrip_cases(b),
    'C09': sqrt_cases,
    'C06': lambda b: constructor_cases(b),
    'C05': lambda b: smul_cases(b),
    'C08': lambda b: coherence_cases(b),
    'C17': lambda b: const_cases(b) + const_semantic_cases(b),
    'C02': lambda b: decode_cases(b) + funnel_cases(b) + sqrt_cases(b)[:60] + conversion_cases(b)[-80:],
    'C03': lambda b: encode_cases(b),
    'C04': lambda b: group_cases(b),
    'C07': lambda b, obs=(): elligator_cases(b) + sqrt_cases(b, obs),
}

def reproduce(prop, obs):
    """attach a reproduced replay to violated obligations; downgrade the others"""
    cands = [o for o in obs if o.status == 'violated' and not (o.model or {}).get('replay')]
    if not cands: return
    by_build = {}
    for o in cands:
        b = 'ark' if o.name.startswith(('ark:', 'r1cs:')) else ('min' if o.name.startswith('min:') else (o.model or {}).get('build', 'ark'))
        by_build.setdefault((b, o.key), []).append(o)
    for (build, _key), os_ in by_build.items():
        hit = None; err = None
        bat = BATTERIES.get(prop)
        if bat is None: err = 'no replay battery for this property'
        else:
            try:
                import inspect
                cases = bat(build, os_) if len(inspect.signature(bat).parameters) > 1 else bat(build)
                if prop not in ('C10', 'C11', 'C12') and any('[field layer]' in o.name or (o.model or {}).get('kind') in ('kernel', 'w-u32') or o.name.startswith('K:') for o in os_):
                    # a candidate in the field layer below this property: scenarios aimed at the field operation come first
                    cases = kernel_cases(build, os_) + ord_cases(build, os_) + field_cases(build) + conversion_cases(build) + cases
                if build == 'ark' and any((o.model or {}).get('kind') in ('conversion', 'constructor', 'negate') for o in os_):
                    extra_c = [c for c in encode_cases(build) if any(t in c[0] for t in ('affref', 'affinto', 'elref', 'elval', 'gdouble', ' aff '))] + constructor_cases(build)
                    cases = extra_c + [c for c in cases if c not in extra_c]
                if any((o.model or {}).get('kind') in ('funnel', 'funnel-panic') for o in os_):
                    fc = funnel_cases(build); cases = fc + [c for c in cases if c not in fc]
                if any((o.model or {}).get('kind') == 'min_select' for o in os_):
                    # the constant-time ladder is the public route through Element::conditional_select (minimal build)
                    sc = [c for c in smul_cases('min') if 'ladder_ct' in c[0]]; cases = sc + [c for c in cases if c not in sc]
                for profile in ('dev', 'release') if common.tier() == 'thorough' else ('dev',):
                    hit = run_cases(build, cases, profile)
                    if hit: break
            except Exception as e:
                err = f'replay failed to run: {type(e).__name__}: {str(e)[-800:]}'
        if hit:
            hit['property'] = prop
            hit['symbolic_candidates'] = [{'obligation': o.name, 'detail': o.detail[:300]} for o in os_[:8]]
            path = replay.write_replay(prop, hit)
            for o in os_:
                o.model = dict(o.model or {}); o.model['replay'] = path; o.model['native'] = {k: hit[k] for k in ('cmd', 'expected', 'got', 'what')}
        else:
            for o in os_:
                o.status = 'inconclusive'
                o.detail = 'solver candidate NOT reproduced natively (' + (err or f'{len(cases)} concrete scenarios agree with the reference') + '): ' + o.detail


def battery_after_inconclusive(prop, obs):
    """run the property's native battery when the solver verdict is inconclusive; returns [] or one violated Ob with a replay"""
    import inspect
    from .common import Ob
    if prop in ('C14',): return []        # its battery is built from solver candidates and contains the known finding
    bat = BATTERIES.get(prop)
    if bat is None: return []
    inc = [o for o in obs if o.status == 'inconclusive']
    builds = []
    for o in inc:
        b = 'min' if (o.name.startswith(('min:', 'min ', 'K:')) or (o.model or {}).get('build') == 'min') else 'ark'
        if b not in builds: builds.append(b)
    for build in builds:
        cases = bat(build, inc) if len(inspect.signature(bat).parameters) > 1 else bat(build)
        hit = run_cases(build, cases, 'dev')
        if hit:
            hit['property'] = prop
            hit['symbolic_candidates'] = [{'obligation': o.name, 'detail': o.detail[:300], 'status': 'inconclusive'} for o in inc[:8]]
            path = replay.write_replay(prop, hit)
            return [Ob(f'{build}: native battery after an inconclusive solver verdict: {hit["what"]}', 'violated', f'expected {str(hit["expected"])[:120]}, native {str(hit["got"])[:120]}', 0,
                       'native differential replay (python reference)', None, {'kind': 'battery', 'build': build, 'replay': path, 'native': {k: hit[k] for k in ('cmd', 'expected', 'got', 'what')}})]
    return []


def battery_always(prop):
    """the native battery of a property on both builds, run after a fully discharged symbolic run; [] or one violated Ob with a replay"""
    import inspect, time
    from .common import Ob
    bat = BATTERIES.get(prop)
    if bat is None: return []
    out = []
    for build in ('ark', 'min'):
        if prop in ('C13', 'C14', 'C15', 'C16') and build == 'min': continue
        t0 = time.time()
        cases = bat(build, []) if len(inspect.signature(bat).parameters) > 1 else bat(build)
        if prop == 'C14':
            # the scenarios of the recorded known finding (isqrt / decode with den = 0 and the hint (true, +-1)) are reported by the symbolic check under its key
            cases = [c for c in cases if not re.match(r'^r1cs:(isqrt|decode),[0-9a-f]{64},hint=1:', c[0])]
        if not cases: continue
        hit = run_cases(build, cases, 'dev')
        if hit:
            hit['property'] = prop; hit['symbolic_candidates'] = []
            path = replay.write_replay(prop, hit)
            return [Ob(f'{build}: native battery (differential safety net after a fully discharged symbolic run): {hit["what"]}', 'violated', f'expected {str(hit["expected"])[:120]}, native {str(hit["got"])[:120]}', time.time() - t0,
                       'native differential replay (python reference)', None, {'kind': 'battery', 'build': build, 'replay': path, 'native': {k: hit[k] for k in ('cmd', 'expected', 'got', 'what')}})]
        out.append(Ob(f'{build}: native battery of {len(cases)} scenarios agrees with the reference (safety net, not a solver verdict)', 'proved', '', time.time() - t0, 'native differential replay (python reference)', {'scenarios': len(cases)}))
    return out
