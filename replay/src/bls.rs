// differential commands: decaf377::Bls12_377 (the crate's engine over its own fields) against ark_bls12_377::Bls12_377 (reference)
#![allow(unused_imports, non_snake_case)]
use ark_ec::{pairing::Pairing, AffineRepr, CurveGroup, Group, short_weierstrass::SWCurveConfig, CurveConfig};
use ark_ff::{Field, PrimeField, BigInteger, Zero, One};
use ark_serialize::{CanonicalSerialize, CanonicalDeserialize};
type Ours = decaf377::Bls12_377;
type Ref = ark_bls12_377::Bls12_377;

fn ser<T: CanonicalSerialize>(t: &T) -> Vec<u8> { let mut v = vec![]; t.serialize_compressed(&mut v).unwrap(); v }
fn seru<T: CanonicalSerialize>(t: &T) -> Vec<u8> { let mut v = vec![]; t.serialize_uncompressed(&mut v).unwrap(); v }
fn limbs(b: &[u8]) -> Vec<u64> { b.chunks(8).map(|c| { let mut a = [0u8; 8]; a[..c.len()].copy_from_slice(c); u64::from_le_bytes(a) }).collect() }

pub fn run(arg: &str) -> String {
    let parts: Vec<&str> = arg.split(',').collect();
    match parts[0] {
        "gen" => {
            let a = ser(&<Ours as Pairing>::G1Affine::generator()) == ser(&<Ref as Pairing>::G1Affine::generator());
            let b = ser(&<Ours as Pairing>::G2Affine::generator()) == ser(&<Ref as Pairing>::G2Affine::generator());
            format!("g1={} g2={}", a, b)
        }
        "mul" => {
            let k = limbs(&hex::decode(parts[1]).unwrap());
            let a = ser(&<Ours as Pairing>::G1::generator().mul_bigint(&k).into_affine()) == ser(&<Ref as Pairing>::G1::generator().mul_bigint(&k).into_affine());
            let b = ser(&<Ours as Pairing>::G2::generator().mul_bigint(&k).into_affine()) == ser(&<Ref as Pairing>::G2::generator().mul_bigint(&k).into_affine());
            format!("g1={} g2={}", a, b)
        }
        "pair" => {
            let ka = limbs(&hex::decode(parts[1]).unwrap()); let kb = limbs(&hex::decode(parts[2]).unwrap());
            let p1 = <Ours as Pairing>::G1::generator().mul_bigint(&ka).into_affine(); let q1 = <Ours as Pairing>::G2::generator().mul_bigint(&kb).into_affine();
            let p2 = <Ref as Pairing>::G1::generator().mul_bigint(&ka).into_affine(); let q2 = <Ref as Pairing>::G2::generator().mul_bigint(&kb).into_affine();
            let e1 = Ours::pairing(p1, q1); let e2 = Ref::pairing(p2, q2);
            format!("same={} nondegenerate={}", ser(&e1) == ser(&e2), !e1.is_zero())
        }
        "frob" => {
            // frobenius_map(k) of a fixed pairing output, all k in 0..12, ours vs reference
            let e1 = Ours::pairing(<Ours as Pairing>::G1Affine::generator(), <Ours as Pairing>::G2Affine::generator()).0;
            let e2 = Ref::pairing(<Ref as Pairing>::G1Affine::generator(), <Ref as Pairing>::G2Affine::generator()).0;
            let mut bad = vec![];
            for k in 0..13usize {
                let mut a = e1; a.frobenius_map_in_place(k); let mut b = e2; b.frobenius_map_in_place(k);
                if ser(&a) != ser(&b) { bad.push(format!("fp12:{}", k)); }
                let mut a6 = e1.c0; a6.frobenius_map_in_place(k); let mut b6 = e2.c0; b6.frobenius_map_in_place(k);
                if ser(&a6) != ser(&b6) { bad.push(format!("fp6:{}", k)); }
                let mut a2 = e1.c0.c0; a2.frobenius_map_in_place(k); let mut b2 = e2.c0.c0; b2.frobenius_map_in_place(k);
                if ser(&a2) != ser(&b2) { bad.push(format!("fp2:{}", k)); }
            }
            if bad.is_empty() { "same".to_string() } else { format!("diff {}", bad.join(" ")) }
        }
        "cofactor" => {
            let k = limbs(&hex::decode(parts[1]).unwrap());
            let p1 = <Ours as Pairing>::G1::generator().mul_bigint(&k).into_affine(); let p2 = <Ref as Pairing>::G1::generator().mul_bigint(&k).into_affine();
            let q1 = <Ours as Pairing>::G2::generator().mul_bigint(&k).into_affine(); let q2 = <Ref as Pairing>::G2::generator().mul_bigint(&k).into_affine();
            let a = ser(&p1.mul_by_cofactor_inv()) == ser(&p2.mul_by_cofactor_inv()) && ser(&p1.mul_by_cofactor()) == ser(&p2.mul_by_cofactor());
            let b = ser(&q1.mul_by_cofactor_inv()) == ser(&q2.mul_by_cofactor_inv()) && ser(&q1.mul_by_cofactor()) == ser(&q2.mul_by_cofactor());
            let c = q1.mul_by_cofactor_inv().mul_by_cofactor() == q1 && p1.mul_by_cofactor_inv().mul_by_cofactor() == p1;
            format!("g1={} g2={} inverse={}", a, b, c)
        }
        "deser" => {
            // the same bytes offered to both engines' decoders: verdicts (and, when accepted, re-serialisations) agree
            let b = hex::decode(parts[2]).unwrap();
            match parts[1] {
                "g1" => { let x = <Ours as Pairing>::G1Affine::deserialize_compressed(&b[..]); let y = <Ref as Pairing>::G1Affine::deserialize_compressed(&b[..]);
                          format!("{}", match (x, y) { (Ok(p), Ok(q)) => if ser(&p) == ser(&q) { "same ok" } else { "diff value" }, (Err(_), Err(_)) => "same err", (Ok(_), Err(_)) => "diff ours-accepts", (Err(_), Ok(_)) => "diff ours-rejects" }) }
                "g2" => { let x = <Ours as Pairing>::G2Affine::deserialize_compressed(&b[..]); let y = <Ref as Pairing>::G2Affine::deserialize_compressed(&b[..]);
                          format!("{}", match (x, y) { (Ok(p), Ok(q)) => if ser(&p) == ser(&q) { "same ok" } else { "diff value" }, (Err(_), Err(_)) => "same err", (Ok(_), Err(_)) => "diff ours-accepts", (Err(_), Ok(_)) => "diff ours-rejects" }) }
                "gt" => { let x = <Ours as Pairing>::TargetField::deserialize_compressed(&b[..]); let y = <Ref as Pairing>::TargetField::deserialize_compressed(&b[..]);
                          format!("{}", match (x, y) { (Ok(p), Ok(q)) => if ser(&p) == ser(&q) { "same ok" } else { "diff value" }, (Err(_), Err(_)) => "same err", (Ok(_), Err(_)) => "diff ours-accepts", (Err(_), Ok(_)) => "diff ours-rejects" }) }
                _ => panic!("HARNESS bls deser kind"),
            }
        }
        "serhex" => { // reference encodings, to build inputs for deser
            let k = limbs(&hex::decode(parts[1]).unwrap());
            format!("{} {}", hex::encode(ser(&<Ref as Pairing>::G1::generator().mul_bigint(&k).into_affine())), hex::encode(ser(&<Ref as Pairing>::G2::generator().mul_bigint(&k).into_affine())))
        }
        _ => panic!("HARNESS unknown bls command {}", arg),
    }
}
