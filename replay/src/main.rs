// Native replay of solver-found scenarios against the real decaf377 build (DESIGN §2.2 E5).
// Protocol: one command per stdin line, one result line per command on stdout:  `= <result>`  or  `! panic: <msg>`.
#![allow(unused_imports, dead_code, unused_variables, non_snake_case)]
use std::io::{self, BufRead, Write};
use std::panic;

mod cmds;
mod forms;
#[cfg(feature = "ark")]
mod bls;
#[cfg(feature = "ark")]
mod r1cs;
#[cfg(feature = "ark")]
mod shape;

fn main() {
    panic::set_hook(Box::new(|_| {}));
    let stdin = io::stdin();
    let stdout = io::stdout();
    for line in stdin.lock().lines() {
        let line = line.unwrap();
        let line = line.trim().to_string();
        if line.is_empty() { continue; }
        let parts: Vec<String> = line.split_whitespace().map(|s| s.to_string()).collect();
        let r = panic::catch_unwind(|| cmds::run(&parts));
        let mut out = stdout.lock();
        match r {
            Ok(s) => writeln!(out, "= {}", s).unwrap(),
            Err(e) => {
                let msg = if let Some(s) = e.downcast_ref::<&str>() { s.to_string() } else if let Some(s) = e.downcast_ref::<String>() { s.clone() } else { "?".to_string() };
                writeln!(out, "! panic: {}", msg.replace('\n', " ")).unwrap()
            }
        }
        out.flush().unwrap();
    }
}
