// R1CS gadget scenarios against the real build (feature r1cs), honest and with substituted hints (cfg decaf377_verif hooks).
#![allow(unused_imports, non_snake_case, unused_variables)]
use ark_ec::{CurveGroup, Group};
use ark_ff::{Field, PrimeField, Zero, One};
use ark_r1cs_std::{alloc::AllocVar, eq::EqGadget, R1CSVar, groups::CurveVar, fields::fp::FpVar};
use ark_relations::r1cs::{ConstraintSystem, ConstraintSystemRef};
use decaf377::{Element, Encoding, Fq, Fr};
use decaf377::r1cs::{ElementVar, FqVar, fqvar_ext::FqVarExtension};
use std::convert::TryInto;

fn fq(h: &str) -> Fq { Fq::from_le_bytes_mod_order(&hex::decode(h).unwrap()) }
fn fr(h: &str) -> Fr { Fr::from_le_bytes_mod_order(&hex::decode(h).unwrap()) }
fn hx(x: &Fq) -> String { hex::encode(x.to_bytes_le()) }
fn enc(e: &Element) -> String { hex::encode(e.vartime_compress().0) }

fn parse_hint(parts: &[&str]) -> Option<(bool, Fq)> {
    for p in parts { if let Some(r) = p.strip_prefix("hint=") { let v: Vec<&str> = r.split(':').collect(); return Some((v[0] == "1", fq(v[1]))); } }
    None
}
#[cfg(decaf377_verif)]
fn set_hint(h: Option<(bool, Fq)>) { decaf377::r1cs::verif_hooks::set_isqrt_hint(h); }
#[cfg(not(decaf377_verif))]
fn set_hint(h: Option<(bool, Fq)>) { if h.is_some() { panic!("HARNESS hooks not compiled in"); } }

fn elem(k: &str, rep: &str) -> Element {
    let k = fr(k); let b = Element::GENERATOR;
    match rep { "0" => b * k, "1" => -(b * (-k)), "2" => (b * (-k)) * (-Fr::one()), "3" => { let e = b * k; let a = e.into_affine(); a.into() }, _ => panic!("HARNESS rep") }
}

pub fn run(arg: &str) -> String {
    let parts: Vec<&str> = arg.split(',').collect();
    let cs: ConstraintSystemRef<Fq> = ConstraintSystem::new_ref();
    match parts[0] {
        "decode" => {
            let s = fq(parts[1]);
            set_hint(parse_hint(&parts));
            let s_var = FqVar::new_witness(cs.clone(), || Ok(s)).unwrap();
            let r = ElementVar::decompress_from_field(s_var);
            set_hint(None);
            let sat = r.is_ok() && cs.is_satisfied().unwrap();
            let b: [u8; 32] = s.to_bytes_le();
            let native = Encoding(b).vartime_decompress();
            let val = match (&r, sat) { (Ok(v), true) => { let v2 = v.clone(); std::panic::catch_unwind(std::panic::AssertUnwindSafe(move || v2.value().map(|e| enc(&e)).unwrap_or("-".into()))).unwrap_or("invalid-point".into()) }, _ => "-".into() };
            format!("sat={} native={} value={}", sat, match &native { Ok(e) => format!("ok:{}", enc(e)), Err(_) => "err".into() }, val)
        }
        "isqrt" => {
            let d = fq(parts[1]);
            set_hint(parse_hint(&parts));
            let d_var = FqVar::new_witness(cs.clone(), || Ok(d)).unwrap();
            let r = d_var.isqrt();
            set_hint(None);
            let sat = r.is_ok() && cs.is_satisfied().unwrap();
            let (w, y) = match &r { Ok((w, y)) => (w.value().unwrap(), y.value().unwrap()), _ => (false, Fq::ZERO) };
            let contract = if d == Fq::ZERO { !w && y == Fq::ZERO } else if w { y * y * d == Fq::ONE } else { y * y * d == decaf377::ZETA };
            let (nw, ny) = Fq::sqrt_ratio_zeta(&Fq::ONE, &d);
            format!("sat={} flag={} contract={} flag_matches_native={}", sat, w, contract, w == nw)
        }
        "encode" => {
            let e = elem(parts[1], parts[2]);
            let v = ElementVar::new_witness(cs.clone(), || Ok(e)).unwrap();
            let s = v.compress_to_field().unwrap();
            let sat = cs.is_satisfied().unwrap();
            format!("sat={} value={} native={}", sat, hx(&s.value().unwrap()), hx(&e.vartime_compress_to_field()))
        }
        "elligator" => {
            let r0 = fq(parts[1]);
            let r_var = FqVar::new_witness(cs.clone(), || Ok(r0)).unwrap();
            let v = ElementVar::encode_to_curve(&r_var).unwrap();
            let sat = cs.is_satisfied().unwrap();
            format!("sat={} value={} native={}", sat, enc(&v.value().unwrap()), enc(&Element::encode_to_curve(&r0)))
        }
        "ops" => {
            let (a, b) = (elem(parts[2], "0"), elem(parts[3], "0"));
            let pre = parts[4] == "1";
            let mut p = ElementVar::new_witness(cs.clone(), || Ok(a)).unwrap();
            let q = ElementVar::new_witness(cs.clone(), || Ok(b)).unwrap();
            if pre { let _ = p.compress_to_field().unwrap(); }
            let (res, want): (ElementVar, Element) = match parts[1] {
                "add_vv" => (p + q, a + b), "add_vr" => (p + &q, a + b), "sub_vv" => (p - q, a - b), "sub_vr" => (p - &q, a - b),
                "addassign_v" => { p += q; (p, a + b) } "addassign_r" => { p += &q; (p, a + b) }
                "subassign_v" => { p -= q; (p, a - b) } "subassign_r" => { p -= &q; (p, a - b) }
                "double" => { p.double_in_place().unwrap(); (p, a + a) } "negate" => (p.negate().unwrap(), -a),
                _ => panic!("HARNESS op"),
            };
            let s = res.compress_to_field().unwrap();
            let sat = cs.is_satisfied().unwrap();
            format!("sat={} encoding_ok={} value_ok={}", sat, s.value().unwrap() == want.vartime_compress_to_field(), res.value().unwrap() == want)
        }
        "lazy" => {
            // init: 0 = variable allocated from an element, 1 = from an encoding; seq over E (value / element) and N (compress_to_field)
            let e = elem(parts[3], "0");
            let v = if parts[2] == "0" { ElementVar::new_witness(cs.clone(), || Ok(e)).unwrap() } else { <ElementVar as AllocVar<Fq, Fq>>::new_witness(cs.clone(), || Ok(e.vartime_compress_to_field())).unwrap() };
            let mut ok = true; let mut counts = vec![];
            for c in parts[1].chars() {
                match c { 'E' => { ok &= v.value().unwrap() == e; } 'N' => { ok &= v.compress_to_field().unwrap().value().unwrap() == e.vartime_compress_to_field(); } _ => panic!("HARNESS seq") }
                counts.push(cs.num_constraints());
            }
            let n = counts.len();
            let stable = n < 3 || counts[n - 1] == counts[n - 2] || parts[1].chars().take(n - 1).collect::<std::collections::HashSet<_>>().len() < 2;
            format!("sat={} values_ok={} stable={}", cs.is_satisfied().unwrap(), ok, stable)
        }
        "iszero" => {
            // identity representatives inside the circuit: P - P' where P' is the same element held as a different variable
            let e = elem(parts[1], "0"); let e2 = elem(parts[1], parts[2]);
            let p = ElementVar::new_witness(cs.clone(), || Ok(e)).unwrap();
            // a constant keeps the inner curve point as given (any coset representative); a witness is re-derived from its encoding
            let q = ElementVar::new_constant(cs.clone(), e2).unwrap();
            let d = p - q;
            let z = d.is_zero().unwrap().value().unwrap();
            let z2 = d.is_eq(&ElementVar::zero()).unwrap().value().unwrap();
            format!("sat={} is_zero={} eq_zero={} native={}", cs.is_satisfied().unwrap(), z, z2, (e - e2).is_identity())
        }
        "nonuniq" => {
            // adversarial bit decomposition: synthesise decode(s) honestly, then replace the 253 witnessed bits of s by the bits
            // of s + q (another representative of the same residue) and ask whether the constraints are satisfied
            let s = fq(parts[1]);
            let s_var = FqVar::new_witness(cs.clone(), || Ok(s)).unwrap();
            let r = ElementVar::decompress_from_field(s_var);
            let honest = r.is_ok() && cs.is_satisfied().unwrap();
            let sv = num_bigint::BigUint::from_bytes_le(&s.to_bytes_le());
            let qv = num_bigint::BigUint::from_bytes_le(&hex::decode("01000000000080110a010000d0fe76aa5901b0375c1e4db46056a52c9a5e65ab12").unwrap_or(vec![]));
            let q: num_bigint::BigUint = Fq::MODULUS.into();
            let alt = &sv + &q;
            if alt.bits() > 253 { return format!("honest={} attack=not-applicable", honest); }
            let bits_of = |v: &num_bigint::BigUint| -> Vec<bool> { (0..253).map(|i| v.bit(i as u64)).collect() };
            let (sb, ab) = (bits_of(&sv), bits_of(&alt));
            let mut found = false;
            {
                let mut csm = cs.borrow_mut().unwrap();
                let w = &mut csm.witness_assignment;
                let n = w.len();
                let mut i = 0;
                while i + 253 <= n {
                    if (0..253).all(|j| w[i + j] == if sb[j] { Fq::ONE } else { Fq::ZERO }) {
                        for j in 0..253 { w[i + j] = if ab[j] { Fq::ONE } else { Fq::ZERO }; }
                        found = true; i += 253;
                    } else { i += 1; }
                }
            }
            let sat = found && cs.is_satisfied().unwrap();
            format!("honest={} attack={}", honest, if sat { "satisfied" } else { "rejected" })
        }
        #[cfg(decaf377_verif)]
        "alloc" => {
            // witness allocation with arbitrary (unchecked) coordinates
            let e = decaf377::r1cs::verif_hooks::element_from_affine_unchecked(fq(parts[1]), fq(parts[2]));
            let r = ElementVar::new_witness(cs.clone(), || Ok(e));
            let sat = r.is_ok() && cs.is_satisfied().unwrap();
            format!("sat={}", sat)
        }
        "neq" => {
            // enforce_not_equal / enforce_equal on the same element reached through two different computations (possibly two coset representatives)
            let (a, b) = (elem(parts[2], "0"), elem(parts[3], "0"));
            let p = ElementVar::new_witness(cs.clone(), || Ok(a)).unwrap();
            let q = match parts[1] {
                "addsub" => { let s = ElementVar::new_witness(cs.clone(), || Ok(a + b)).unwrap(); let t = ElementVar::new_witness(cs.clone(), || Ok(b)).unwrap(); s - t }
                "constrep" => ElementVar::new_constant(cs.clone(), elem(parts[2], "2")).unwrap(),
                "constrep1" => ElementVar::new_constant(cs.clone(), elem(parts[2], "1")).unwrap(),
                "other" => ElementVar::new_witness(cs.clone(), || Ok(b)).unwrap(),
                _ => panic!("HARNESS neq mode"),
            };
            let native_equal = match parts[1] { "other" => a == b, _ => true };
            let base = cs.is_satisfied().unwrap();
            p.enforce_not_equal(&q).unwrap();
            let sat_neq = cs.is_satisfied().unwrap();
            format!("base={} native_equal={} not_equal_satisfied={}", base, native_equal, sat_neq)
        }
        "constant" => {
            let e = elem(parts[1], parts[2]);
            let v = <ElementVar as CurveVar<Element, Fq>>::constant(e);
            let w = ElementVar::new_witness(cs.clone(), || Ok(Element::GENERATOR)).unwrap();
            let sum = v.clone() + w;
            let val = std::panic::catch_unwind(std::panic::AssertUnwindSafe(|| v.value().map(|x| x == e).unwrap_or(false))).unwrap_or(false);
            let sum_ok = std::panic::catch_unwind(std::panic::AssertUnwindSafe(|| sum.value().map(|x| x == e + Element::GENERATOR).unwrap_or(false))).unwrap_or(false);
            format!("value_ok={} sum_ok={} sat={}", val, sum_ok, cs.is_satisfied().unwrap())
        }
        #[cfg(decaf377_verif)]
        "allocaff" => {
            // AffinePoint witness allocation with arbitrary (unchecked) coordinates
            let e = decaf377::r1cs::verif_hooks::element_from_affine_unchecked(fq(parts[1]), fq(parts[2]));
            let a = e.into_affine();
            let r = <ElementVar as AllocVar<<Element as CurveGroup>::Affine, Fq>>::new_witness(cs.clone(), || Ok(a));
            let sat = r.is_ok() && cs.is_satisfied().unwrap();
            format!("sat={}", sat)
        }
        "eqinvalid" => {
            // two variables allocated from the same bare field element, compared without any other use
            let s = fq(parts[1]);
            let p = <ElementVar as AllocVar<Fq, Fq>>::new_witness(cs.clone(), || Ok(s)).unwrap();
            let q = <ElementVar as AllocVar<Fq, Fq>>::new_witness(cs.clone(), || Ok(s)).unwrap();
            let r = p.enforce_equal(&q);
            let sat = r.is_ok() && cs.is_satisfied().unwrap();
            let b: [u8; 32] = s.to_bytes_le();
            format!("sat={} native_valid={}", sat, Encoding(b).vartime_decompress().is_ok())
        }
        "alias" => {
            // clones are independent values: doubling a clone (or computing with it) must leave the original variable unchanged
            let e = elem(parts[1], "0");
            let p = ElementVar::new_witness(cs.clone(), || Ok(e)).unwrap();
            let mut q = p.clone();
            q.double_in_place().unwrap();
            let d = q.clone() - p.clone();
            let orig_ok = p.value().unwrap() == e; let dbl_ok = q.value().unwrap() == e + e; let diff_ok = d.value().unwrap() == e;
            format!("orig_ok={} dbl_ok={} diff_ok={} sat={}", orig_ok, dbl_ok, diff_ok, cs.is_satisfied().unwrap())
        }
        "select" => {
            let (a, b) = (elem(parts[1], "0"), elem(parts[2], "0"));
            let p = ElementVar::new_witness(cs.clone(), || Ok(a)).unwrap(); let q = ElementVar::new_witness(cs.clone(), || Ok(b)).unwrap();
            let c = ark_r1cs_std::boolean::Boolean::new_witness(cs.clone(), || Ok(parts[3] == "1")).unwrap();
            let r = <ElementVar as ark_r1cs_std::select::CondSelectGadget<Fq>>::conditionally_select(&c, &p, &q).unwrap();
            format!("sat={} value_ok={}", cs.is_satisfied().unwrap(), r.value().unwrap() == if parts[3] == "1" { a } else { b })
        }
        _ => panic!("HARNESS unknown r1cs command {}", arg),
    }
}
