// RPN command interpreter over elements, scalars and field elements of the real build.
#![allow(unused_imports, dead_code, unused_variables, non_snake_case, unused_mut)]
use decaf377::{Element, Encoding, Fq, Fr, Fp};
use std::convert::{TryFrom, TryInto};
use std::hash::{Hash, Hasher};
use std::collections::hash_map::DefaultHasher;

#[cfg(feature = "ark")]
use ark_ec::{AffineRepr, CurveGroup, Group, VariableBaseMSM, ScalarMul};
#[cfg(feature = "ark")]
use ark_ff::{Field, PrimeField, BigInteger, Zero, One, FftField};
#[cfg(feature = "ark")]
use ark_serialize::{CanonicalSerialize, CanonicalDeserialize};

#[cfg(feature = "ark")]
type Aff = <Element as CurveGroup>::Affine;

#[derive(Clone)]
pub enum V {
    E(Element),
    #[cfg(feature = "ark")]
    A(Aff),
    Q(Fq), R(Fr), P(Fp),
    Bytes(Vec<u8>),
    S(String),
    B(bool),
}

fn unhex(s: &str) -> Vec<u8> { hex::decode(s).expect("hex") }
fn h(b: &[u8]) -> String { hex::encode(b) }

fn fq(b: &[u8]) -> Fq { Fq::from_le_bytes_mod_order(b) }
fn fr(b: &[u8]) -> Fr { Fr::from_le_bytes_mod_order(b) }
fn fp(b: &[u8]) -> Fp { Fp::from_le_bytes_mod_order(b) }

fn pop_e(st: &mut Vec<V>) -> Element {
    match st.pop().expect("stack") {
        V::E(e) => e,
        #[cfg(feature = "ark")]
        V::A(a) => a.into(),
        _ => panic!("expected element"),
    }
}
#[cfg(feature = "ark")]
fn pop_a(st: &mut Vec<V>) -> Aff {
    match st.pop().expect("stack") { V::A(a) => a, V::E(e) => e.into(), _ => panic!("expected affine") }
}
fn pop_r(st: &mut Vec<V>) -> Fr { match st.pop().expect("stack") { V::R(x) => x, _ => panic!("expected Fr") } }
fn pop_q(st: &mut Vec<V>) -> Fq { match st.pop().expect("stack") { V::Q(x) => x, _ => panic!("expected Fq") } }
fn pop_p(st: &mut Vec<V>) -> Fp { match st.pop().expect("stack") { V::P(x) => x, _ => panic!("expected Fp") } }
fn pop_bytes(st: &mut Vec<V>) -> Vec<u8> { match st.pop().expect("stack") { V::Bytes(x) => x, _ => panic!("expected bytes") } }

fn hash64<T: Hash>(t: &T) -> u64 { let mut s = DefaultHasher::new(); t.hash(&mut s); s.finish() }

fn limbs_of(b: &[u8]) -> Vec<u64> {
    let mut v = vec![];
    for c in b.chunks(8) { let mut a = [0u8; 8]; a[..c.len()].copy_from_slice(c); v.push(u64::from_le_bytes(a)); }
    v
}

pub fn show(v: &V) -> String {
    match v {
        V::E(e) => format!("E:{}", h(&e.vartime_compress().0)),
        #[cfg(feature = "ark")]
        V::A(a) => { let e: Element = (*a).into(); format!("A:{}", h(&e.vartime_compress().0)) }
        V::Q(x) => format!("q:{}", h(&x.to_bytes_le())),
        V::R(x) => format!("r:{}", h(&x.to_bytes_le())),
        V::P(x) => format!("p:{}", h(&x.to_bytes_le())),
        V::Bytes(b) => format!("b:{}", h(b)),
        V::S(s) => s.clone(),
        V::B(b) => format!("{}", b),
    }
}

pub fn run(parts: &[String]) -> String {
    let mut st: Vec<V> = vec![];
    for tok in parts {
        let (op, arg) = match tok.find(':') { Some(i) => (&tok[..i], &tok[i + 1..]), None => (&tok[..], "") };
        match op {
            // ---------------------------------------------------------------- pushes
            "B" => st.push(V::E(Element::GENERATOR)),
            "I" => st.push(V::E(Element::IDENTITY)),
            #[cfg(feature = "ark")]
            "DEF" => st.push(V::E(Element::default())),
            "k" => st.push(V::R(fr(&unhex(arg)))),
            "q" => st.push(V::Q(fq(&unhex(arg)))),
            "p" => st.push(V::P(fp(&unhex(arg)))),
            "x" => st.push(V::Bytes(unhex(arg))),
            "dec" => { let b: [u8; 32] = unhex(arg).try_into().expect("32 bytes"); st.push(V::E(Encoding(b).vartime_decompress().expect("decodes"))) }
            // ---------------------------------------------------------------- decode verdicts
            "decode" => {
                let b: [u8; 32] = unhex(arg).try_into().expect("32 bytes");
                return match Encoding(b).vartime_decompress() { Ok(e) => format!("ok {}", h(&e.vartime_compress().0)), Err(e) => format!("err {:?}", e) };
            }
            "entry" => { let b = pop_bytes(&mut st); return crate::cmds::entry(arg, &b); }
            // ---------------------------------------------------------------- element ops
            "mul" => { let k = pop_r(&mut st); let e = pop_e(&mut st); st.push(V::E(e * k)) }
            "add" => { let b = pop_e(&mut st); let a = pop_e(&mut st); st.push(V::E(a + b)) }
            "sub" => { let b = pop_e(&mut st); let a = pop_e(&mut st); st.push(V::E(a - b)) }
            "neg" => { let a = pop_e(&mut st); st.push(V::E(-a)) }
            "ell" => { let r = fq(&unhex(arg)); st.push(V::E(Element::encode_to_curve(&r))) }
            "hash2" => { let v: Vec<&str> = arg.split(',').collect(); st.push(V::E(Element::hash_to_curve(&fq(&unhex(v[0])), &fq(&unhex(v[1]))))) }
            "form" => crate::forms::apply(arg, &mut st),
            "named" => crate::cmds::named(arg, &mut st),
            #[cfg(feature = "min")]
            "dbl" => { let a = pop_e(&mut st); st.push(V::E(a.double())) }
            #[cfg(feature = "min")]
            "ladder_ct" => { let e = pop_e(&mut st); st.push(V::E(e.scalar_mul(&limbs_of(&unhex(arg))))) }
            #[cfg(feature = "min")]
            "ladder_vt" => { let e = pop_e(&mut st); st.push(V::E(e.scalar_mul_vartime(&limbs_of(&unhex(arg))))) }
            #[cfg(feature = "ark")]
            "dbl" => { let mut a = pop_e(&mut st); a.double_in_place(); st.push(V::E(a)) }
            #[cfg(feature = "ark")]
            "aff" => { let a = pop_e(&mut st); st.push(V::A(a.into())) }
            #[cfg(feature = "ark")]
            "affref" => { let a = pop_e(&mut st); let r: Aff = (&a).into(); st.push(V::A(r)) }
            #[cfg(feature = "ark")]
            "affinto" => { let a = pop_e(&mut st); st.push(V::A(CurveGroup::into_affine(a))) }
            #[cfg(feature = "ark")]
            "elref" => { let a = pop_a(&mut st); let r: Element = (&a).into(); st.push(V::E(r)) }
            #[cfg(feature = "ark")]
            "elval" => { let a = pop_a(&mut st); let r: Element = a.into(); st.push(V::E(r)) }
            #[cfg(feature = "ark")]
            "gdouble" => { let a = pop_e(&mut st); st.push(V::E(Group::double(&a))) }
            #[cfg(feature = "ark")]
            "mulbig" => { let e = pop_e(&mut st); st.push(V::E(Group::mul_bigint(&e, limbs_of(&unhex(arg))))) }
            #[cfg(feature = "ark")]
            "amulbig" => { let a = pop_a(&mut st); st.push(V::E(AffineRepr::mul_bigint(&a, limbs_of(&unhex(arg))))) }
            // ---------------------------------------------------------------- element outputs
            "enc" => { let e = pop_e(&mut st); return h(&e.vartime_compress().0) }
            "fenc" => { let e = pop_e(&mut st); return h(&e.vartime_compress_to_field().to_bytes_le()) }
            "eq" => { let b = pop_e(&mut st); let a = pop_e(&mut st); return format!("{}", a == b) }
            "isid" => { let a = pop_e(&mut st); return format!("{}", a.is_identity()) }
            "valid" => { let v = st.pop().expect("stack"); return format!("{}", crate::cmds::is_valid(&v)) }
            "allvalid" => { let mut ok = true; let n = st.len(); while let Some(v) = st.pop() { ok &= crate::cmds::is_valid(&v); } return format!("{} {}", ok, n) }
            #[cfg(feature = "ark")]
            "iszero" => { let a = pop_e(&mut st); return format!("{}", a.is_zero()) }
            #[cfg(feature = "ark")]
            "aiszero" => { let a = pop_a(&mut st); return format!("{}", AffineRepr::is_zero(&a)) }
            #[cfg(feature = "ark")]
            "aeq" => { let b = pop_a(&mut st); let a = pop_a(&mut st); return format!("{}", a == b) }
            #[cfg(feature = "ark")]
            "hasheq" => { let b = pop_e(&mut st); let a = pop_e(&mut st); return format!("{}", hash64(&a) == hash64(&b)) }
            #[cfg(feature = "ark")]
            "ahasheq" => { let b = pop_a(&mut st); let a = pop_a(&mut st); return format!("{}", hash64(&a) == hash64(&b)) }
            #[cfg(feature = "ark")]
            "hash" => { let a = pop_e(&mut st); return format!("{}", hash64(&a)) }
            #[cfg(feature = "ark")]
            "ahash" => { let a = pop_a(&mut st); return format!("{}", hash64(&a)) }
            // ---------------------------------------------------------------- field ops (Fq unless prefixed)
            "fadd" => { let b = pop_q(&mut st); let a = pop_q(&mut st); st.push(V::Q(a + b)) }
            "fsub" => { let b = pop_q(&mut st); let a = pop_q(&mut st); st.push(V::Q(a - b)) }
            "fmul" => { let b = pop_q(&mut st); let a = pop_q(&mut st); st.push(V::Q(a * b)) }
            "fdiv" => { let b = pop_q(&mut st); let a = pop_q(&mut st); st.push(V::Q(a / b)) }
            "fneg" => { let a = pop_q(&mut st); st.push(V::Q(-a)) }
            "fsq" => { let a = pop_q(&mut st); st.push(V::Q(a.square())) }
            "finv" => { let a = pop_q(&mut st); return match a.inverse() { Some(x) => format!("some {}", h(&x.to_bytes_le())), None => "none".to_string() } }
            "fpower" => { let a = pop_q(&mut st); st.push(V::Q(a.power(limbs_of(&unhex(arg))))) }
            "fsel" => { use subtle::{Choice, ConditionallySelectable}; let b = pop_q(&mut st); let a = pop_q(&mut st); st.push(V::Q(Fq::conditional_select(&a, &b, Choice::from(arg.parse::<u8>().unwrap())))) }
            "fcteq" => { use subtle::ConstantTimeEq; let b = pop_q(&mut st); let a = pop_q(&mut st); return format!("{}", bool::from(a.ct_eq(&b))) }
            "feq" => { let b = pop_q(&mut st); let a = pop_q(&mut st); return format!("{}", a == b) }
            "fcmp" => { let b = pop_q(&mut st); let a = pop_q(&mut st); return format!("{:?}", a.cmp(&b)) }
            "sqrtcheck" => { let d = pop_q(&mut st); let n = pop_q(&mut st); let (w, y) = crate::cmds::sqrt_ratio(&n, &d);
                let zeta = decaf377::ZETA;
                let ok = if n == Fq::ZERO { w && y == Fq::ZERO } else if d == Fq::ZERO { !w && y == Fq::ZERO }
                         else if w { y * y * d == n } else { y * y * d == zeta * n };
                // squareness: w must be true iff n/d is a square; if a root of n/d exists the routine must have found it (checked through the contract: (false, y) with y^2 d = zeta n excludes squareness since zeta is a non-square)
                return format!("{}", if ok { "ok".to_string() } else { format!("bad flag={} y={}", w, h(&y.to_bytes_le())) }) }
            "sqrtratio" => { let d = pop_q(&mut st); let n = pop_q(&mut st); let (w, y) = crate::cmds::sqrt_ratio(&n, &d); return format!("{} {}", w, h(&y.to_bytes_le())) }
            "checked" => {
                let b = unhex(arg);
                return match arg.len() {
                    64 => { let a: [u8; 32] = b.clone().try_into().unwrap();
                            let q = match Fq::from_bytes_checked(&a) { Ok(x) => format!("ok:{}", h(&x.to_bytes_le())), Err(_) => "err".into() };
                            let r = match Fr::from_bytes_checked(&a) { Ok(x) => format!("ok:{}", h(&x.to_bytes_le())), Err(_) => "err".into() };
                            format!("{} {}", q, r) }
                    96 => { let a: [u8; 48] = b.try_into().unwrap(); match Fp::from_bytes_checked(&a) { Ok(x) => format!("ok:{}", h(&x.to_bytes_le())), Err(_) => "err".into() } }
                    _ => panic!("length") };
            }
            "modorder" => { let b = unhex(arg); return format!("{} {} {}", h(&fq(&b).to_bytes_le()), h(&fr(&b).to_bytes_le()), h(&fp(&b).to_bytes_le())) }
            "fout" => { return show(&st.pop().expect("stack")) }
            "const" => return crate::cmds::constant(arg),
            #[cfg(feature = "ark")]
            "bls" => return crate::bls::run(arg),
            #[cfg(feature = "ark")]
            "r1cs" => return crate::r1cs::run(arg),
            #[cfg(feature = "ark")]
            "shape" => return crate::shape::run(arg),
            _ => { if let Some(s) = crate::cmds::field_generic(op, arg, &mut st) { return s; } }
        }
    }
    match st.pop() { Some(v) => show(&v), None => "".to_string() }
}

#[cfg(feature = "ark")]
pub fn sqrt_ratio(n: &Fq, d: &Fq) -> (bool, Fq) { Fq::sqrt_ratio_zeta(n, d) }
#[cfg(feature = "min")]
pub fn sqrt_ratio(n: &Fq, d: &Fq) -> (bool, Fq) { Fq::non_arkworks_sqrt_ratio_zeta(n, d) }

#[cfg(feature = "ark")]
pub fn is_valid(v: &V) -> bool {
    let (e, on_curve): (Element, bool) = match v {
        V::E(e) => { let a: Aff = (*e).into(); (*e, on_curve_xy(&a)) }
        V::A(a) => ((*a).into(), on_curve_xy(a)),
        _ => panic!("expected a point"),
    };
    let back = e.vartime_compress().vartime_decompress();
    on_curve && back.map(|x| x == e).unwrap_or(false) && Group::mul_bigint(&e, Fr::MODULUS.0).is_identity()
}
#[cfg(feature = "ark")]
fn on_curve_xy(a: &Aff) -> bool {
    match a.xy() { None => true, Some((x, y)) => { let d = Fq::from(3021u64); let xx = *x * *x; let yy = *y * *y; yy - xx == Fq::ONE + d * xx * yy } }
}
#[cfg(feature = "min")]
pub fn is_valid(v: &V) -> bool {
    let e = match v { V::E(e) => *e, _ => panic!("expected a point") };
    let back = e.vartime_compress().vartime_decompress();
    back.map(|x| x == e).unwrap_or(false) && e.scalar_mul_vartime(&Fr::MODULUS_LIMBS).is_identity()
}

fn res_el(r: Result<Element, impl std::fmt::Debug>) -> String {
    match r { Ok(e) => format!("ok {}", h(&e.vartime_compress().0)), Err(e) => format!("err {:?}", e) }
}

pub fn entry(name: &str, b: &[u8]) -> String {
    match name {
        "try_from_slice" => res_el(Element::try_from(b)),
        "encoding_try_from_slice" => match Encoding::try_from(b) { Ok(e) => format!("ok {}", h(&e.0)), Err(e) => format!("err {:?}", e) },
        "encoding_slice_then_decompress" => match Encoding::try_from(b) { Ok(e) => res_el(e.vartime_decompress()), Err(e) => format!("err {:?}", e) },
        "try_from_array" => { let a: [u8; 32] = b.try_into().expect("32"); res_el(Element::try_from(a)) }
        "try_from_encoding" => { let a: [u8; 32] = b.try_into().expect("32"); res_el(Element::try_from(Encoding(a))) }
        "try_from_encoding_ref" => { let a: [u8; 32] = b.try_into().expect("32"); res_el(Element::try_from(&Encoding(a))) }
        #[cfg(feature = "ark")]
        "decompress_deprecated" => { let a: [u8; 32] = b.try_into().expect("32"); #[allow(deprecated)] res_el(Encoding(a).decompress()) }
        #[cfg(feature = "ark")]
        "deser_element" => match Element::deserialize_compressed(b) { Ok(e) => format!("ok {}", h(&e.vartime_compress().0)), Err(e) => format!("err {:?}", e) },
        #[cfg(feature = "ark")]
        "deser_affine" => match Aff::deserialize_compressed(b) { Ok(a) => { let e: Element = a.into(); format!("ok {}", h(&e.vartime_compress().0)) }, Err(e) => format!("err {:?}", e) },
        #[cfg(feature = "ark")]
        "deser_affine_unc" | "deser_element_unc" | "deser_affine_unchecked" | "deser_element_unchecked" => {
            // the other (Compress, Validate) modes: refusing (panic / Err) is fine, an element that is not a valid decaf element is not
            let bb = b.to_vec(); let nm = name.to_string();
            let r = std::panic::catch_unwind(move || -> Result<V, String> {
                match nm.as_str() {
                    "deser_affine_unc" => Aff::deserialize_uncompressed(&bb[..]).map(V::A).map_err(|e| format!("{:?}", e)),
                    "deser_element_unc" => Element::deserialize_uncompressed(&bb[..]).map(V::E).map_err(|e| format!("{:?}", e)),
                    "deser_affine_unchecked" => Aff::deserialize_compressed_unchecked(&bb[..]).map(V::A).map_err(|e| format!("{:?}", e)),
                    _ => Element::deserialize_compressed_unchecked(&bb[..]).map(V::E).map_err(|e| format!("{:?}", e)),
                }
            });
            match r { Err(_) => "refused".into(), Ok(Err(e)) => format!("err {}", e), Ok(Ok(v)) => format!("ok valid={}", is_valid(&v)) }
        }
        #[cfg(feature = "ark")]
        "deser_encoding" => match Encoding::deserialize_compressed(b) { Ok(e) => format!("ok {}", h(&e.0)), Err(e) => format!("err {:?}", e) },
        #[cfg(feature = "ark")]
        "from_random_bytes" => match Aff::from_random_bytes(b) { Some(a) => { let e: Element = a.into(); let back = e.vartime_compress().vartime_decompress();
                let valid = back.map(|x| x == e).unwrap_or(false) && Group::mul_bigint(&e, Fr::MODULUS.0).is_identity();
                format!("some {} valid={}", h(&e.vartime_compress().0), valid) }, None => "none".into() },
        _ => panic!("HARNESS unknown entry {}", name),
    }
}

pub fn named(name: &str, st: &mut Vec<V>) {
    match name {
        #[cfg(feature = "ark")]
        "negate" => { let a = pop_e(st); st.push(V::E(a.negate())) }
        #[cfg(feature = "ark")]
        "into_affine" => { let a = pop_e(st); st.push(V::A(a.into_affine())) }
        #[cfg(feature = "ark")]
        "ser_element" => { let a = pop_e(st); let mut v = vec![]; a.serialize_compressed(&mut v).unwrap(); st.push(V::Bytes(v)) }
        #[cfg(feature = "ark")]
        "ser_affine" => { let a = pop_a(st); let mut v = vec![]; a.serialize_compressed(&mut v).unwrap(); st.push(V::Bytes(v)) }
        #[cfg(feature = "ark")]
        "into_bytes" => { let a = pop_e(st); let b: [u8; 32] = a.into(); st.push(V::Bytes(b.to_vec())) }
        #[cfg(feature = "ark")]
        "into_encoding" => { let a = pop_e(st); let b: Encoding = a.into(); st.push(V::Bytes(b.0.to_vec())) }
        #[cfg(feature = "ark")]
        "into_encoding_ref" => { let a = pop_e(st); let b: Encoding = (&a).into(); st.push(V::Bytes(b.0.to_vec())) }
        #[cfg(feature = "ark")]
        "debug" => { let a = pop_e(st); st.push(V::S(format!("{:?}|{}", a, a))) }
        #[cfg(feature = "ark")]
        "adebug" => { let a = pop_a(st); st.push(V::S(format!("{:?}|{}", a, a))) }
        #[cfg(feature = "ark")]
        "sum_filter" => { let n = st.len(); let v: Vec<Element> = (0..n).map(|_| pop_e(st)).collect(); st.push(V::E(v.into_iter().rev().filter(|_| true).sum())) }
        #[cfg(feature = "ark")]
        "sum_ref_filter" => { let n = st.len(); let v: Vec<Element> = (0..n).map(|_| pop_e(st)).collect(); st.push(V::E(v.iter().rev().filter(|_| true).sum())) }
        #[cfg(feature = "ark")]
        "sum_takewhile" => { let n = st.len(); let v: Vec<Element> = (0..n).map(|_| pop_e(st)).collect(); st.push(V::E(v.into_iter().rev().take_while(|_| true).sum())) }
        #[cfg(feature = "ark")]
        "sum" => { let n = st.len(); let v: Vec<Element> = (0..n).map(|_| pop_e(st)).collect(); st.push(V::E(v.into_iter().rev().sum())) }
        #[cfg(feature = "ark")]
        "sum_ref" => { let n = st.len(); let v: Vec<Element> = (0..n).map(|_| pop_e(st)).collect(); st.push(V::E(v.iter().rev().sum())) }
        #[cfg(feature = "ark")]
        "sum_aff" => { let n = st.len(); let v: Vec<Aff> = (0..n).map(|_| pop_a(st)).collect(); st.push(V::E(v.into_iter().rev().sum())) }
        #[cfg(feature = "ark")]
        "sum_aff_ref" => { let n = st.len(); let v: Vec<Aff> = (0..n).map(|_| pop_a(st)).collect(); st.push(V::E(v.iter().rev().sum())) }
        #[cfg(feature = "ark")]
        "msm" => { // stack: P1 k1 P2 k2 ...
            let mut ps = vec![]; let mut ks = vec![];
            while !st.is_empty() { ks.push(pop_r(st)); ps.push(pop_e(st)); }
            ps.reverse(); ks.reverse();
            st.push(V::E(Element::vartime_multiscalar_mul(ks.iter(), ps.iter()))) }
        #[cfg(feature = "ark")]
        "vbmsm" => {
            let mut ps = vec![]; let mut ks = vec![];
            while !st.is_empty() { ks.push(pop_r(st)); ps.push(pop_e(st)); }
            ps.reverse(); ks.reverse();
            let bases = Element::batch_convert_to_mul_base(&ps);
            st.push(V::E(<Element as VariableBaseMSM>::msm(&bases, &ks).unwrap())) }
        #[cfg(feature = "ark")]
        "convert_batch" => { let n = st.len(); let v: Vec<Element> = (0..n).map(|_| pop_e(st)).collect(); let v: Vec<Element> = v.into_iter().rev().collect();
            for a in Element::batch_convert_to_mul_base(&v) { st.push(V::A(a)) } }
        #[cfg(feature = "ark")]
        "sample_stuck" => {
            // a generator that repeats one 64-bit word for a long prefix (a broken entropy source), then recovers: every element handed out must still be valid
            use ark_std::UniformRand; use ark_std::rand::RngCore;
            struct Stuck<R: RngCore> { left: usize, word: u64, inner: R }
            impl<R: RngCore> RngCore for Stuck<R> {
                fn next_u32(&mut self) -> u32 { self.next_u64() as u32 }
                fn next_u64(&mut self) -> u64 { if self.left > 0 { self.left -= 1; self.word } else { self.inner.next_u64() } }
                fn fill_bytes(&mut self, dest: &mut [u8]) { for c in dest.chunks_mut(8) { let w = self.next_u64().to_le_bytes(); c.copy_from_slice(&w[..c.len()]); } }
                fn try_fill_bytes(&mut self, dest: &mut [u8]) -> Result<(), ark_std::rand::Error> { self.fill_bytes(dest); Ok(()) }
            }
            for (n, w) in [(1400usize, 0x0f0f0f0f0f0f0f0fu64), (3000, 0x0f0f0f0f0f0f0f0f), (1400, 0x0101010101010101), (1400, 0x2222222222222222)] {
                let mut rng = Stuck { left: n, word: w, inner: ark_std::test_rng() };
                st.push(V::E(Element::rand(&mut rng)));
                let mut rng = Stuck { left: n, word: w, inner: ark_std::test_rng() };
                st.push(V::A(Aff::rand(&mut rng)));
            }
        }
        #[cfg(feature = "ark")]
        "sample" => { use ark_std::UniformRand; let mut rng = ark_std::test_rng(); for _ in 0..8 { st.push(V::E(Element::rand(&mut rng))); st.push(V::A(Aff::rand(&mut rng))); } }
        #[cfg(feature = "ark")]
        "normalize_batch" => { let n = st.len(); let v: Vec<Element> = (0..n).map(|_| pop_e(st)).collect(); let v: Vec<Element> = v.into_iter().rev().collect();
            for a in Element::normalize_batch(&v) { st.push(V::A(a)) } }
        _ => panic!("HARNESS unknown named {}", name),
    }
}

pub fn field_generic(op: &str, arg: &str, st: &mut Vec<V>) -> Option<String> {
    // generic three-field ops:  <F>.<op>  with F in q,r,p
    let (f, o) = match op.find('.') { Some(i) => (&op[..i], &op[i + 1..]), None => panic!("HARNESS unknown token {}", op) };
    macro_rules! fld { ($T:ty, $pop:ident, $V:path) => {{
        match o {
            "add" => { let b = $pop(st); let a = $pop(st); st.push($V(a + b)) }
            "sub" => { let b = $pop(st); let a = $pop(st); st.push($V(a - b)) }
            "mul" => { let b = $pop(st); let a = $pop(st); st.push($V(a * b)) }
            "div" => { let b = $pop(st); let a = $pop(st); st.push($V(a / b)) }
            "neg" => { let a = $pop(st); st.push($V(-a)) }
            "sq" => { let a = $pop(st); st.push($V(a.square())) }
            "inv" => { let a = $pop(st); return Some(match a.inverse() { Some(x) => format!("some {}", h(&x.to_bytes_le())), None => "none".to_string() }) }
            "sum" => { let n = st.len(); let v: Vec<$T> = (0..n).map(|_| $pop(st)).collect(); st.push($V(v.into_iter().rev().sum())) }
            "sum_ref" => { let n = st.len(); let v: Vec<$T> = (0..n).map(|_| $pop(st)).collect(); st.push($V(v.iter().rev().sum())) }
            "prod" => { let n = st.len(); let v: Vec<$T> = (0..n).map(|_| $pop(st)).collect(); st.push($V(v.into_iter().rev().product())) }
            "prod_ref" => { let n = st.len(); let v: Vec<$T> = (0..n).map(|_| $pop(st)).collect(); st.push($V(v.iter().rev().product())) }
            "push" => { st.push($V(<$T>::from_le_bytes_mod_order(&unhex(arg)))) }
            "cmp" => { let b = $pop(st); let a = $pop(st); return Some(format!("{:?}", a.cmp(&b))) }
            "eq" => { let b = $pop(st); let a = $pop(st); return Some(format!("{}", a == b)) }
            "hash" => { let a = $pop(st); return Some(format!("{}", hash64(&a))) }
            "from_u128" => { st.push($V(<$T>::from(u128::from_le_bytes(unhex(arg).try_into().unwrap())))) }
            "from_u64" => { st.push($V(<$T>::from(u64::from_le_bytes(unhex(arg).try_into().unwrap())))) }
            "form" => { crate::forms::apply_field(f, arg, st) }
            _ => return crate::cmds::field_ark(f, o, arg, st),
        }
        None
    }}}
    match f {
        "q" => fld!(Fq, pop_q, V::Q),
        "r" => fld!(Fr, pop_r, V::R),
        "p" => fld!(Fp, pop_p, V::P),
        _ => panic!("HARNESS unknown field prefix {}", f),
    }
}

#[cfg(feature = "min")]
pub fn field_ark(f: &str, o: &str, arg: &str, st: &mut Vec<V>) -> Option<String> { panic!("HARNESS unknown field op {}.{}", f, o) }

#[cfg(feature = "ark")]
pub fn field_ark(f: &str, o: &str, arg: &str, st: &mut Vec<V>) -> Option<String> {
    use ark_ff::LegendreSymbol;
    use ark_serialize::{CanonicalSerializeWithFlags, CanonicalDeserializeWithFlags, EmptyFlags};
    use ark_ec::twisted_edwards::TEFlags;
    use ark_ec::short_weierstrass::SWFlags;
    use std::str::FromStr;
    macro_rules! fld { ($T:ty, $pop:ident, $V:path, $N:expr) => {{
        match o {
            "pow" => { let a = $pop(st); st.push($V(a.pow(limbs_of(&unhex(arg))))) }
            "legendre" => { let a = $pop(st); return Some(match a.legendre() { LegendreSymbol::Zero => "0", LegendreSymbol::QuadraticResidue => "1", LegendreSymbol::QuadraticNonResidue => "-1" }.to_string()) }
            "sqrt" => { let a = $pop(st); return Some(match a.sqrt() { Some(x) => format!("some sq_ok={}", x.square() == a), None => "none".to_string() }) }
            "double" => { let a = $pop(st); st.push($V(a.double())) }
            "from_bigint" => { let l = limbs_of(&unhex(arg)); let mut a = [0u64; $N]; a.copy_from_slice(&l[..$N]);
                return Some(match <$T>::from_bigint(ark_ff::BigInt(a)) { Some(x) => format!("some {}", h(&x.to_bytes_le())), None => "none".to_string() }) }
            "into_bigint" => { let a = $pop(st); return Some(h(&a.into_bigint().to_bytes_le())) }
            "be_mod_order" => { st.push($V(<$T>::from_be_bytes_mod_order(&unhex(arg)))) }
            "le_mod_order_trait" => { st.push($V(<$T as PrimeField>::from_le_bytes_mod_order(&unhex(arg)))) }
            "deser_modes" => { let b = unhex(arg);
                use ark_serialize::{Compress, Validate};
                let mut out = vec![];
                for (c, v) in [(Compress::Yes, Validate::Yes), (Compress::No, Validate::Yes), (Compress::Yes, Validate::No), (Compress::No, Validate::No)] {
                    out.push(match <$T>::deserialize_with_mode(&b[..], c, v) { Ok(x) => format!("ok {}", h(&x.to_bytes_le())), Err(_) => "err".to_string() });
                }
                return Some(out.join(" | ")) }
            "deser" => { let b = unhex(arg); return Some(match <$T>::deserialize_compressed(&b[..]) { Ok(x) => format!("ok {}", h(&x.to_bytes_le())), Err(e) => format!("err {:?}", e) }) }
            "deser_te" => { let b = unhex(arg); return Some(match <$T>::deserialize_with_flags::<_, TEFlags>(&b[..]) { Ok((x, fl)) => format!("ok {} {:?}", h(&x.to_bytes_le()), fl), Err(e) => format!("err {:?}", e) }) }
            "deser_sw" => { let b = unhex(arg); return Some(match <$T>::deserialize_with_flags::<_, SWFlags>(&b[..]) { Ok((x, fl)) => format!("ok {} {:?}", h(&x.to_bytes_le()), fl), Err(e) => format!("err {:?}", e) }) }
            "ser" => { let a = $pop(st); let mut v = vec![]; a.serialize_compressed(&mut v).unwrap(); return Some(h(&v)) }
            "ser_te" => { let a = $pop(st); let mut v = vec![]; let fl = if arg == "1" { TEFlags::XIsNegative } else { TEFlags::XIsPositive }; a.serialize_with_flags(&mut v, fl).unwrap(); return Some(h(&v)) }
            "ser_sw" => { let a = $pop(st); let mut v = vec![]; let fl = match arg { "1" => SWFlags::YIsNegative, "2" => SWFlags::PointAtInfinity, _ => SWFlags::YIsPositive }; a.serialize_with_flags(&mut v, fl).unwrap(); return Some(h(&v)) }
            "from_str" => { return Some(match <$T>::from_str(arg) { Ok(x) => format!("ok {}", h(&x.to_bytes_le())), Err(_) => "err".to_string() }) }
            "display" => { let a = $pop(st); return Some(format!("{}", a)) }
            "from_biguint" => { let n = num_bigint::BigUint::from_bytes_le(&unhex(arg)); st.push($V(<$T>::from(n))) }
            "into_biguint" => { let a = $pop(st); let n: num_bigint::BigUint = a.into(); return Some(h(&n.to_bytes_le())) }
            "from_bigint_conv" => { let l = limbs_of(&unhex(arg)); let mut a = [0u64; $N]; a.copy_from_slice(&l[..$N]); st.push($V(<$T>::from(ark_ff::BigInt(a)))) }
            "is_zero" => { let a = $pop(st); return Some(format!("{}", a.is_zero())) }
            "is_one" => { let a = $pop(st); return Some(format!("{}", a.is_one())) }
            _ => panic!("HARNESS unknown field op {}.{}", f, o),
        }
        None
    }}}
    match f {
        "q" => fld!(Fq, pop_q, V::Q, 4),
        "r" => fld!(Fr, pop_r, V::R, 4),
        "p" => fld!(Fp, pop_p, V::P, 6),
        _ => None,
    }
}

fn le(l: &[u64]) -> String { let mut v = vec![]; for x in l { v.extend_from_slice(&x.to_le_bytes()); } h(&v) }

pub fn constant(name: &str) -> String {
    match name {
        "Fq::MODULUS_LIMBS" => le(&Fq::MODULUS_LIMBS), "Fr::MODULUS_LIMBS" => le(&Fr::MODULUS_LIMBS), "Fp::MODULUS_LIMBS" => le(&Fp::MODULUS_LIMBS),
        "Fq::MODULUS_MINUS_ONE_DIV_TWO_LIMBS" => le(&Fq::MODULUS_MINUS_ONE_DIV_TWO_LIMBS), "Fr::MODULUS_MINUS_ONE_DIV_TWO_LIMBS" => le(&Fr::MODULUS_MINUS_ONE_DIV_TWO_LIMBS), "Fp::MODULUS_MINUS_ONE_DIV_TWO_LIMBS" => le(&Fp::MODULUS_MINUS_ONE_DIV_TWO_LIMBS),
        "Fq::TRACE_LIMBS" => le(&Fq::TRACE_LIMBS), "Fr::TRACE_LIMBS" => le(&Fr::TRACE_LIMBS), "Fp::TRACE_LIMBS" => le(&Fp::TRACE_LIMBS),
        "Fq::TRACE_MINUS_ONE_DIV_TWO_LIMBS" => le(&Fq::TRACE_MINUS_ONE_DIV_TWO_LIMBS), "Fr::TRACE_MINUS_ONE_DIV_TWO_LIMBS" => le(&Fr::TRACE_MINUS_ONE_DIV_TWO_LIMBS), "Fp::TRACE_MINUS_ONE_DIV_TWO_LIMBS" => le(&Fp::TRACE_MINUS_ONE_DIV_TWO_LIMBS),
        "Fq::MODULUS_BIT_SIZE" => format!("{}", Fq::MODULUS_BIT_SIZE), "Fr::MODULUS_BIT_SIZE" => format!("{}", Fr::MODULUS_BIT_SIZE), "Fp::MODULUS_BIT_SIZE" => format!("{}", Fp::MODULUS_BIT_SIZE),
        "Fq::TWO_ADICITY" => format!("{}", Fq::TWO_ADICITY), "Fr::TWO_ADICITY" => format!("{}", Fr::TWO_ADICITY), "Fp::TWO_ADICITY" => format!("{}", Fp::TWO_ADICITY),
        "Fq::MULTIPLICATIVE_GENERATOR" => h(&Fq::MULTIPLICATIVE_GENERATOR.to_bytes_le()), "Fr::MULTIPLICATIVE_GENERATOR" => h(&Fr::MULTIPLICATIVE_GENERATOR.to_bytes_le()), "Fp::MULTIPLICATIVE_GENERATOR" => h(&Fp::MULTIPLICATIVE_GENERATOR.to_bytes_le()),
        "Fq::TWO_ADIC_ROOT_OF_UNITY" => h(&Fq::TWO_ADIC_ROOT_OF_UNITY.to_bytes_le()), "Fr::TWO_ADIC_ROOT_OF_UNITY" => h(&Fr::TWO_ADIC_ROOT_OF_UNITY.to_bytes_le()), "Fp::TWO_ADIC_ROOT_OF_UNITY" => h(&Fp::TWO_ADIC_ROOT_OF_UNITY.to_bytes_le()),
        "Fq::QUADRATIC_NON_RESIDUE_TO_TRACE" => h(&Fq::QUADRATIC_NON_RESIDUE_TO_TRACE.to_bytes_le()), "Fp::QUADRATIC_NON_RESIDUE_TO_TRACE" => h(&Fp::QUADRATIC_NON_RESIDUE_TO_TRACE.to_bytes_le()),
        "Fq::FIELD_SIZE_POWER_OF_TWO" => h(&Fq::FIELD_SIZE_POWER_OF_TWO.to_bytes_le()), "Fr::FIELD_SIZE_POWER_OF_TWO" => h(&Fr::FIELD_SIZE_POWER_OF_TWO.to_bytes_le()), "Fp::FIELD_SIZE_POWER_OF_TWO" => h(&Fp::FIELD_SIZE_POWER_OF_TWO.to_bytes_le()),
        "Fq::ONE" => h(&Fq::ONE.to_bytes_le()), "Fr::ONE" => h(&Fr::ONE.to_bytes_le()), "Fp::ONE" => h(&Fp::ONE.to_bytes_le()),
        "Fq::ZERO" => h(&Fq::ZERO.to_bytes_le()), "Fr::ZERO" => h(&Fr::ZERO.to_bytes_le()), "Fp::ZERO" => h(&Fp::ZERO.to_bytes_le()),
        "ZETA" => h(&decaf377::ZETA.to_bytes_le()),
        "Fp::QUADRATIC_NON_RESIDUE" => h(&Fp::QUADRATIC_NON_RESIDUE.to_bytes_le()), "Fp::MINUS_ONE" => h(&Fp::MINUS_ONE.to_bytes_le()),
        "GENERATOR" => h(&Element::GENERATOR.vartime_compress().0),
        "IDENTITY" => h(&Element::IDENTITY.vartime_compress().0),
        _ => crate::cmds::constant_ark(name),
    }
}

#[cfg(feature = "min")]
pub fn constant_ark(name: &str) -> String { panic!("HARNESS unknown constant {}", name) }

#[cfg(feature = "ark")]
pub fn constant_ark(name: &str) -> String {
    use ark_ec::twisted_edwards::{TECurveConfig, MontCurveConfig};
    use ark_ec::CurveConfig;
    type C = <Element as CurveGroup>::Config;
    macro_rules! pf { ($T:ty) => {{
        let sp = match <$T as Field>::SQRT_PRECOMP { Some(ark_ff::SqrtPrecomputation::TonelliShanks { two_adicity, quadratic_nonresidue_to_trace, trace_of_modulus_minus_one_div_two }) =>
            format!("ts {} {} {}", two_adicity, h(&quadratic_nonresidue_to_trace.to_bytes_le()), le(trace_of_modulus_minus_one_div_two)), Some(_) => "other".into(), None => "none".into() };
        format!("MODULUS={} MM1D2={} BITS={} TRACE={} TM1D2={} GEN={} ADICITY={} ROOT={} SQRT={} ONE={} ZERO={} CHAR={}", le(&<$T as PrimeField>::MODULUS.0), le(&<$T as PrimeField>::MODULUS_MINUS_ONE_DIV_TWO.0), <$T as PrimeField>::MODULUS_BIT_SIZE,
            le(&<$T as PrimeField>::TRACE.0), le(&<$T as PrimeField>::TRACE_MINUS_ONE_DIV_TWO.0), h(&<$T as FftField>::GENERATOR.to_bytes_le()), <$T as FftField>::TWO_ADICITY, h(&<$T as FftField>::TWO_ADIC_ROOT_OF_UNITY.to_bytes_le()), sp,
            h(&<$T as Field>::ONE.to_bytes_le()), h(&<$T as Field>::ZERO.to_bytes_le()), le(<$T as Field>::characteristic()))
    }}}
    match name {
        "traits:Fq" => pf!(Fq), "traits:Fr" => pf!(Fr), "traits:Fp" => pf!(Fp),
        "TE::COEFF_A" => h(&<C as TECurveConfig>::COEFF_A.to_bytes_le()), "TE::COEFF_D" => h(&<C as TECurveConfig>::COEFF_D.to_bytes_le()),
        "Mont::COEFF_A" => h(&<C as MontCurveConfig>::COEFF_A.to_bytes_le()), "Mont::COEFF_B" => h(&<C as MontCurveConfig>::COEFF_B.to_bytes_le()),
        "TE::GENERATOR" => { let g = <C as TECurveConfig>::GENERATOR; format!("{} {}", h(&g.x.to_bytes_le()), h(&g.y.to_bytes_le())) }
        "COFACTOR" => le(<C as CurveConfig>::COFACTOR), "COFACTOR_INV" => h(&<C as CurveConfig>::COFACTOR_INV.to_bytes_le()),
        "Group::generator" => h(&<Element as Group>::generator().vartime_compress().0),
        "AffineRepr::generator" => { let e: Element = <Aff as AffineRepr>::generator().into(); h(&e.vartime_compress().0) }
        "AffineRepr::zero" => { let e: Element = <Aff as AffineRepr>::zero().into(); h(&e.vartime_compress().0) }
        _ => panic!("HARNESS unknown constant {}", name),
    }
}
