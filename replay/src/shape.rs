// C15 native replay: constraint-system shape (variables + matrices) of each gadget across structured inputs and in setup mode,
// and the public-input clause.
#![allow(unused_imports, non_snake_case, unused_variables)]
use ark_ec::{CurveGroup, Group};
use ark_ff::{Field, PrimeField, Zero, One, ToConstraintField};
use ark_r1cs_std::{alloc::AllocVar, eq::EqGadget, R1CSVar, groups::CurveVar, fields::fp::FpVar, select::CondSelectGadget, boolean::Boolean, ToBitsGadget, ToBytesGadget};
use ark_relations::r1cs::{ConstraintSystem, ConstraintSystemRef, SynthesisMode, OptimizationGoal};
use decaf377::{Element, Encoding, Fq, Fr};
use decaf377::r1cs::{ElementVar, FqVar, fqvar_ext::FqVarExtension};
use std::collections::hash_map::DefaultHasher;
use std::hash::{Hash, Hasher};

fn fr_u(k: u64) -> Fr { Fr::from(k) }
fn elems() -> Vec<Element> {
    let b = Element::GENERATOR;
    let five = b * fr_u(5);
    let t2 = (b * (-Fr::one())) + b;                 // identity, possibly as the 2-torsion representative
    let back: Element = { let a = (b * fr_u(7)).into_affine(); a.into() };
    vec![Element::IDENTITY, t2, b, five, -(b * fr_u(3)), back, (b * fr_u(11)) * (-Fr::one())]
}
fn fqs() -> Vec<Fq> {
    let enc = (Element::GENERATOR * fr_u(5)).vartime_compress_to_field();
    vec![Fq::ZERO, Fq::ONE, -Fq::ONE, Fq::from(2u64), Fq::from(3u64), Fq::from(4u64), decaf377::ZETA, enc, enc + Fq::ONE, -enc, Fq::from(8u64), Fq::from(1u64 << 40)]
}

fn digest(cs: &ConstraintSystemRef<Fq>) -> String {
    cs.finalize();
    let m = cs.to_matrices();
    let mut h = DefaultHasher::new();
    if let Some(m) = &m {
        for mat in [&m.a, &m.b, &m.c] {
            for row in mat.iter() {
                for (coeff, idx) in row.iter() { coeff.into_bigint().0.hash(&mut h); idx.hash(&mut h); }
                0xffffu32.hash(&mut h);
            }
        }
    }
    format!("inst={} wit={} cons={} mat={:016x}", cs.num_instance_variables(), cs.num_witness_variables(), cs.num_constraints(), h.finish())
}

fn new_cs(setup: bool) -> ConstraintSystemRef<Fq> {
    let cs = ConstraintSystem::<Fq>::new_ref();
    cs.set_optimization_goal(OptimizationGoal::Constraints);
    cs.set_mode(if setup { SynthesisMode::Setup } else { SynthesisMode::Prove { construct_matrices: true } });
    cs
}

// one synthesis of gadget `g` with the i-th input; returns Err(text) if synthesis itself failed
fn synth(g: &str, i: usize, setup: bool) -> Result<String, String> {
    let cs = new_cs(setup);
    let es = elems(); let fs = fqs();
    let e = es[i % es.len()]; let e2 = es[(i / es.len() + i + 1) % es.len()]; let f = fs[i % fs.len()];
    let w = |cs: &ConstraintSystemRef<Fq>, v: Fq| FqVar::new_witness(cs.clone(), || Ok(v));
    let we = |cs: &ConstraintSystemRef<Fq>, v: Element| ElementVar::new_witness(cs.clone(), || Ok(v));
    let r: Result<(), ark_relations::r1cs::SynthesisError> = (|| {
        match g {
            "isqrt" => { let x = w(&cs, f)?; let _ = x.isqrt()?; }
            "is_negative" => { let x = w(&cs, f)?; let _ = x.is_negative()?; }
            "is_nonnegative" => { let x = w(&cs, f)?; let _ = x.is_nonnegative()?; }
            "abs" => { let x = w(&cs, f)?; let _ = x.abs()?; }
            "decompress" => { let x = w(&cs, f)?; let _ = ElementVar::decompress_from_field(x)?; }
            "elligator" => { let x = w(&cs, f)?; let _ = ElementVar::encode_to_curve(&x)?; }
            "compress" => { let p = we(&cs, e)?; let _ = p.compress_to_field()?; }
            "alloc_witness" => { let _ = we(&cs, e)?; }
            "alloc_input" => { let _ = ElementVar::new_input(cs.clone(), || Ok(e))?; }
            "alloc_constant" => { let _ = ElementVar::new_constant(cs.clone(), Element::GENERATOR)?; let _ = we(&cs, e)?; }
            "alloc_affine_witness" => { let a = e.into_affine(); let _ = <ElementVar as AllocVar<<Element as CurveGroup>::Affine, Fq>>::new_witness(cs.clone(), || Ok(a))?; }
            "alloc_from_field" => { let _ = <ElementVar as AllocVar<Fq, Fq>>::new_witness(cs.clone(), || Ok(f))?; }
            "add" => { let p = we(&cs, e)?; let q = we(&cs, e2)?; let _ = (p + q).compress_to_field()?; }
            "add_ref" => { let p = we(&cs, e)?; let q = we(&cs, e2)?; let _ = p + &q; }
            "sub" => { let p = we(&cs, e)?; let q = we(&cs, e2)?; let _ = (p - q).compress_to_field()?; }
            "add_assign" => { let mut p = we(&cs, e)?; let q = we(&cs, e2)?; p += q; let _ = p.compress_to_field()?; }
            "sub_assign" => { let mut p = we(&cs, e)?; let q = we(&cs, e2)?; p -= &q; }
            "add_native" => { let p = we(&cs, e)?; let _ = p + Element::GENERATOR; }
            "sub_native" => { let p = we(&cs, e)?; let _ = p - Element::GENERATOR; }
            "negate" => { let p = we(&cs, e)?; let _ = p.negate()?.compress_to_field()?; }
            "double" => { let mut p = we(&cs, e)?; p.double_in_place()?; }
            "is_eq" => { let p = we(&cs, e)?; let q = we(&cs, e2)?; let _ = p.is_eq(&q)?; }
            "enforce_equal_cond" => { let p = we(&cs, e)?; let q = we(&cs, e2)?; let c = Boolean::new_witness(cs.clone(), || Ok(i % 2 == 0))?; p.conditional_enforce_equal(&q, &c)?; }
            "enforce_not_equal_cond" => { let p = we(&cs, e)?; let q = we(&cs, e2)?; let c = Boolean::new_witness(cs.clone(), || Ok(i % 2 == 0))?; p.conditional_enforce_not_equal(&q, &c)?; }
            "select" => { let p = we(&cs, e)?; let q = we(&cs, e2)?; let c = Boolean::new_witness(cs.clone(), || Ok(i % 2 == 0))?; let _ = ElementVar::conditionally_select(&c, &p, &q)?; }
            "to_bits" => { let p = we(&cs, e)?; let _ = p.to_bits_le()?; }
            "to_bytes" => { let p = we(&cs, e)?; let _ = p.to_bytes()?; }
            "from_field_then_compress" => { let p = <ElementVar as AllocVar<Fq, Fq>>::new_witness(cs.clone(), || Ok(e.vartime_compress_to_field()))?; let _ = p.compress_to_field()?; let q = we(&cs, e2)?; let _ = (p + q).compress_to_field()?; }
            _ => panic!("HARNESS unknown shape gadget {}", g),
        }
        Ok(())
    })();
    match r { Ok(()) => Ok(digest(&cs)), Err(e) => Err(format!("synthesis error {:?}", e)) }
}

pub const GADGETS: &[&str] = &["isqrt", "is_negative", "is_nonnegative", "abs", "decompress", "elligator", "compress", "alloc_witness", "alloc_input", "alloc_constant",
    "alloc_affine_witness", "alloc_from_field", "add", "add_ref", "sub", "add_assign", "sub_assign", "add_native", "sub_native", "negate", "double", "is_eq",
    "enforce_equal_cond", "enforce_not_equal_cond", "select", "to_bits", "to_bytes", "from_field_then_compress"];

pub fn run(arg: &str) -> String {
    let parts: Vec<&str> = arg.split(',').collect();
    match parts[0] {
        "shape" => {
            let g = parts[1];
            let n = 14usize;
            let base = match synth(g, 0, false) { Ok(d) => d, Err(e) => return format!("differs: input 0 fails: {}", e) };
            for i in 1..n {
                match synth(g, i, false) {
                    Ok(d) => if d != base { return format!("differs: input {} gives {} but input 0 gives {}", i, d, base); },
                    Err(e) => return format!("differs: input {} fails ({}) but input 0 gives {}", i, e, base),
                }
            }
            // setup mode: the circuit hands over the same (dummy) value, arkworks does not evaluate its own closures
            match synth(g, 3, true) {
                Ok(d) => {
                    // in setup mode arkworks does not record assignments; compare the structural part only
                    if d != base { return format!("differs: setup mode gives {} but proving mode gives {}", d, base); }
                }
                Err(e) => return format!("differs: setup mode fails ({}) but proving mode gives {}", e, base),
            }
            format!("same {}", base)
        }
        "pubinput" => {
            let i: usize = parts[1].parse().unwrap();
            let es = elems(); let e = es[i % es.len()];
            let cs = new_cs(false);
            let v = ElementVar::new_input(cs.clone(), || Ok(e)).unwrap();
            let enc = e.vartime_compress_to_field();
            let ninst = cs.num_instance_variables();
            let inst_ok = { let c = cs.borrow().unwrap(); c.instance_assignment.len() == 2 && c.instance_assignment[1] == enc };
            let tcf: Option<Vec<Fq>> = e.to_field_elements();
            let tcf_ok = tcf == Some(vec![enc]);
            format!("inst={} value_ok={} tcf_ok={} sat={}", ninst, inst_ok, tcf_ok, cs.is_satisfied().unwrap())
        }
        "pubinput_aff" => {
            let i: usize = parts[1].parse().unwrap();
            let es = elems(); let e = es[i % es.len()];
            let cs = new_cs(false);
            let a = e.into_affine();
            let r = <ElementVar as AllocVar<<Element as CurveGroup>::Affine, Fq>>::new_input(cs.clone(), || Ok(a));
            let enc = e.vartime_compress_to_field();
            let ninst = cs.num_instance_variables();
            let inst_ok = { let c = cs.borrow().unwrap(); c.instance_assignment.len() == 2 && c.instance_assignment[1] == enc };
            format!("ok={} inst={} value_ok={} sat={}", r.is_ok(), ninst, inst_ok, cs.is_satisfied().unwrap())
        }
        _ => panic!("HARNESS unknown shape command {}", arg),
    }
}
