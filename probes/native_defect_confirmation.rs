use decaf377::{Element, Fq, Fr};
use ark_ec::{AffineRepr, CurveGroup, Group};
use ark_ff::{Field, Zero, One, PrimeField};
use std::hash::{Hash, Hasher};
use std::collections::hash_map::DefaultHasher;
use subtle::{Choice, ConditionallySelectable};
fn h<T: Hash>(t: &T) -> u64 { let mut s = DefaultHasher::new(); t.hash(&mut s); s.finish() }
fn main() {
    let g = Element::GENERATOR;
    let q = g + g + g;
    // C04
    let a = g.into_affine(); let b = q.into_affine();
    let s1: Element = a + b;
    println!("C04 affine+affine == g+q: {}  == 2q: {}", s1 == g + q, s1 == q + q);
    // C08
    let m1 = -Fr::one();
    let x = q * m1; let y = -q;
    println!("C08 (-1)*Q == -Q: {} hash equal: {}", x == y, h(&x) == h(&y));
    let z = q + q * m1;
    println!("C08 Q+(-1)Q == identity: {} is_identity {} is_zero {}", z == Element::IDENTITY, z.is_identity(), z.is_zero());
    // C10
    let f = Fq::from(5u64);
    let sel = Fq::conditional_select(&f, &Fq::from(7u64), Choice::from(0));
    println!("C10 select(5,7,0) == 5: {}", sel == f);
    println!("C10 power 2^[0,1] == pow: {}", Fq::from(2u64).power([0u64, 1u64]) == Fq::from(2u64).pow([0u64, 1u64]));
    let pr: Fr = [Fr::from(2u64), Fr::from(3u64)].iter().product();
    println!("C10 Fr product [2,3] = 6: {}", pr == Fr::from(6u64));
    let pq: Fq = [Fq::from(2u64), Fq::from(3u64)].iter().product();
    println!("C10 Fq product [2,3] = 6: {}", pq == Fq::from(6u64));
    // C06
    let mut bad = 0; let mut ok = 0;
    for i in 0u64..2000 {
        let mut bytes = [0u8; 32]; bytes[..8].copy_from_slice(&i.to_le_bytes());
        if let Some(p) = <decaf377::Element as CurveGroup>::Affine::from_random_bytes(&bytes) {
            let e: Element = p.into();
            let enc = e.vartime_compress();
            let back = enc.vartime_decompress();
            let r_times = e.mul_bigint(Fr::MODULUS.0);
            if back.map(|b| b == e).unwrap_or(false) && r_times.is_identity() { ok += 1 } else { bad += 1 }
        }
    }
    println!("C06 from_random_bytes accepted: valid {} invalid {}", ok, bad);
    println!("C17 Fr TRACE*2+1 == MODULUS: {:?}", Fr::TRACE);
}
