import re, sys, time, random
import z3
M=2**32
def parse_fn(src, name):
    m = re.search(r'pub fn %s\((.*?)\)\s*\{(.*?)\n\}' % name, src, re.S)
    return m.group(1), m.group(2)
def strip(e):
    e=e.strip()
    def bal(s):
        d=0
        for ch in s:
            if ch=='(': d+=1
            elif ch==')':
                d-=1
                if d<0: return False
        return d==0
    while e.startswith('(') and e.endswith(')') and bal(e[1:-1]): e=e[1:-1].strip()
    m=re.fullmatch(r'(.*) as (u32|u64|\w+U1)', e)
    if m and bal(m.group(1)): return strip(m.group(1))
    return e
def atom(e):
    e=strip(e)
    if re.fullmatch(r'0x[0-9a-fA-F]+', e): return ('c',int(e,16))
    if re.fullmatch(r'\d+', e): return ('c',int(e))
    if re.fullmatch(r'x\d+', e): return ('v',e)
    m=re.fullmatch(r'(arg\d)\[(\d+)\]', e)
    if m: return ('v',f'{m.group(1)}_{m.group(2)}')
    raise ValueError(e)
def parse_ops(body):
    ops=[]
    for s in [s.strip() for s in body.replace('\n',' ').split(';') if s.strip()]:
        if re.fullmatch(r'let mut (x\d+): \w+ = 0', s): continue
        m=re.fullmatch(r'let (x\d+): \w+ = (.*)', s)
        if m:
            rhs=strip(m.group(2))
            mm=re.fullmatch(r'(\(?x\d+(?: as u32\))?) \+ (\(?x\d+(?: as u32\))?)', rhs)
            if mm: ops.append(('add32',m.group(1),atom(mm.group(1)),atom(mm.group(2)))); continue
            ops.append(('mov',m.group(1),atom(rhs))); continue
        m=re.fullmatch(r'\w+_(mulx|addcarryx|subborrowx|cmovznz)_u32\((.*)\)', s)
        if m:
            args=[a.strip() for a in m.group(2).split(',')]
            outs=[a.replace('&mut ','') for a in args if a.startswith('&mut')]
            ins=[atom(a) for a in args if not a.startswith('&mut')]
            ops.append((m.group(1),outs,ins)); continue
        m=re.fullmatch(r'out1\[(\d+)\] = (x\d+)', s)
        if m: ops.append(('out',int(m.group(1)),atom(m.group(2)))); continue
        raise ValueError(s)
    return ops
def evalpy(ops, env):
    env=dict(env); out={}
    g=lambda a: a[1] if a[0]=='c' else env[a[1]]
    for op in ops:
        k=op[0]
        if k=='mov': env[op[1]]=g(op[2])
        elif k=='add32':
            t=g(op[2])+g(op[3]); assert t<M, 'overflow'; env[op[1]]=t
        elif k=='mulx':
            t=g(op[2][0])*g(op[2][1]); env[op[1][0]]=t%M; env[op[1][1]]=t//M
        elif k=='addcarryx':
            t=g(op[2][0])+g(op[2][1])+g(op[2][2]); env[op[1][0]]=t%M; env[op[1][1]]=t//M
        elif k=='subborrowx':
            t=g(op[2][1])-g(op[2][2])-g(op[2][0]); env[op[1][0]]=t%M; env[op[1][1]]=1 if t<0 else 0
        elif k=='cmovznz':
            env[op[1][0]]=g(op[2][1]) if g(op[2][0])==0 else g(op[2][2])
        elif k=='out': out[op[1]]=g(op[2])
    return out, env
class Z:
    def __init__(s): s.mono={}; s.cons=[]; s.obl=[]; s.env={}; s.n=0; s.defs=[]
    def fresh(s,nm,lo,hi):
        s.n+=1; v=z3.Int(f'{nm}{s.n}'); s.cons+=[v>=lo,v<=hi]; return v
    def g(s,a): return z3.IntVal(a[1]) if a[0]=='c' else s.env[a[1]]
    def run(s,ops):
        out={}
        for op in ops:
            k=op[0]
            if k=='mov': s.env[op[1]]=s.g(op[2])
            elif k=='add32':
                t=s.g(op[2])+s.g(op[3]); s.obl.append(t<M); s.env[op[1]]=t
            elif k=='mulx':
                lo=s.fresh('lo',0,M-1); hi=s.fresh('hi',0,M-1)
                x,y=s.g(op[2][0]),s.g(op[2][1])
                if z3.is_int_value(x) or z3.is_int_value(y): prod=x*y
                else:
                    key=tuple(sorted([str(x),str(y)]))
                    if key not in s.mono: s.mono[key]=s.fresh('m_'+key[0]+'_'+key[1]+'_',0,(M-1)*(M-1))
                    prod=s.mono[key]
                s.cons.append(lo+M*hi==prod); s.env[op[1][0]]=lo; s.env[op[1][1]]=hi
            elif k=='addcarryx':
                o=s.fresh('s',0,M-1); c=s.fresh('c',0,1)
                s.cons.append(o+M*c==s.g(op[2][0])+s.g(op[2][1])+s.g(op[2][2])); s.env[op[1][0]]=o; s.env[op[1][1]]=c
            elif k=='subborrowx':
                o=s.fresh('d',0,M-1); b=s.fresh('b',0,1)
                s.cons.append(o-M*b==s.g(op[2][1])-s.g(op[2][2])-s.g(op[2][0])); s.env[op[1][0]]=o; s.env[op[1][1]]=b
            elif k=='cmovznz':
                s.env[op[1][0]]=z3.If(s.g(op[2][0])==0,s.g(op[2][1]),s.g(op[2][2]))
            elif k=='out': out[op[1]]=s.g(op[2])
        return out
PR={'fq':0x12ab655e9a2ca55660b44d1e5c37b00159aa76fed00000010a11800000000001,
    'fr':0x04aad957a68b2955982d1347970dec005293a3afc43c8afeb95aee9ac33fd9ff,
    'fp':0x01ae3a4617c510eac63b05c06ca1493b1a22d9f300f5138f1ef3622fba094800170b5d44300000008508c00000000001}
if __name__=="__main__":
    field,fn,which=sys.argv[1:4]
    n={'fq':8,'fr':8,'fp':12}[field]; P=PR[field]; R=2**(32*n)
    src=open(f'/repo/src/fields/{field}/u32/fiat.rs').read()
    ops=parse_ops(parse_fn(src,f'{field}_{fn}')[1])
    # translator validation on concrete inputs against python bigint spec
    random.seed(7); Rinv=pow(R,-1,P)
    tests=[(random.randrange(P),random.randrange(P)) for _ in range(200)]+[(P-1,P-1),(0,0),(1,P-1),(P-1,1)]
    for a,b in tests:
        env={f'arg1_{i}':(a>>(32*i))&(M-1) for i in range(n)}; env.update({f'arg2_{i}':(b>>(32*i))&(M-1) for i in range(n)})
        out,_=evalpy(ops,env); o=sum(out[i]<<(32*i) for i in range(n))
        want=(a*(b if fn=='mul' else a)*Rinv)%P
        assert o==want,(a,b)
    print('translator validated on',len(tests),'inputs')
    E=Z()
    A=[z3.Int(f'a{i}') for i in range(n)]; B=[z3.Int(f'b{i}') for i in range(n)]
    for i in range(n):
        E.env[f'arg1_{i}']=A[i]; E.env[f'arg2_{i}']=B[i]
        E.cons+=[A[i]>=0,A[i]<M,B[i]>=0,B[i]<M]
    outs=E.run(ops)
    ev=lambda L: sum(L[i]*2**(32*i) for i in range(n))
    a=ev(A); b=ev(B) if fn=='mul' else a; BB=B if fn=='mul' else A
    o=ev([outs[i] for i in range(n)])
    mm=lambda i,j: E.mono[tuple(sorted([str(A[i]),str(BB[j])]))]
    T=sum(mm(i,j)*2**(32*(i+j)) for i in range(n) for j in range(n))
    pre=[a<P]+([b<P] if fn=='mul' else [])
    lem=[T<=(P-1)*(P-1)]+[sum(mm(i,j)*2**(32*i) for i in range(n))<=(P-1)*(M-1) for j in range(n)]
    s=z3.Solver(); s.set('timeout',int(sys.argv[4])*1000 if len(sys.argv)>4 else 300000)
    s.add(E.cons); s.add(pre); s.add(lem)
    if which=='vac': pass
    elif which=='range': s.add(z3.Not(z3.And(o<P,o>=0)))
    elif which=='ovf': s.add(z3.Or([z3.Not(x) for x in E.obl]))
    elif which=='alg':
        # hint K: quotient variables = second operand of mulx whose first operand is... detect: mulx(x, const) where const is a modulus limb
        plimbs={(P>>(32*i))&(M-1) for i in range(n)}
        qs=[]; seen=set()
        for op in ops:
            if op[0]=='mulx':
                ins=op[2]
                for u,v in (ins,ins[::-1]):
                    if v[0]=='c' and v[1] in plimbs and u[0]=='v' and u[1] not in seen:
                        seen.add(u[1]); qs.append(u[1])
        print('quotient digits:',qs)
        K=sum(E.env[q]*2**(32*i) for i,q in enumerate(qs))
        # final conditional subtraction: o = pre - P*[no borrow]; unknown 0/1 multiple e
        e=z3.Int('e'); s.add(e>=0,e<=1)
        used=set()
        for op in ops:
            if op[0] in ('mov',): used.add(op[2][1]) if op[2][0]=='v' else None
            elif op[0]=='add32':
                for a in op[2:4]:
                    if a[0]=='v': used.add(a[1])
            elif op[0]=='out': used.add(op[2][1])
            else:
                for a in op[2]:
                    if a[0]=='v': used.add(a[1])
        dropped=[]
        for op in ops:
            if op[0] in ('mulx','addcarryx','subborrowx','cmovznz'):
                for o_ in op[1]:
                    if o_ not in used: dropped.append((op[0],o_))
        print('dropped:',dropped)
        zero=[E.env[d]==0 for k,d in dropped if k=='addcarryx']
        for zq in zero:
            s3=z3.Solver(); s3.set('timeout',60000); s3.add(E.cons); s3.add(z3.Not(zq))
            t=time.time(); print('dropped-word lemma', zq, s3.check(), round(time.time()-t,1)); sys.stdout.flush()
        lem=lem+zero
        conds=[op[2][0] for op in ops if op[0]=='cmovznz']
        cv=E.g(conds[0])
        mode=sys.argv[5]
        for case in (0,1):
            if mode=='split':
                s2=z3.Solver()
            elif mode=='tac':
                s2=z3.Then('simplify','solve-eqs','smt').solver()
            elif mode=='lra':
                s2=z3.Then('simplify','solve-eqs','propagate-ineqs','smt').solver()
            s2.set('timeout',300000)
            s2.add(E.cons); s2.add(pre); s2.add(lem); s2.add(cv==case)
            for sense in ('lt','gt'):
                s2.push()
                s2.add(o*R < T+K*P-(1-case)*P*R if sense=='lt' else o*R > T+K*P-(1-case)*P*R)
                t=time.time(); print(mode,'case',case,sense, s2.check(), round(time.time()-t,1),'s'); sys.stdout.flush()
                s2.pop()
        sys.exit()
    t=time.time(); print(which, s.check(), round(time.time()-t,1),'s')
