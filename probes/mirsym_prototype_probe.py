#!/usr/bin/env python3
"""Scratch prototype (design-phase probe, NOT the framework): symbolic interpreter for rustc MIR text.
Goal: execute min_curve `vartime_decompress` with field elements as polynomial terms and compare with a spec."""
import re, sys, itertools
import z3

Q = 8444461749428370424248824938781546531375899335154063827935233455917409239041
R256 = pow(2, 256, Q); RINV = pow(R256, -1, Q)

# ---------------------------------------------------------------- parsing
class Item:
    def __init__(s, kind, name, sig, lines): s.kind, s.name, s.sig, s.lines = kind, name, sig, lines; s.blocks=None

def load(path):
    items = {}
    cur = None
    for line in open(path):
        line = line.rstrip('\n')
        if cur is None:
            m = re.match(r'^(fn|const|static) (.*?)(\(.*\) -> .*| *: .*= )\{$', line) or re.match(r'^(fn|const|static) (.*?)(\(.*\)) \{$', line)
            if m and not line.startswith(' '):
                kind = m.group(1); rest = line[len(kind)+1:]
                if kind == 'fn':
                    name = rest[:rest.index('(_')] if '(_' in rest else rest[:rest.index('()')]
                else:
                    name = rest[:rest.rindex(': ')] if ': ' in rest else rest
                    # const NAME: TYPE = {   -> split at first ': ' after name is ambiguous; take up to the ': ' preceding the type
                    d=0; name=None
                    for i,ch in enumerate(rest):
                        if ch=='<': d+=1
                        elif ch=='>' and rest[i-1]!='-': d-=1
                        elif ch==':' and d==0 and rest[i:i+2]==': ' : name=rest[:i]; break
                cur = Item(kind, name, line, [])
            else:
                m = re.match(r'^const (.*?): (.*?) = const (.*);$', line)
                if m: items[m.group(1)] = Item('constval', m.group(1), line, [m.group(3)])
            continue
        if line == '}':
            items[cur.name] = cur; cur = None
        else:
            cur.lines.append(line)
    return items

def blocks_of(item):
    if item.blocks is not None: return item.blocks
    blocks = {}; cur = None
    for l in item.lines:
        m = re.match(r'^    (bb\d+)(?: \(cleanup\))?: \{$', l)
        if m: cur = m.group(1); blocks[cur] = []; continue
        if cur and l == '    }': cur = None; continue
        if cur: blocks[cur].append(l.strip())
    item.blocks = blocks
    return blocks

# ---------------------------------------------------------------- values
class Ref:
    def __init__(s, frame, local, path): s.frame, s.local, s.path = frame, local, tuple(path)
class Enum:
    def __init__(s, variant, fields): s.variant, s.fields = variant, list(fields)
    def __repr__(s): return f'{s.variant}{s.fields}'
class Struct:
    def __init__(s, name, fields): s.name, s.fields = name, list(fields)
    def __repr__(s): return f'{s.name}{s.fields}'
class FE:      # field element: z3 Int term meaning a value mod Q
    def __init__(s, t): s.t = t
    def __repr__(s): return f'FE({s.t})'
class Sym:     # opaque symbolic non-field value
    def __init__(s, n): s.n = n

class Fork(Exception): pass
class Ctx:
    def __init__(s, items):
        s.items = items; s.decisions = []; s.pos = 0; s.path = []; s.side = []; s.nfresh = 0; s.opaque = set()
    def decide(s, cond):
        """cond: z3 Bool. returns python bool choice, recording path condition"""
        cs = z3.simplify(cond)
        if z3.is_true(cs): return True
        if z3.is_false(cs): return False
        if s.pos < len(s.decisions): c = s.decisions[s.pos]
        else: c = False; s.decisions.append(False)
        s.pos += 1
        s.path.append(cond if c else z3.Not(cond))
        return c
    def fresh(s, base, sort='int'):
        s.nfresh += 1
        return z3.Int(f'{base}{s.nfresh}') if sort == 'int' else z3.Bool(f'{base}{s.nfresh}')

NEG = z3.Function('neg', z3.IntSort(), z3.BoolSort())

# ---------------------------------------------------------------- tiny expression parser for MIR operands / places
def split_top(s, sep=','):
    out=[]; d=0; cur=''
    i=0
    while i < len(s):
        ch=s[i]
        if ch in '([{<' and not (ch=='<' and s[i-1:i+1] in ('-<',)): d+=1
        elif ch in ')]}' : d-=1
        elif ch=='>' and s[i-1]!='-' and s[i-1]!='=': d-=1
        if ch==sep and d==0: out.append(cur.strip()); cur=''
        else: cur+=ch
        i+=1
    if cur.strip(): out.append(cur.strip())
    return out

def match_paren(s, i):
    d=0
    for j in range(i, len(s)):
        if s[j]=='(': d+=1
        elif s[j]==')':
            d-=1
            if d==0: return j
    raise ValueError(s)

def parse_place(s):
    """returns (local, [proj...]) ; proj: ('deref',) ('field',k) ('index',local) ('downcast',Variant) ('cindex',k)"""
    s=s.strip()
    if s.startswith('('):
        j=match_paren(s,0); inner=s[1:j]; rest=s[j+1:]
        if inner.startswith('*'):
            loc,pr=parse_place(inner[1:]); pr=pr+[('deref',)]
        else:
            m=re.match(r'^(.*) as (\w+)$', inner)
            if m and not re.search(r'\.\w+: ', m.group(1)[-1:]):
                loc,pr=parse_place(m.group(1)); pr=pr+[('downcast',m.group(2))]
            else:
                # PLACE.FIELD: TYPE   -- find the last ".<digits>: " at top level
                d=0; k=None
                for idx in range(len(inner)):
                    ch=inner[idx]
                    if ch in '([': d+=1
                    elif ch in ')]': d-=1
                    elif ch=='.' and d==0:
                        m2=re.match(r'\.(\d+): ', inner[idx:])
                        if m2: k=idx; fld=int(m2.group(1)); break
                loc,pr=parse_place(inner[:k]); pr=pr+[('field',fld)]
        while rest.startswith('['):
            e=rest.index(']'); ix=rest[1:e]; rest=rest[e+1:]
            m=re.match(r'^(\d+) of \d+$', ix)
            pr=pr+[('cindex',int(m.group(1)))] if m else pr+[('index',ix)]
        return loc,pr
    m=re.match(r'^(_\d+)(.*)$', s)
    loc=m.group(1); rest=m.group(2); pr=[]
    while rest.startswith('['):
        e=rest.index(']'); ix=rest[1:e]; rest=rest[e+1:]
        m2=re.match(r'^(\d+) of \d+$', ix)
        pr.append(('cindex',int(m2.group(1))) if m2 else ('index',ix))
    assert rest=='', (s,rest)
    return loc,pr

_hdr_cache={}
def impl_header(it):
    if it.name in _hdr_cache: return _hdr_cache[it.name]
    mm=re.search(r'<impl at ([^:]+):(\d+):(\d+): (\d+):(\d+)>', it.name)
    if not mm: _hdr_cache[it.name]=''; return ''
    f,l1,c1,l2,c2=mm.groups(); src=open('/repo/'+f).read().split('\n')
    h=src[int(l1)-1][int(c1)-1:int(c2)-1] if l1==l2 else ' '.join(src[int(l1)-1:int(l2)])
    _hdr_cache[it.name]=h; return h
def is_trait_impl(it): return ' for ' in impl_header(it)
class Frame:
    _n=0
    def __init__(s, item): s.item=item; s.locals={}; Frame._n+=1; s.id=Frame._n

class Interp:
    def __init__(s, ctx, models): s.ctx=ctx; s.models=models; s.frames={}
    # ---- memory
    def resolve(s, frame, loc, proj):
        """walk projections to a (frame, local, path) triple"""
        f,l,p = frame, loc, []
        for pr in proj:
            if pr[0]=='deref':
                r = s.read(f,l,p)
                assert isinstance(r,Ref), (r, loc, proj)
                f,l,p = r.frame, r.local, list(r.path)
            elif pr[0]=='field': p.append(pr[1])
            elif pr[0]=='cindex': p.append(pr[1])
            elif pr[0]=='index':
                iv = frame.locals[pr[1]]
                assert isinstance(iv,int), 'symbolic index'
                p.append(iv)
            elif pr[0]=='downcast': p.append(('variant',pr[1]))
        return f,l,p
    def read(s, f, l, p):
        v = f.locals[l]
        for k in p:
            if isinstance(k,tuple): assert isinstance(v,Enum) and v.variant.endswith(k[1]), (v,k); continue
            if isinstance(v,(Enum,Struct)): v=v.fields[k]
            else: v=v[k]
        return v
    def write(s, f, l, p, val):
        if not p: f.locals[l]=val; return
        v=f.locals[l]
        for k in p[:-1]:
            if isinstance(k,tuple): continue
            v = v.fields[k] if isinstance(v,(Enum,Struct)) else v[k]
        k=p[-1]
        if isinstance(v,(Enum,Struct)): v.fields[k]=val
        else: v[k]=val
    # ---- operands
    def const(s, frame, txt):
        txt=txt.strip()
        m=re.match(r'^(-?\d+)_(u8|u16|u32|u64|u128|usize|i8|i16|i32|i64|i128|isize)$', txt)
        if m: return int(m.group(1))
        if txt in ('true','false'): return txt=='true'
        if txt=='()': return ()
        return s.eval_const_item(frame, txt)
    def eval_const_item(s, frame, path):
        it = s.find_item(path, frame)
        if it is None: raise KeyError('const '+path)
        if it.kind=='constval': return s.const(frame, it.lines[0])
        return s.call_item(it, [])
    def find_item(s, path, frame=None):
        items=s.ctx.items
        if path in items: return items[path]
        m=re.match(r'^(.*)::promoted\[(\d+)\]$', path)
        if m and frame is not None:
            base=frame.item.name
            base=re.sub(r'::promoted\[\d+\]$','',base)
            k=f'{base}::promoted[{m.group(2)}]'
            if k in items: return items[k]
        mt=re.match(r'^<(.*) as (.*)>::(\w+)$', path)
        if mt:
            ty=mt.group(1).split('::')[-1]; tr=mt.group(2).split('<')[0].split('::')[-1]; nm=mt.group(3)
            c=[it for k,it in items.items() if k.endswith('>::'+nm) and '<impl at' in k and re.search(r'\b'+tr+r'\b.* for .*\b'+ty+r'\b', impl_header(it))]
            # disambiguate same-named types by module of the type
            tymods=mt.group(1).split('::')[:-1]
            c=sorted(c,key=lambda it: sum(1 for x in tymods if x in it.name),reverse=True)
            return c[0] if c else None
        segs=path.split('::')
        # suffix match on trimmed paths
        for n in range(1,len(segs)):
            k='::'.join(segs[n:])
            if k in items: return items[k]
        # Type::NAME  ->  inherent <impl at FILE>::NAME ; prefer impls located in the type's own module
        name=segs[-1]
        cands=[it for k,it in items.items() if k.endswith('>::'+name) and '<impl at' in k and not is_trait_impl(it)]
        modpath='::'.join(segs[:-2])
        exact=[it for it in cands if it.name.startswith(modpath+'::<impl at') or ('::'.join(segs[1:-2])+'::<impl at') in it.name and it.name.startswith('::'.join(segs[1:-2]))]
        if exact: return exact[0]
        tyfile=segs[-3] if len(segs)>=3 else ''
        def score(it):
            f=re.search(r'<impl at ([^:]+):', it.name).group(1)
            parts=f.replace('.rs','').split('/')
            sc=sum(1 for x in segs[:-1] if x in parts)
            if ('u32' in parts)!=('u32' in segs) : sc-=5
            if ('u64' in parts)!=('u64' in segs) and ('u32' in parts or 'u64' in parts): sc-=5
            return sc
        c2=sorted(cands,key=score,reverse=True)
        return c2[0] if c2 else None
    def operand(s, frame, txt):
        txt=txt.strip()
        if txt.startswith('const '): return s.const(frame, txt[6:])
        if txt.startswith('copy ') or txt.startswith('move '):
            loc,pr=parse_place(txt[5:]); f,l,p=s.resolve(frame,loc,pr); return s.read(f,l,p)
        raise ValueError('operand '+txt)
    # ---- rvalues
    def rvalue(s, frame, txt):
        txt=txt.strip()
        m=re.match(r'^(copy|move|const) (.*) as (\w+) \((\w+)\)$', txt)
        if not m and txt.startswith(('const ','copy ','move ')): return s.operand(frame, txt)
        if m:
            v=s.operand(frame, f'{m.group(1)} {m.group(2)}'); bits={'u8':8,'u16':16,'u32':32,'u64':64,'u128':128,'usize':64}.get(m.group(3))
            if isinstance(v,bool): v=int(v)
            return v % (1<<bits) if isinstance(v,int) and bits else v
        m=re.match(r'^&(?:mut |raw const |raw mut )?(.*)$', txt)
        if m:
            loc,pr=parse_place(m.group(1)); f,l,p=s.resolve(frame,loc,pr); return Ref(f,l,p)
        m=re.match(r'^discriminant\((.*)\)$', txt)
        if m:
            loc,pr=parse_place(m.group(1)); f,l,p=s.resolve(frame,loc,pr); v=s.read(f,l,p)
            return ('discr', v)
        m=re.match(r'^(\w+)\((.*)\)$', txt)
        if m and m.group(1) in ('Lt','Le','Gt','Ge','Eq','Ne','Add','Sub','Mul','Shr','Shl','BitAnd','BitOr','BitXor','AddWithOverflow','SubWithOverflow','MulWithOverflow','Not','Neg'):
            args=[s.operand(frame,a) for a in split_top(m.group(2))]
            return s.binop(m.group(1), args)
        if txt.startswith('['):
            inner=txt[1:-1]
            if ';' in inner and not inner.strip().startswith('const') is False and re.match(r'^(.*); (\d+)$', inner):
                mm=re.match(r'^(.*); (\d+)$', inner); v=s.operand(frame, mm.group(1)); return [v for _ in range(int(mm.group(2)))]
            return [s.operand(frame,a) for a in split_top(inner)]
        if txt.startswith('('):
            return Struct('tuple',[s.operand(frame,a) for a in split_top(txt[1:-1])])
        # aggregates: Path::<..>::Variant(args) | Path { f: op, .. } | unit variant Path::Variant
        m=re.match(r'^([\w:<>, ]+?) \{ (.*) \}$', txt)
        if m:
            fields=[a.split(': ',1)[1] for a in split_top(m.group(2))]
            return Struct(m.group(1), [s.operand(frame,a) for a in fields])
        m=re.match(r'^([\w:]+)\((.*)\)$', txt)
        if m and (m.group(1).split('::')[-1] in ('Fq','Fr','Fp') or 'DomainFieldElement' in m.group(1)):
            args=[s.operand(frame,a) for a in split_top(m.group(2))]
            if 'DomainFieldElement' in m.group(1): return Struct(m.group(1),args)
            if isinstance(args[0],FE): return args[0]
            limbs=args[0].fields[0]; v=sum(x<<(32*i) for i,x in enumerate(limbs))*RINV%Q
            if v>Q//2: v-=Q
            return FE(z3.IntVal(v))
        m=re.match(r'^([\w:]+)(?:::<.*>)?::(\w+)\((.*)\)$', txt)
        if m: return Enum(m.group(2), [s.operand(frame,a) for a in split_top(m.group(3))])
        m=re.match(r'^([\w:]+)::(\w+)$', txt)
        if m: return Enum(m.group(2), [])
        raise ValueError('rvalue '+txt)
    def binop(s, op, a):
        if all(isinstance(x,(int,bool)) for x in a):
            x=a[0]; y=a[1] if len(a)>1 else None
            return {'Lt':lambda:x<y,'Le':lambda:x<=y,'Gt':lambda:x>y,'Ge':lambda:x>=y,'Eq':lambda:x==y,'Ne':lambda:x!=y,
                    'Add':lambda:x+y,'Sub':lambda:x-y,'Mul':lambda:x*y,'Shr':lambda:x>>y,'Shl':lambda:x<<y,'BitAnd':lambda:x&y,'BitOr':lambda:x|y,'BitXor':lambda:x^y,
                    'Not':lambda:(not x) if isinstance(x,bool) else ~x}[op]()
        if op=='Ne' and isinstance(a[0],z3.ExprRef): return a[0]!=a[1]
        if op=='Eq' and isinstance(a[0],z3.ExprRef): return a[0]==a[1]
        if op=='Not' and isinstance(a[0],z3.ExprRef): return z3.Not(a[0])
        raise ValueError(('binop',op,a))
    # ---- calls
    def call(s, frame, fn, args):
        for pat,model in s.models:
            if re.search(pat, fn): return model(s, frame, fn, args)
        it=s.find_fn(fn, args)
        s.depth=getattr(s,'depth',0)+1
        if s.depth==40: print('DEEP CALL', fn, '->', it.name if it else None)
        if it is None:
            s.ctx.opaque.add(fn); raise KeyError('no body/model for '+fn)
        r=s.call_item(it, args); s.depth-=1; return r
    def find_fn(s, fn, args):
        items=s.ctx.items
        if fn in items: return items[fn]
        # <T as Trait<A>>::method  -> candidates by method name + arity + param kinds (&/value) and self type
        m=re.match(r'^<(.*) as (.*)>::(\w+)$', fn)
        if m:
            ty,tr,meth=m.groups(); tyname=ty.split('::')[-1].lstrip('&')
            cands=[it for k,it in items.items() if it.kind=='fn' and k.endswith('>::'+meth) and '<impl at' in k]
            targ=None
            mt=re.match(r'^[\w:]+<(.*)>$', tr)
            if mt: targ=mt.group(1).strip()
            def ok(it):
                sig=it.sig[it.sig.index('(')+1:it.sig.rindex(') ->')] if ') ->' in it.sig else ''
                ps=split_top(sig)
                if len(ps)!=len(args): return False
                for p,a in zip(ps,args):
                    pt=p.split(': ',1)[1]
                    if pt.startswith('&')!=isinstance(a,Ref): return False
                if tyname not in it.sig: return False
                if targ is not None:
                    tl=targ.lstrip('&').replace("'a ",'').split('::')[-1]
                    if not any(tl in p.split(': ',1)[1] for p in ps): return False
                return True
            c=[it for it in cands if ok(it)]
            # disambiguate by trait name using the impl header in the source
            trn=tr.split('<')[0].split('::')[-1]
            def hdr(it):
                mm=re.search(r'<impl at ([^:]+):(\d+):(\d+): (\d+):(\d+)>', it.name)
                f,l1,c1,l2,c2=mm.groups(); src=open('/repo/'+f).read().split('\n')
                return src[int(l1)-1][int(c1)-1:int(c2)-1] if l1==l2 else src[int(l1)-1]
            c=[it for it in c if re.search(r'\b'+trn+r'\b', hdr(it))]
            if len(c)>1:
                # match generic arg reference-ness:  Mul<&Fq> vs Mul
                want_ref='<&' in tr
                c=[it for it in c if ('<&' in hdr(it))==want_ref and ('&mut' in hdr(it))==('&mut' in tr)] or c
            if len(c)>=1: return c[0]
            # provided (default) trait method: body generic over Self
            k=tr.split('<')[0]+'::'+meth
            for n in range(len(k.split('::'))):
                kk='::'.join(k.split('::')[n:])
                if kk in items:
                    it=items[kk]; it.self_subst=ty; return it
            return None
        # Type::method (inherent)
        segs=fn.split('::'); meth=segs[-1]
        cands=[it for k,it in items.items() if it.kind=='fn' and k.endswith('>::'+meth) and '<impl at' in k and not is_trait_impl(it)]
        def score(it):
            f=re.search(r'<impl at ([^:]+):', it.name).group(1)
            parts=f.replace('.rs','').split('/')
            sc=sum(1 for x in segs[:-1] if x in parts)
            if ('u32' in parts)!=('u32' in segs) and ('u32' in segs or 'u64' in segs): sc-=5
            if ('u64' in parts)!=('u64' in segs) and ('u32' in segs or 'u64' in segs): sc-=5
            tyn=segs[-2] if len(segs)>1 else ''
            if not re.search(r'impl(<.*>)? '+re.escape(tyn)+r'\b', impl_header(it)): sc-=10
            return sc
        cands=sorted(cands,key=score,reverse=True)
        if cands and score(cands[0])<0: return None
        return cands[0] if cands else None
    def call_item(s, item, args):
        fr=Frame(item)
        fr.subst=getattr(item,'self_subst',None)
        for i,a in enumerate(args): fr.locals[f'_{i+1}']=a
        blocks=blocks_of(item); bb='bb0'
        steps=0
        while True:
            steps+=1
            if steps>100000: raise RuntimeError('loop')
            nxt=None
            for st in blocks[bb]:
                st=st.rstrip(';')
                if st.startswith(('StorageLive','StorageDead','ConstEvalCounter','nop','FakeRead','PlaceMention','Retag','AscribeUserType','Coverage')) or st.startswith('//'): continue
                if st=='return': return fr.locals.get('_0',())
                if st=='unreachable': raise RuntimeError('unreachable reached')
                m=re.match(r'^goto -> (bb\d+)$', st)
                if m: nxt=m.group(1); break
                m=re.match(r'^switchInt\((.*)\) -> \[(.*)\]$', st)
                if m:
                    v=s.operand(fr, m.group(1)); arms=[a.split(': ') for a in split_top(m.group(2))]
                    nxt=s.switch(v, arms); break
                m=re.match(r'^assert\((!?)(.*?), ".*\) -> \[success: (bb\d+), unwind.*\]$', st)
                if m:
                    v=s.operand(fr, m.group(2))
                    if isinstance(v,Struct): v=v
                    ok=(not v) if m.group(1) else v
                    assert ok is True or ok is False, 'symbolic assert'
                    if not ok: raise RuntimeError('PANIC: '+st)
                    nxt=m.group(3); break
                m=re.match(r'^drop\(.*\) -> \[return: (bb\d+), unwind.*\]$', st)
                if m: nxt=m.group(1); break
                m=re.match(r'^(.*?) = (.*)\((.*)\) -> \[return: (bb\d+), unwind.*\]$', st)
                if m and not m.group(2).endswith(('Lt','Le','Gt','Ge','Eq','Ne')):
                    dst,fn,argtxt,ret=m.groups()
                    args2=[s.operand(fr,a) for a in split_top(argtxt)]
                    fn=fn.strip()
                    if fr.subst: fn=re.sub(r'\bSelf\b', fr.subst, fn)
                    val=s.call(fr, fn, args2)
                    loc,pr=parse_place(dst); f,l,p=s.resolve(fr,loc,pr); s.write(f,l,p,val)
                    nxt=ret; break
                m=re.match(r'^(.*?) = (.*)$', st)
                if m:
                    val=s.rvalue(fr, m.group(2))
                    loc,pr=parse_place(m.group(1)); f,l,p=s.resolve(fr,loc,pr); s.write(f,l,p,val)
                    continue
                raise ValueError('stmt '+st)
            bb=nxt
    def switch(s, v, arms):
        if isinstance(v,tuple) and v[0]=='discr':
            e=v[1]
            # map variant name to index by known enums
            idx={'Continue':0,'Break':1,'Ok':0,'Err':1,'None':0,'Some':1}[e.variant]
            v=idx
        if isinstance(v,bool): v=int(v)
        if isinstance(v,int):
            for k,t in arms:
                if k!='otherwise' and int(k)==v: return t
            return dict(arms)['otherwise']
        # symbolic bool
        assert z3.is_bool(v), v
        c=s.ctx.decide(v)
        want=1 if c else 0
        for k,t in arms:
            if k!='otherwise' and int(k)==want: return t
        return dict(arms)['otherwise']

# ---------------------------------------------------------------- models (W-level contracts, POLY domain)
def fe(x): return x if isinstance(x,FE) else x
def deref(I,a): return I.read(a.frame,a.local,list(a.path)) if isinstance(a,Ref) else a
def m_add(I,f,fn,a): return FE(deref(I,a[0]).t+deref(I,a[1]).t)
def m_sub(I,f,fn,a): return FE(deref(I,a[0]).t-deref(I,a[1]).t)
def m_mul(I,f,fn,a): return FE(deref(I,a[0]).t*deref(I,a[1]).t)
def m_neg(I,f,fn,a): return FE(-deref(I,a[0]).t)
def m_square(I,f,fn,a): x=deref(I,a[0]).t; return FE(x*x)
def m_from_mont(I,f,fn,a):
    l=a[0]; v=sum(x<<(64*i) for i,x in enumerate(l)); v=v*RINV%Q
    if v>Q//2: v-=Q      # centred representative
    return FE(z3.IntVal(v))
def m_from_le_limbs(I,f,fn,a):
    l=a[0]; v=sum(x<<(64*i) for i,x in enumerate(l))%Q; return FE(z3.IntVal(v))
def m_from_bytes_checked(I,f,fn,a):
    ok=I.ctx.fresh('canon',sort='bool')
    if I.ctx.decide(ok): return Enum('Ok',[FE(z3.Int('s'))])
    return Enum('Err',[Enum('InvalidEncoding',[])])
def m_is_nonneg(I,f,fn,a): return z3.Not(NEG(deref(I,a[0]).t))
def m_sqrt(I,f,fn,a):
    num=deref(I,a[0]).t; den=deref(I,a[1]).t
    ws=I.ctx.fresh('ws',sort='bool'); y=I.ctx.fresh('y')
    I.ctx.side.append(('sqrt',num,den,ws,y))
    return Struct('tuple',[ws,FE(y)])
def m_try_branch(I,f,fn,a):
    e=a[0]
    return Enum('Continue',[e.fields[0]]) if e.variant=='Ok' else Enum('Break',[Enum('Err',[e.fields[0]])])
def m_from_residual(I,f,fn,a): return Enum('Err',[a[0].fields[0]])
def m_is_negative(I,f,fn,a): return NEG(deref(I,a[0]).t)

def m_ident(I,f,fn,a): return int(a[0]) if isinstance(a[0],bool) else a[0]
def m_into(I,f,fn,a):
    m=re.match(r'^<(.*) as Into<(.*)>>::into$', fn)
    return I.call(f, f'<{m.group(2)} as From<{m.group(1)}>>::from', a)
def m_bigint_one(I,f,fn,a): return Struct('BigInt',[[1,0,0,0]])
def m_bigint_new(I,f,fn,a): return Struct('BigInt',[list(a[0])])
def limbs_of(b): return b.fields[0] if isinstance(b,Struct) else b
def m_fp_new(I,f,fn,a):
    v=sum(x<<(64*i) for i,x in enumerate(limbs_of(a[0])))%Q
    if v>Q//2: v-=Q
    return FE(z3.IntVal(v))
def m_fp_new_unchecked(I,f,fn,a):
    v=sum(x<<(64*i) for i,x in enumerate(limbs_of(a[0])))*RINV%Q
    if v>Q//2: v-=Q
    return FE(z3.IntVal(v))
MODELS=[
 (r'^ark_ff::BigInt::<\d+>::one$', m_bigint_one),(r'^ark_ff::BigInt::<\d+>::new$', m_bigint_new),
 (r'ark_ff::Fp<.*>>::new$', m_fp_new),(r'ark_ff::Fp<.*>>::new_unchecked$', m_fp_new_unchecked),
 (r'^<(u\d+|usize) as From<(u\d+|bool|usize)>>::from$', m_ident),(r'^<.* as Into<.*>>::into$', m_into),
 (r'wrapper::Fq::add$', m_add),(r'wrapper::Fq::sub$', m_sub),(r'wrapper::Fq::mul$', m_mul),(r'wrapper::Fq::neg$', m_neg),(r'wrapper::Fq::square$', m_square),
 (r'Fq::from_montgomery_limbs$', m_from_mont),(r'Fq::from_le_limbs$', m_from_le_limbs),
 (r'from_bytes_checked$', m_from_bytes_checked),
 (r'as sign::Sign>::is_negative$', m_is_negative),(r'as sign::Sign>::is_nonnegative$', m_is_nonneg),
 (r'non_arkworks_sqrt_ratio_zeta$', m_sqrt),
 (r'as Try>::branch$', m_try_branch),(r'as FromResidual<.*>>::from_residual$', m_from_residual),
]

def run_all(items, fn_name, mkargs):
    results=[]; stack=[[]]
    while stack:
        dec=stack.pop()
        ctx=Ctx(items); ctx.decisions=list(dec)
        I=Interp(ctx, MODELS)
        it=[v for k,v in items.items() if k.endswith(fn_name)][0]
        fr0=Frame(it)  # dummy frame to hold args
        out=I.call_item(it, mkargs(I,fr0))
        results.append((list(ctx.decisions), list(ctx.path), list(ctx.side), out))
        # schedule siblings: flip each decision made beyond the given prefix
        for i in range(len(dec), len(ctx.decisions)):
            stack.append(ctx.decisions[:i]+[True])
    return results

if __name__=='__main__':
    items=load(sys.argv[1])
    print(len(items),'items')
    def mkargs(I,fr):
        fr.locals['enc']=Struct('Encoding',[[z3.Int(f'byte{i}') if i==31 else 0 for i in range(32)]])
        return [Ref(fr,'enc',[])]
    # concretise byte 31's top bits check: treat byte31 as concrete 0 for this probe
    def mkargs(I,fr):
        fr.locals['enc']=Struct('Encoding',[[0]*32]); return [Ref(fr,'enc',[])]
    res=run_all(items, '::vartime_decompress', mkargs)
    print(len(res),'paths')
    # spec
    s=z3.Int('s'); d=3021
    for dec,path,side,out in res:
        print('decisions',dec,'->',out.variant, [str(p)[:60] for p in path])
        if out.variant=='Ok':
            el=out.fields[0]; x,y,z,t=[f.t for f in el.fields]
            (_,num,den,ws,v)=side[0]
            ss=s*s; u1=1-ss; u2=u1*u1-4*d*ss
            # sign-adjusted v as in the spec, driven by the same neg() atom
            sv=z3.Solver()
            tt=z3.Then(z3.With('simplify',som=True,som_blowup=10**8,expand_power=True),'smt').solver()
            tt.add(z3.And(path))
            chk=2*s*u1*v
            vv=z3.If(NEG(chk),-v,v)
            sx=2*s*u1*vv*vv*u2; sy=(1+ss)*vv*u1
            tt.add(z3.Or(num!=1, den!=u2*u1*u1, x!=sx, y!=sy, z!=1, t!=sx*sy))
            print('   code == spec on this path:', 'PROVED' if tt.check()==z3.unsat else 'NOT PROVED')
