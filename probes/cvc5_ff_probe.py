# Probe: encode(decode(s)) == s over the real Fq, sqrt as contract, sign as UF.
from ffl import *
import sys
X = Ctx(tlimit=600)
s = X.var("s"); one=X.c(1); zero=X.c(0)
X.A(X.Not(X.isneg(s)))
ss = X.mul(s,s)
u1 = X.sub(one,ss)
u2 = X.sub(X.mul(u1,u1), X.mul(X.c(4*D),ss))
den = X.mul(u2, X.mul(u1,u1))
v0 = X.var("v0")
# was_square: den != 0 and v0^2*den = 1
X.A(X.eq(X.mul(v0,v0,den), one))
two_s_u1 = X.mul(X.c(2), s, u1)
check = X.mul(two_s_u1, v0)
v = X.ite(X.isneg(check), X.neg(v0), v0)
x = X.mul(two_s_u1, v, v, u2)
y = X.mul(X.add(one,ss), v, u1)
t = X.mul(x,y)
z = one
# encode
AMD = X.c(-1 - D)
U1 = X.mul(X.add(x,t), X.sub(x,t))
den2 = X.mul(U1, AMD, x, x)
V = X.var("V"); fl = X.bvar("fl")
# contract for sqrt_ratio_zeta(1, den2)
X.A(X.Or(
  X.And(X.eq(den2,zero), X.eq(V,zero), X.Not(fl)),
  X.And(X.ne(den2,zero), fl, X.eq(X.mul(V,V,den2), one)),
  X.And(X.ne(den2,zero), X.Not(fl), X.eq(X.mul(V,V,den2), X.c(ZETA)))))
# zeta nonsquare fact: for the nonsquare branch no w with w^2*den2 = 1 ; we leave it out first
VU1 = X.mul(V,U1)
U2 = X.abs(VU1)
U3 = X.sub(X.mul(U2,z), t)
S0 = X.mul(AMD, V, U3, x)
S = X.abs(S0)
X.sign_axioms([check, VU1, S0, s])
X.A(X.ne(S, s))
print(X.check())
