import sys, z3
sys.argv=[sys.argv[0]]
exec(open('mirsym0.py').read().split("if __name__=='__main__':")[0])
MODELS[:0]=[(r'u64::wrapper::Fq::add$', m_add),(r'u64::wrapper::Fq::sub$', m_sub),(r'u64::wrapper::Fq::mul$', m_mul),(r'u64::wrapper::Fq::neg$', m_neg),(r'u64::wrapper::Fq::square$', m_square),
  (r'::sqrt_ratio_zeta$', m_sqrt)]
items=load('/tmp/mirprobe_ark.mir')
X,Y,Z,T=z3.Ints('X Y Z T')
def mkargs(I,fr):
    fr.locals['el']=Struct('Element',[Struct('Projective',[FE(X),FE(Y),FE(T),FE(Z)])]); return [Ref(fr,'el',[])]
res=run_all(items,'::vartime_compress_to_field',mkargs)
print(len(res),'paths')
d=3021; AMD=-1-d
for dec,path,side,out in res:
    (_,num,den,ws,v)=side[0]
    u1=(X+T)*(X-T)
    ab=lambda w: z3.If(NEG(w),-w,w)
    u2=ab(v*u1); u3=u2*Z-T; s=ab(AMD*v*u3*X)
    tt=z3.Then(z3.With('simplify',som=True,som_blowup=10**8,expand_power=True),'smt').solver()
    tt.add(z3.And(path)) if path else None
    tt.add(z3.Or(num!=1, den!=u1*AMD*X*X, out.t!=s))
    print(dec, [str(p)[:50] for p in path], 'code==spec:', tt.check())
