#![allow(unused)]
use decaf377::Fq;

const P: [u64; 4] = Fq::MODULUS_LIMBS;

fn lt_p(a: &[u64; 4]) -> bool {
    let mut i = 3i32;
    while i >= 0 {
        let k = i as usize;
        if a[k] < P[k] { return true; }
        if a[k] > P[k] { return false; }
        i -= 1;
    }
    false
}

fn limbs(x: &Fq) -> [u32; 8] {
    unsafe { core::mem::transmute::<Fq, [u32; 8]>(*x) }
}
fn to64(l: [u32; 8]) -> [u64; 4] {
    [
        l[0] as u64 | (l[1] as u64) << 32,
        l[2] as u64 | (l[3] as u64) << 32,
        l[4] as u64 | (l[5] as u64) << 32,
        l[6] as u64 | (l[7] as u64) << 32,
    ]
}

fn ref_add(a: [u64; 4], b: [u64; 4]) -> [u64; 4] {
    // (a+b) mod p with 5-limb intermediate
    let mut s = [0u64; 5];
    let mut c = 0u128;
    for i in 0..4 {
        let t = a[i] as u128 + b[i] as u128 + c;
        s[i] = t as u64;
        c = t >> 64;
    }
    s[4] = c as u64;
    // subtract p if s >= p
    let mut d = [0u64; 4];
    let mut br = 0i128;
    for i in 0..4 {
        let t = s[i] as i128 - P[i] as i128 - br;
        d[i] = t as u64;
        br = if t < 0 { 1 } else { 0 };
    }
    let ge = (s[4] as i128 - br) >= 0;
    if ge { d } else { [s[0], s[1], s[2], s[3]] }
}

#[cfg(kani)]
#[kani::proof]
#[kani::unwind(33)]
fn fq_add_matches_reference() {
    let a: [u64; 4] = kani::any();
    let b: [u64; 4] = kani::any();
    kani::assume(lt_p(&a));
    kani::assume(lt_p(&b));
    let fa = Fq::from_montgomery_limbs(a);
    let fb = Fq::from_montgomery_limbs(b);
    let r = fa.add(&fb);
    let got = to64(limbs(&r));
    let want = ref_add(a, b);
    assert!(got[0] == want[0] && got[1] == want[1] && got[2] == want[2] && got[3] == want[3]);
    kani::cover!(a[3] == P[3] && b[3] > 0);
}

#[cfg(kani)]
#[kani::proof]
#[kani::unwind(33)]
fn fq_mul_one() {
    // a * ONE == a  (Montgomery mul of symbolic by constant)
    let a: [u64; 4] = kani::any();
    kani::assume(lt_p(&a));
    let fa = Fq::from_montgomery_limbs(a);
    let r = fa.mul(&Fq::ONE);
    let got = to64(limbs(&r));
    assert!(got == a);
}

#[cfg(kani)]
#[kani::proof]
#[kani::unwind(33)]
fn fq_mul_comm() {
    let a: [u64; 4] = kani::any();
    let b: [u64; 4] = kani::any();
    kani::assume(lt_p(&a));
    kani::assume(lt_p(&b));
    let fa = Fq::from_montgomery_limbs(a);
    let fb = Fq::from_montgomery_limbs(b);
    assert!(limbs(&fa.mul(&fb)) == limbs(&fb.mul(&fa)));
}

#[cfg(kani)]
#[kani::proof]
#[kani::unwind(33)]
fn fq_from_bytes_checked_iff_canonical() {
    let bytes: [u8; 32] = kani::any();
    let mut l = [0u64; 4];
    for i in 0..4 {
        let mut w = 0u64;
        for j in 0..8 { w |= (bytes[8*i+j] as u64) << (8*j); }
        l[i] = w;
    }
    let r = Fq::from_bytes_checked(&bytes);
    assert!(r.is_ok() == lt_p(&l));
}

#[cfg(kani)]
#[kani::proof]
#[kani::unwind(33)]
fn fq_select() {
    use subtle::{Choice, ConditionallySelectable, ConstantTimeEq};
    let a: [u64; 4] = kani::any();
    let b: [u64; 4] = kani::any();
    let c: bool = kani::any();
    let fa = Fq::from_montgomery_limbs(a);
    let fb = Fq::from_montgomery_limbs(b);
    let r = Fq::conditional_select(&fa, &fb, Choice::from(c as u8));
    assert!(to64(limbs(&r)) == if c { b } else { a });
    let e = fa.ct_eq(&fb);
    assert!(bool::from(e) == (a == b));
}

#[cfg(kani)]
mod stubtest {
    use super::*;
    // contract stub with ghost recording
    static mut GHOST_IN: [u32; 8] = [0; 8];
    static mut GHOST_OUT: [u32; 8] = [0; 8];
    pub fn stub_from_montgomery(
        out1: &mut decaf377::fields::fq::u32::fiat::FqNonMontgomeryDomainFieldElement,
        arg1: &decaf377::fields::fq::u32::fiat::FqMontgomeryDomainFieldElement,
    ) {
        let o: [u32; 8] = kani::any();
        unsafe { GHOST_IN = arg1.0; GHOST_OUT = o; }
        out1.0 = o;
    }
    #[kani::proof]
    #[kani::unwind(33)]
    #[kani::stub(decaf377::fields::fq::u32::fiat::fq_from_montgomery, stub_from_montgomery)]
    fn to_bytes_le_plumbing() {
        let a: [u64; 4] = kani::any();
        let fa = Fq::from_montgomery_limbs(a);
        let bytes = fa.to_bytes_le();
        let (gi, go) = unsafe { (GHOST_IN, GHOST_OUT) };
        // wrapper passed exactly the Montgomery limbs in ...
        assert!(to64(gi) == a);
        // ... and serialised exactly the kernel's output words little-endian (fq_to_bytes is real here)
        kani::assume(go[7] < 0x20000000);
        for i in 0..8 {
            let w = (bytes[4*i] as u32) | (bytes[4*i+1] as u32) << 8 | (bytes[4*i+2] as u32) << 16 | (bytes[4*i+3] as u32) << 24;
            assert!(w == go[i]);
        }
    }
}
