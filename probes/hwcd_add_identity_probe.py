import z3, time
I=z3.Int
x1,y1,Z1,x2,y2,Z2=z3.Ints('x1 y1 Z1 x2 y2 Z2')
d=3021; k=6042
# parametrize: X=x*Z, Y=y*Z, T=x*y*Z  (so T*Z = X*Y holds identically)
X1,Y1,T1=x1*Z1,y1*Z1,x1*y1*Z1
X2,Y2,T2=x2*Z2,y2*Z2,x2*y2*Z2
a=(Y1-X1)*(Y2-X2); b=(Y1+X1)*(Y2+X2); c=k*T1*T2; dd=(Z1+Z1)*Z2
e=b-a; f=dd-c; g=dd+c; h=b+a
X3,Y3,T3,Z3=e*f,g*h,e*h,f*g
# reference affine law (a=-1): x3=(x1y2+y1x2)/(1+d x1x2y1y2), y3=(y1y2+x1x2)/(1-d x1x2y1y2)
nx=x1*y2+y1*x2; dx=1+d*x1*x2*y1*y2
ny=y1*y2+x1*x2; dy=1-d*x1*x2*y1*y2
goals=[X3*dx - Z3*nx, Y3*dy - Z3*ny, T3*Z3 - X3*Y3]
for tac in ['default','som']:
  for gl in goals:
    t=time.time()
    if tac=='default':
        s=z3.Solver(); s.set('timeout',60000); s.add(gl!=0); r=s.check()
    else:
        tt=z3.Then(z3.With('simplify',som=True,hoist_mul=False),'smt'); s=tt.solver(); s.set('timeout',60000); s.add(gl!=0); r=s.check()
    print(tac, r, round(time.time()-t,2))
