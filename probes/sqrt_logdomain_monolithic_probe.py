# LOG-domain probe of ark_curve::invsqrt::sqrt_ratio_zeta: 2-adic exponent coordinates (mod 2^47), hand-transcribed.
import z3, time, sys
N=47; W=N
q=8444461749428370424248824938781546531375899335154063827935233455917409239041
M=(q-1)>>N; assert M%2==1 and M<<N==q-1
BV=lambda v: z3.BitVecVal(v % (1<<N), N)
Minv=pow(M,-1,1<<N)
e_zeta=BV(Minv)      # e'(zeta)
e_G=BV(1)
def epow(e,k): return e*BV(k)
en=z3.BitVec('en',N); ed=z3.BitVec('ed',N)
# odd part coefficient triples (num,den,zeta) mod M tracked concretely
class V:
    def __init__(s,e,h): s.e=e; s.h=tuple(x%M for x in h)
    def __mul__(a,b): return V(a.e+b.e, tuple(x+y for x,y in zip(a.h,b.h)))
    def pow(a,k): return V(a.e*BV(k), tuple(x*k for x in a.h))
    def sq(a): return a.pow(2)
    def inv(a): return a.pow(-1)
num=V(en,(1,0,0)); den=V(ed,(0,1,0)); zeta=V(e_zeta,(0,0,1)); one=V(BV(0),(0,0,0))
G=zeta.pow(M)
assert G.h==(0,0,0)
mask=BV(255)
mode=sys.argv[1] if len(sys.argv)>1 else 'ok'
# tables
s_keys=[G.pow(nu*2**(N-8)).inv() for nu in range(256)]
def gtab(p): return [G.pow(nu*2**p) for nu in range(256)]
g0,g8,g16,g24,g32,g40=[gtab(p) for p in (0,8,16,24,32,40)]
zeta_1mM2=zeta.pow(-(M-1)//2)   # ZETA^((1-M)/2)
obl=[]
def s_lookup(x):
    assert x.h==(0,0,0)
    for nu in range(256): assert z3.simplify(s_keys[nu].e).as_long()==(-nu*2**39)%(1<<N)
    obl.append(z3.Extract(38,0,x.e)==0)
    return z3.ZeroExt(64-8, z3.Extract(46,39,-x.e))
def tab(tabl, idx):
    k=[p for p in (0,8,16,24,32,40) if z3.simplify(tabl[1].e).as_long()==(2**p)%(1<<N)][0]
    for nu in range(256): assert z3.simplify(tabl[nu].e).as_long()==(nu*2**k)%(1<<N)
    return V(z3.Extract(N-1,0,idx)<<k,(0,0,0))
s=den.pow(2**N-1); t_=s.sq()*den; w=(num*t_).pow((M-1)//2)*s
v=w*den; uv=w*num; x5=uv*v
x4=x5.pow(256); x3=x4.pow(256); x2=x3.pow(256); x1=x2.pow(256); x0=x1.pow(128)
B=lambda k: z3.BitVecVal(k,64)
q0=s_lookup(x0); t=q0
a1=x1*tab(g32,t&255); q1=s_lookup(a1); t=t+(q1<<7)
a2=x2*tab(g24,t&255)*tab(g32,z3.LShR(t,8)&255); q2=s_lookup(a2); t=t+(q2<<(15 if mode!='mut' else 14))
a3=x3*tab(g16,t&255)*tab(g24,z3.LShR(t,8)&255)*tab(g32,z3.LShR(t,16)&255); q3=s_lookup(a3); t=t+(q3<<23)
a4=x4*tab(g8,t&255)*tab(g16,z3.LShR(t,8)&255)*tab(g24,z3.LShR(t,16)&255)*tab(g32,z3.LShR(t,24)&255); q4=s_lookup(a4); t=t+(q4<<31)
a5=x5*tab(g0,t&255)*tab(g8,z3.LShR(t,8)&255)*tab(g16,z3.LShR(t,16)&255)*tab(g24,z3.LShR(t,24)&255)*tab(g32,z3.LShR(t,32)&255); q5=s_lookup(a5); t=t+(q5<<39)
t=z3.LShR(t+1,1)
nsq=z3.If((q0&1)==0, one.e, zeta_1mM2.e)
flag=(q0&1)==0
res_sq_den_e = 2*(uv.e+nsq+tab(g0,t&255).e+tab(g8,z3.LShR(t,8)&255).e+tab(g16,z3.LShR(t,16)&255).e+tab(g24,z3.LShR(t,24)&255).e+tab(g32,z3.LShR(t,32)&255).e+tab(g40,z3.LShR(t,40)&255).e)+den.e
# odd part: for flag true: 2*uv.h + den.h == num.h ; flag false: 2*(uv.h+zeta_1mM2.h)+den.h == num.h+zeta.h
hs=tuple((2*a+b-c)%M for a,b,c in zip(uv.h,den.h,num.h)); print('odd-part (square case) residual:',hs)
hn=tuple((2*(a+z)+b-c-zz)%M for a,z,b,c,zz in zip(uv.h,zeta_1mM2.h,den.h,num.h,zeta.h)); print('odd-part (nonsquare case) residual:',hn)
goal=z3.And(z3.And(obl),
   flag == (z3.Extract(0,0,en-ed)==0),
   z3.If(flag, res_sq_den_e==num.e, res_sq_den_e==num.e+e_zeta))
sv=z3.Solver(); sv.set('timeout',600000); sv.add(z3.Not(goal))
t0=time.time(); r=sv.check(); print(mode, r, round(time.time()-t0,1),'s')
if r==z3.sat: print(sv.model()[en], sv.model()[ed])
