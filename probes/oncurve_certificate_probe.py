# certificate probe: decode output is on the curve, modulo h = v^2*u2*u1^2 - 1 ; sympy proposes cofactor, z3 checks identity mod q
import sympy as sp, time, z3
q=8444461749428370424248824938781546531375899335154063827935233455917409239041
s,v=sp.symbols('s v')
d=3021; a=-1
ss=s*s; u1=1-ss; u2=u1**2-4*d*ss
h=sp.expand(v**2*u2*u1**2-1)
two_s_u1=2*s*u1
x=two_s_u1*v**2*u2; y=(1+ss)*v*u1; t=x*y; z=1
g=sp.expand((y*y+a*x*x)-(z*z+d*t*t))
t0=time.time()
Q,r=sp.reduced(g,[h],s,v,order='lex')
print('reduced in',round(time.time()-t0,2),'remainder',r, 'deg g',sp.Poly(g,s,v).total_degree())
# now z3 verifies g == Q*h as identity over Int
S,V=z3.Ints('s v')
def toz3(e):
    e=sp.Poly(e,s,v); acc=z3.IntVal(0)
    for (i,j),c in e.terms():
        term=z3.IntVal(int(c))
        for _ in range(i): term=term*S
        for _ in range(j): term=term*V
        acc=acc+term
    return acc
# build g structurally (not expanded) to mimic interpreter output
SS=S*S; U1=1-SS; U2=U1*U1-4*d*SS; H=V*V*U2*U1*U1-1
X=2*S*U1*V*V*U2; Y=(1+SS)*V*U1; T=X*Y
G=(Y*Y-X*X)-(1+d*T*T)
t0=time.time()
tt=z3.Then(z3.With('simplify',som=True,hoist_mul=False,som_blowup=100000000,expand_power=True,mul_to_power=False),'smt'); sv=tt.solver(); sv.set('timeout',120000)
sv.add(G != toz3(Q[0])*H)
print('z3',sv.check(),round(time.time()-t0,2))
