import z3,time
N=47
E=z3.BitVec('E',N); tp=z3.BitVec('tp',64)
w=[8,15,23,31,39,47]; sh=[None,7,15,23,31,39]
def lo(t,k): return z3.Extract(N-1,0,t)  # truncate to 47 bits
def idx(t,s): return z3.ZeroExt(N-8, z3.Extract(7,0,z3.LShR(t,s)))
def alpha(i,t):
    xs=[39,32,24,16,8,0][i]
    e=E<<xs
    tabs={1:[(32,0)],2:[(24,0),(32,8)],3:[(16,0),(24,8),(32,16)],4:[(8,0),(16,8),(24,16),(32,24)],5:[(0,0),(8,8),(16,16),(24,24),(32,32)]}[i]
    for k,s in tabs: e=e+(idx(t,s)<<k)
    return e
for i in range(1,6):
    inv_prev=z3.And(z3.ULT(tp, z3.BitVecVal(1<<w[i-1],64)), z3.Extract(w[i-1]-1,0, E+z3.Extract(N-1,0,tp))==0)
    a=alpha(i,tp)
    hit=z3.Extract(38,0,a)==0
    q=z3.ZeroExt(56, z3.Extract(46,39,-a))
    tn=tp+(q<<sh[i])
    inv=z3.And(z3.ULT(tn, z3.BitVecVal(1<<w[i],64)) if w[i]<64 else True, z3.Extract(w[i]-1,0,E+z3.Extract(N-1,0,tn))==0)
    s=z3.Solver(); s.add(inv_prev, z3.Not(z3.And(hit,inv)))
    t0=time.time(); print('stage',i,s.check(),round(time.time()-t0,2))
