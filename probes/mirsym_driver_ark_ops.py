import sys, z3, re
sys.argv=[sys.argv[0]]
exec(open('mirsym0.py').read().split("if __name__=='__main__':")[0])
class UF:
    def __init__(s,fn,args): s.fn,s.args=fn,args
    def key(s): return (s.fn,tuple(k(a) for a in s.args))
    def __repr__(s): return f'{s.fn}({", ".join(map(repr,s.args))})'
def k(v):
    if isinstance(v,UF): return v.key()
    if isinstance(v,(Struct,Enum)): return (getattr(v,'name',getattr(v,'variant',None)),tuple(k(x) for x in v.fields))
    if isinstance(v,Sym): return ('sym',v.n)
    if isinstance(v,Ref): return ('ref',)
    return v
class SymV(Sym):
    def __repr__(s): return s.n
def short(fn):
    fn=re.sub(r'ark_ec::(models::)?twisted_edwards::','',fn); fn=re.sub(r'ark_curve::edwards::','',fn)
    return fn
def m_opaque(I,f,fn,a):
    a=[deref(I,x) for x in a]
    return UF(short(fn),a)
# any external (non-crate) call becomes an uninterpreted function
MODELS.append((r'^<(ark_ec|Affine|Projective|ark_ec::.*)', m_opaque))
MODELS.append((r'Projective<.*> as (Add|Sub|Neg)', m_opaque))
MODELS.append((r'Affine<.*> as ', m_opaque))
items=load('/tmp/mirprobe_ark.mir')
def run(line, kinds):
    name=[n for n in items if f'ops/projective.rs:{line}:' in n and n.endswith('::add')][0]
    def mkargs(I,fr):
        out=[]
        for i,kd in enumerate(kinds):
            inner=SymV('AB'[i]+'.inner')
            out.append(Struct('AffinePoint' if kd=='aff' else 'Element',[inner]))
        return out
    res=run_all(items,name,mkargs)
    return res[0][3]
toP=lambda kd,x: UF('<Projective<Decaf377EdwardsConfig> as From<Affine<Decaf377EdwardsConfig>>>::from',[x]) if kd=='aff' else x
for line,kinds,desc in [(206,('aff','aff'),'AffinePoint + AffinePoint'),(218,('aff','el'),'AffinePoint + Element'),(198,('el','aff'),'Element + AffinePoint')]:
    out=run(line,kinds)
    got=out.fields[0]
    want=UF('<Projective<Decaf377EdwardsConfig> as Add>::add',[toP(kinds[0],SymV('A.inner')),toP(kinds[1],SymV('B.inner'))])
    print(desc,'\n   code:',got,'\n   spec:',want,'\n   ', 'EQUAL' if k(got)==k(want) else 'DIFFERENT')
