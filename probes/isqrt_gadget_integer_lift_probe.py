import z3, time
ZETA=2841681278031794617739547238867782961338435681360110683443920362658525667816
x,y,inv,dp=z3.Ints('x y inv dp'); ws,z=z3.Bools('ws z')
facts=[z==(x==0), dp==z3.If(z,1,x), dp*inv==1,
       z3.Implies(ws, y*y==inv),
       z3.Implies(z3.And(z3.Not(ws),z), y*y==0),
       z3.Implies(z3.And(z3.Not(ws),z3.Not(z)), y*y==ZETA*inv)]
spec=z3.And(z3.Implies(z, z3.And(z3.Not(ws), y==0)),
            z3.Implies(z3.And(z3.Not(z),ws), y*y*x==1),
            z3.Implies(z3.And(z3.Not(z),z3.Not(ws)), y*y*x==ZETA))
s=z3.Solver(); s.set('timeout',60000); s.add(facts); s.add(z3.Not(spec))
t=time.time(); r=s.check(); print('pinned gadget, integer lift:',r,round(time.time()-t,2)); 
if r==z3.sat: print(s.model())
# repaired gadget: case 1 also requires not den_is_zero
facts2=facts[:3]+[z3.Implies(z3.And(ws,z3.Not(z)), y*y==inv), facts[4], facts[5], z3.Or(z3.And(ws,z3.Not(z)), z3.And(z3.Not(ws),z), z3.And(z3.Not(ws),z3.Not(z)))]
s=z3.Solver(); s.set('timeout',60000); s.add(facts2); s.add(z3.Not(spec))
t=time.time(); r=s.check(); print('repaired gadget, integer lift (no proof value, model search only):',r,round(time.time()-t,2))
