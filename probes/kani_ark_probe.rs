#![allow(unused)]
use decaf377::Fq;
use ark_ff::{PrimeField, BigInt};
const P: [u64; 4] = Fq::MODULUS_LIMBS;
fn lt_p(a: &[u64; 4]) -> bool {
    let mut i = 3i32;
    while i >= 0 {
        let k = i as usize;
        if a[k] < P[k] { return true; }
        if a[k] > P[k] { return false; }
        i -= 1;
    }
    false
}
fn limbs(x: &Fq) -> [u64; 4] { unsafe { core::mem::transmute::<Fq, [u64; 4]>(*x) } }

#[cfg(kani)]
#[kani::proof]
#[kani::unwind(33)]
fn fq64_select() {
    use subtle::{Choice, ConditionallySelectable, ConstantTimeEq};
    let a: [u64; 4] = kani::any();
    let b: [u64; 4] = kani::any();
    kani::assume(lt_p(&a)); kani::assume(lt_p(&b));
    let c: bool = kani::any();
    let fa = Fq::from_montgomery_limbs(a);
    let fb = Fq::from_montgomery_limbs(b);
    let r = Fq::conditional_select(&fa, &fb, Choice::from(c as u8));
    assert!(limbs(&r) == if c { b } else { a });
}

#[cfg(kani)]
#[kani::proof]
#[kani::unwind(33)]
fn fq64_from_bigint_verdict() {
    let a: [u64; 4] = kani::any();
    // verdict only: Some iff a < p. (value computed through arkworks reduction is not inspected)
    let r = Fq::from_bigint(BigInt(a));
    assert!(r.is_some() == lt_p(&a));
}

#[cfg(kani)]
#[kani::proof]
#[kani::unwind(33)]
fn fq64_add() {
    let a: [u64; 4] = kani::any();
    let b: [u64; 4] = kani::any();
    kani::assume(lt_p(&a)); kani::assume(lt_p(&b));
    let fa = Fq::from_montgomery_limbs(a);
    let fb = Fq::from_montgomery_limbs(b);
    let r = limbs(&fa.add(&fb));
    // reference
    let mut s = [0u64; 5]; let mut c = 0u128;
    for i in 0..4 { let t = a[i] as u128 + b[i] as u128 + c; s[i] = t as u64; c = t >> 64; }
    s[4] = c as u64;
    let mut d = [0u64; 4]; let mut br = 0i128;
    for i in 0..4 { let t = s[i] as i128 - P[i] as i128 - br; d[i] = t as u64; br = if t < 0 {1} else {0}; }
    let ge = (s[4] as i128 - br) >= 0;
    let want = if ge { d } else { [s[0], s[1], s[2], s[3]] };
    assert!(r == want);
}
