import cvc5, time
from cvc5 import Kind
Q = 8444461749428370424248824938781546531375899335154063827935233455917409239041
ZETA = 2841681278031794617739547238867782961338435681360110683443920362658525667816
D = 3021
class Ctx:
    def __init__(self, logic="QF_UFFF", opts=None, tlimit=None):
        self.tm = cvc5.TermManager()
        self.s = cvc5.Solver(self.tm)
        self.s.setLogic(logic)
        self.s.setOption("produce-models","true")
        if tlimit: self.s.setOption("tlimit-per", str(tlimit*1000))
        for k,v in (opts or {}).items(): self.s.setOption(k,v)
        self.F = self.tm.mkFiniteFieldSort(str(Q))
        self.B = self.tm.getBooleanSort()
        self.n = 0
        self.negf = self.tm.mkConst(self.tm.mkFunctionSort([self.F], self.B), "isneg")
    def c(self, v): return self.tm.mkFiniteFieldElem(str(v % Q), self.F)
    def var(self, name): return self.tm.mkConst(self.F, name)
    def bvar(self, name): return self.tm.mkConst(self.B, name)
    def add(self,*a): return self.tm.mkTerm(Kind.FINITE_FIELD_ADD,*a)
    def mul(self,*a): return self.tm.mkTerm(Kind.FINITE_FIELD_MULT,*a)
    def neg(self,a): return self.tm.mkTerm(Kind.FINITE_FIELD_NEG,a)
    def sub(self,a,b): return self.add(a,self.neg(b))
    def eq(self,a,b): return self.tm.mkTerm(Kind.EQUAL,a,b)
    def ne(self,a,b): return self.tm.mkTerm(Kind.NOT,self.eq(a,b))
    def And(self,*a): return a[0] if len(a)==1 else self.tm.mkTerm(Kind.AND,*a)
    def Or(self,*a): return a[0] if len(a)==1 else self.tm.mkTerm(Kind.OR,*a)
    def Not(self,a): return self.tm.mkTerm(Kind.NOT,a)
    def Imp(self,a,b): return self.tm.mkTerm(Kind.IMPLIES,a,b)
    def ite(self,c,a,b): return self.tm.mkTerm(Kind.ITE,c,a,b)
    def isneg(self,a): return self.tm.mkTerm(Kind.APPLY_UF,self.negf,a)
    def fresh(self, base="t"):
        self.n+=1; return self.var(f"{base}{self.n}")
    def let(self, t, base="t"):
        v = self.fresh(base); self.s.assertFormula(self.eq(v,t)); return v
    def A(self,f): self.s.assertFormula(f)
    def sign_axioms(self, terms):
        z = self.c(0)
        for t in terms:
            # isneg(0)=false ; t!=0 -> isneg(-t) = !isneg(t)
            self.A(self.Imp(self.eq(t,z), self.Not(self.isneg(t))))
            self.A(self.Imp(self.ne(t,z), self.eq(self.isneg(self.neg(t)), self.Not(self.isneg(t)))))
    def abs(self, t):
        return self.ite(self.isneg(t), self.neg(t), t)
    def check(self):
        t=time.time(); r=self.s.checkSat(); return r, time.time()-t
